"""
Shared machinery of every check: Lean build + axiom audit, the model driver, the decision
procedure (DESIGN.md section 5), known findings, replays and evidence files.

Nothing in here knows about a particular property; properties live in vf/props/cXX.py.
"""
import fcntl
import hashlib
import json
import os
import random
import re
import shutil
import subprocess
import sys
import tempfile
import time
import traceback

ROOT = os.path.dirname(os.path.dirname(os.path.abspath(__file__)))
LEAN_DIR = os.path.join(ROOT, 'lean')
REPO = os.path.abspath(os.environ.get('EDXML_SDK_ROOT', '/repo'))
ALLOWED_AXIOMS = {'propext', 'Classical.choice', 'Quot.sound'}
FORBIDDEN = re.compile(
    r'\b(sorry|admit|native_decide|bv_decide|implemented_by|unsafe)\b|^\s*axiom\s|maxHeartbeats\s+0')

TRUSTED_BASE = [
    'Lean 4.33.0 kernel (axioms allowed: propext, Classical.choice, Quot.sound; no native_decide)',
    'statements in lean/EdxmlProps/<id>.lean read against properties.jsonl',
    'hand-written model in lean/EdxmlModel tied to /repo by this run\'s correspondence cases',
    'Python harness vf/ (generators, canonicalisation) and the JSON line protocol of lean/Driver',
    'lxml/libxml2, CPython stdlib, hashlib, dateutil, IPy: modelled, not verified',
]


def import_sdk():
    """Import edxml from the tree under test and make sure that is what we got."""
    if sys.path[0] != REPO:
        sys.path.insert(0, REPO)
    import edxml  # noqa
    got = os.path.abspath(edxml.__file__)
    if not got.startswith(REPO + os.sep):
        raise RuntimeError('edxml imported from %s, expected under %s' % (got, REPO))
    return edxml


# --------------------------------------------------------------------------------------------
# Lean side
# --------------------------------------------------------------------------------------------

class LeanStatus:
    def __init__(self):
        self.built = False
        self.log = ''
        self.theorems = {}      # name -> sorted axioms
        self.forbidden = []     # textual hits
        self.missing = []       # required theorems not found
        self.bad_axioms = {}    # name -> offending axioms
        self.wall = 0.0

    @property
    def ok(self):
        return self.built and not self.forbidden and not self.missing and not self.bad_axioms


def _lean_sources():
    out = []
    for base, _dirs, files in os.walk(LEAN_DIR):
        if '.lake' in base.split(os.sep):
            continue
        for f in files:
            if f.endswith('.lean') or f == 'lakefile.toml':
                out.append(os.path.join(base, f))
    return sorted(out)


def _strip_comments(text):
    # remove nested block comments and line comments
    res = []
    depth = 0
    i = 0
    while i < len(text):
        if text.startswith('/-', i):
            depth += 1
            i += 2
        elif text.startswith('-/', i) and depth:
            depth -= 1
            i += 2
        elif depth:
            if text[i] == '\n':
                res.append('\n')
            i += 1
        elif text.startswith('--', i):
            while i < len(text) and text[i] != '\n':
                i += 1
        else:
            res.append(text[i])
            i += 1
    return ''.join(res)


def scan_forbidden():
    hits = []
    for path in _lean_sources():
        if not path.endswith('.lean'):
            continue
        with open(path, encoding='utf-8') as f:
            text = _strip_comments(f.read())
        # string literals may legitimately contain words; drop them
        text = re.sub(r'"(?:\\.|[^"\\])*"', '""', text)
        for n, line in enumerate(text.split('\n'), 1):
            if FORBIDDEN.search(line):
                hits.append('%s:%d: %s' % (os.path.relpath(path, ROOT), n, line.strip()[:120]))
    return hits


def lake(args, timeout=1800):
    """Run lake under an exclusive lock so that concurrent checks share one build."""
    lock_path = os.path.join(LEAN_DIR, '.build.lock')
    with open(lock_path, 'w') as lock:
        fcntl.flock(lock, fcntl.LOCK_EX)
        try:
            p = subprocess.run(['lake'] + args, cwd=LEAN_DIR, stdout=subprocess.PIPE,
                               stderr=subprocess.STDOUT, text=True, timeout=timeout)
            return p.returncode, p.stdout
        finally:
            fcntl.flock(lock, fcntl.LOCK_UN)


def lean_status(prop_id, required, clean=False, leanchecker=False):
    """Build the model, the property module and the driver; audit the property theorems."""
    st = LeanStatus()
    t0 = time.time()
    module = 'EdxmlProps.%s' % prop_id
    if clean:
        # rebuild this property's module from scratch (and whatever depends on nothing else)
        for ext in ('olean', 'ilean', 'trace', 'hash'):
            p = os.path.join(LEAN_DIR, '.lake', 'build', 'lib', 'lean', 'EdxmlProps', '%s.%s' % (prop_id, ext))
            if os.path.exists(p):
                os.remove(p)
    rc, log = lake(['build', 'EdxmlModel', 'driver', module, 'EdxmlProps.Audit'])
    st.log = log
    st.built = rc == 0
    st.forbidden = scan_forbidden()
    if st.built:
        src = 'import %s\nimport EdxmlProps.Audit\n#audit_ns EdxmlProps.%s\n' % (module, prop_id)
        lock_path = os.path.join(LEAN_DIR, '.build.lock')
        with open(lock_path, 'w') as lock:
            fcntl.flock(lock, fcntl.LOCK_SH)
            p = subprocess.run(['lake', 'env', 'lean', '--stdin'], cwd=LEAN_DIR, input=src,
                               stdout=subprocess.PIPE, stderr=subprocess.STDOUT, text=True, timeout=600)
        m = re.search(r'AUDIT-JSON (.*)', p.stdout)
        if p.returncode != 0 or not m:
            st.built = False
            st.log += '\n[audit failed]\n' + p.stdout
        else:
            data = json.loads(m.group(1))
            for ent in data:
                st.theorems[ent['name']] = sorted(ent['axioms'])
    for name in required:
        full = 'EdxmlProps.%s.%s' % (prop_id, name)
        if full not in st.theorems:
            st.missing.append(full)
    for name, axs in st.theorems.items():
        bad = [a for a in axs if a not in ALLOWED_AXIOMS]
        if bad:
            st.bad_axioms[name] = bad
    if st.built and leanchecker:
        rc, log = lake(['env', 'leanchecker', module], timeout=3600)
        if rc != 0:
            st.built = False
            st.log += '\n[leanchecker failed]\n' + log
    st.wall = time.time() - t0
    return st


class Driver:
    """Batch interface to the compiled model driver."""

    def __init__(self, dev_flags=()):
        self.exe = os.path.join(LEAN_DIR, '.lake', 'build', 'bin', 'driver')
        self.dev = sorted(dev_flags)

    def batch(self, requests):
        if not requests:
            return []
        tmp = tempfile.mkdtemp(prefix='vf-drv-')
        try:
            inp = os.path.join(tmp, 'in.jsonl')
            with open(inp, 'w') as f:
                for r in requests:
                    r = dict(r)
                    r.setdefault('dev', self.dev)
                    f.write(json.dumps(r) + '\n')
            with open(inp) as f:
                p = subprocess.run([self.exe], stdin=f, stdout=subprocess.PIPE, stderr=subprocess.PIPE,
                                   timeout=3600)
            lines = p.stdout.decode('utf-8').split('\n')
            if lines and lines[-1] == '':
                lines.pop()
            if p.returncode != 0 or len(lines) != len(requests):
                raise RuntimeError('driver failed rc=%s, %d replies for %d requests: %s' % (
                    p.returncode, len(lines), len(requests), p.stderr.decode()[-2000:]))
            return [json.loads(x) for x in lines]
        finally:
            shutil.rmtree(tmp, ignore_errors=True)


# --------------------------------------------------------------------------------------------
# Known findings
# --------------------------------------------------------------------------------------------

def known_findings(prop_id):
    path = os.path.join(ROOT, 'known_findings.json')
    with open(path) as f:
        data = json.load(f)
    return [e for e in data if e['property'] == prop_id]


# --------------------------------------------------------------------------------------------
# Property interface
# --------------------------------------------------------------------------------------------

class Property:
    """
    Base class of a per-property check.

    A *case* is a JSON-serialisable dict. For each case:
      observe(case)            -> canonical observation of the implementation (JSON-serialisable)
      requests(case)           -> list of driver requests
      predict(case, replies)   -> what the model says observe(case) should be
      oracle(case, obs)        -> None when the property holds on this case according to an
                                  oracle independent of the Lean model, else a description
      flags_hit(case, replies) -> known deviation flags that influence this case in the model
    """
    id = None
    title = ''
    required_theorems = ()
    level = 'proof'
    design_ref = ''
    assumptions = ()

    def generate(self, rng, tier):
        raise NotImplementedError

    def observe(self, case):
        raise NotImplementedError

    def requests(self, case):
        raise NotImplementedError

    def predict(self, case, replies):
        raise NotImplementedError

    def oracle(self, case, obs):
        return None

    def flags_hit(self, case, replies):
        return []

    def fill_undecided(self, case, obs, pred):
        """Where the model declares an input outside its domain (it answers 'undecided'), the prediction
        takes the observed value: only the independent oracle judges those positions."""
        return pred

    def neighbours(self, case, rng):
        """Cases near a disagreeing case, for the failing-input search."""
        return []

    def nontrivial(self, case):
        """Key identifying a distinct non-trivial case, or None when trivial."""
        return json.dumps(case, sort_keys=True)

    def sample_view(self, case):
        return case

    def rule(self):
        return ''

    def extra_coverage(self):
        return {}


class CaseResult:
    __slots__ = ('case', 'obs', 'pred', 'oracle', 'hit', 'origin')

    def __init__(self, case, obs, pred, oracle, hit, origin):
        self.case, self.obs, self.pred, self.oracle, self.hit, self.origin = case, obs, pred, oracle, hit, origin

    @property
    def agrees(self):
        return self.obs == self.pred


def _observe_worker(args):
    modname, case = args
    import importlib
    import_sdk()
    prop = importlib.import_module(modname).PROPERTY
    obs = canonical(prop.observe(case))
    return obs, prop.oracle(case, obs)


_POOL = None


def _pool():
    global _POOL
    if _POOL is None:
        import multiprocessing
        _POOL = multiprocessing.get_context('fork').Pool(min(16, os.cpu_count() or 1))
    return _POOL


def evaluate(prop, cases, driver, origin='generated'):
    """Run implementation, model and oracle on cases."""
    # a property whose model questions are about values the implementation produced on the way (requests_obs)
    # is observed first; otherwise the model is asked first and the observation may run in the pool
    late = hasattr(prop, 'requests_obs')
    if getattr(prop, 'parallel', False) and len(cases) > 3:
        observed = _pool().map(_observe_worker, [(type(prop).__module__, c) for c in cases], chunksize=1)
    elif late:
        observed = []
        for c in cases:
            obs = canonical(prop.observe(c))
            observed.append((obs, prop.oracle(c, obs)))
    else:
        observed = None
    reqs, spans = [], []
    for n, c in enumerate(cases):
        r = prop.requests_obs(c, observed[n][0]) if late else prop.requests(c)
        spans.append((len(reqs), len(reqs) + len(r)))
        reqs.extend(r)
    replies = driver.batch(reqs)
    out = []
    for n, (c, (a, b)) in enumerate(zip(cases, spans)):
        rep = replies[a:b]
        bad = [x for x in rep if isinstance(x, dict) and 'bad-op' in x]
        if bad:
            raise RuntimeError('driver rejected a request of case %r: %r' % (c, bad[0]))
        if observed is not None:
            obs, orc = observed[n]
        else:
            obs = canonical(prop.observe(c))
            orc = prop.oracle(c, obs)
        pred = canonical(prop.fill_undecided(c, obs, canonical(prop.predict(c, rep))))
        hit = sorted(prop.flags_hit(c, rep))
        out.append(CaseResult(c, obs, pred, orc, hit, origin))
    return out


def canonical(x):
    """Round-trip through JSON so that tuples/lists and key order cannot cause a diff."""
    return json.loads(json.dumps(x, sort_keys=True))


def load_corpus(prop_id):
    d = os.path.join(ROOT, 'corpus', prop_id)
    cases = []
    if os.path.isdir(d):
        for name in sorted(os.listdir(d)):
            if name.endswith('.json'):
                with open(os.path.join(d, name)) as f:
                    cases.append(json.load(f)['case'])
    return cases


def write_replay(prop, seed, tier, n, kind, case, observed, expected, expected_from, broken=None):
    os.makedirs(os.path.join(ROOT, 'replays'), exist_ok=True)
    path = os.path.join(ROOT, 'replays', '%s-%s-%d.json' % (prop.id, seed, n))
    with open(path, 'w') as f:
        json.dump({
            'property': prop.id, 'seed': seed, 'tier': tier, 'kind': kind, 'case': case,
            'observed': observed, 'expected': expected, 'expected_from': expected_from,
            'broken': broken, 'replay_cmd': './check %s --replay %s' % (prop.id, os.path.relpath(path, ROOT)),
        }, f, indent=1, sort_keys=True)
    return os.path.relpath(path, ROOT)


def shrink_case(prop, case, still_bad, budget=150):
    """Greedy structural shrinking: try the property's own reductions while the failure persists."""
    reducer = getattr(prop, 'reductions', None)
    if reducer is None:
        return case
    cur = case
    steps = 0
    progress = True
    while progress and steps < budget:
        progress = False
        for cand in reducer(cur):
            steps += 1
            if steps >= budget:
                break
            try:
                if still_bad(cand):
                    cur = cand
                    progress = True
                    break
            except Exception:
                continue
    return cur


def run_check(prop, tier, seed, replay=None):
    t0 = time.time()
    import_sdk()
    rng = random.Random(seed)
    findings = known_findings(prop.id)
    known = [f for f in findings if f['status'] == 'known']
    fixed = [f for f in findings if f['status'] == 'fixed']
    dev = [f['flag'] for f in known if f.get('flag')]
    driver = Driver(dev)

    lean = lean_status(prop.id, prop.required_theorems, clean=(tier == 'thorough' and not replay),
                       leanchecker=(tier == 'thorough' and not replay))

    if not os.path.exists(driver.exe):
        print('ERROR: model driver did not build; cannot run the correspondence\n' + lean.log[-3000:])
        return 2

    violations = []     # (kind, CaseResult or None, text)
    known_hits = {}     # flag -> example description
    results = []

    def classify(res):
        if res.agrees and res.oracle is None:
            return
        if res.agrees and res.oracle is not None:
            if res.hit:
                for fl in res.hit:
                    known_hits.setdefault(fl, res.oracle)
                return
            violations.append(('violation', res, res.oracle))
            return
        # disagreement between implementation and model(known flags)
        if res.oracle is not None and not res.hit:
            violations.append(('violation', res, res.oracle))
        elif res.oracle is not None:
            # a case set aside for a known finding: what the oracle says there is the finding; what is new is the disagreement
            violations.append(('disagreement', res, 'implementation and model disagree (in a case of the known finding %s)' % ', '.join(res.hit)))
        else:
            violations.append(('disagreement', res, 'implementation and model disagree'))

    if replay:
        with open(replay if os.path.isabs(replay) else os.path.join(ROOT, replay)) as f:
            rp = json.load(f)
        cases = [rp['case']] if rp.get('case') is not None else []
        origin = 'replay'
        batches = [(origin, cases)]
    else:
        wit_known = [f['witness'] for f in known if f.get('witness') is not None]
        wit_fixed = [f['witness'] for f in fixed if f.get('witness') is not None]
        batches = [('witness-known', wit_known), ('witness-fixed', wit_fixed),
                   ('corpus', load_corpus(prop.id)), ('generated', list(prop.generate(rng, tier)))]

    for origin, cases in batches:
        if not cases:
            continue
        for res in evaluate(prop, cases, driver, origin):
            results.append(res)
            classify(res)
            if origin == 'witness-known' and res.agrees and res.oracle is None:
                violations.append(('disagreement', res,
                                   'witness of a known finding no longer fails on the code: '
                                   'move the finding to "fixed" if it was repaired'))
            if origin == 'witness-fixed' and res.oracle is not None:
                pass  # already a violation through classify

    # ---- verdict -------------------------------------------------------------------------
    exit_code = 0
    lines = []
    n_replay = 0
    real = [v for v in violations if v[0] == 'violation']
    disagreements = [v for v in violations if v[0] == 'disagreement']

    def still_bad_factory(want_oracle):
        def still_bad(c):
            r = evaluate(prop, [c], driver)[0]
            # never shrink an unlisted violation into one that a known finding explains
            return (r.oracle is not None and not r.hit) if want_oracle else (not r.agrees)
        return still_bad

    if real:
        kind, res, text = real[0]
        case = shrink_case(prop, res.case, still_bad_factory(True)) if not replay else res.case
        r2 = evaluate(prop, [case], driver)[0]
        path = write_replay(prop, seed, tier, n_replay, 'violation', case, r2.obs, r2.pred,
                            'oracle: ' + (r2.oracle or text))
        lines.append('VIOLATION property=%s replay=%s' % (prop.id, path))
        exit_code = 1
    elif disagreements or not lean.ok:
        # A proof obligation or the correspondence no longer checks: search for a failing input.
        found = None
        search_pool = []
        for _k, res, _t in disagreements[:20]:
            search_pool.extend(prop.neighbours(res.case, rng))
        if not lean.ok and not replay:
            search_pool.extend(prop.generate(random.Random(seed + 1), tier))
        if search_pool:
            for res in evaluate(prop, search_pool, driver, 'search'):
                if res.oracle is not None and not res.hit:
                    found = res
                    break
        if found is not None:
            case = shrink_case(prop, found.case, still_bad_factory(True))
            r2 = evaluate(prop, [case], driver)[0]
            path = write_replay(prop, seed, tier, n_replay, 'violation', case, r2.obs, r2.pred,
                                'oracle: ' + (r2.oracle or found.oracle))
            lines.append('VIOLATION property=%s replay=%s' % (prop.id, path))
        else:
            if disagreements:
                _k, res, text = disagreements[0]
                case = shrink_case(prop, res.case, still_bad_factory(False)) if not replay else res.case
                r2 = evaluate(prop, [case], driver)[0]
                broken = 'correspondence %s: implementation vs model(dev=%s): %s' % (prop.id, dev, text)
                path = write_replay(prop, seed, tier, n_replay, 'no-failing-input-found', case,
                                    r2.obs, r2.pred, 'lean model (driver)', broken)
            else:
                why = []
                if not lean.built:
                    why.append('lake build of EdxmlProps.%s failed' % prop.id)
                why += ['missing theorem ' + m for m in lean.missing]
                why += ['theorem %s depends on %s' % kv for kv in lean.bad_axioms.items()]
                why += ['forbidden token: ' + h for h in lean.forbidden]
                path = write_replay(prop, seed, tier, n_replay, 'no-failing-input-found', None, None,
                                    None, 'lean', '; '.join(why))
            lines.append('VIOLATION property=%s replay=%s no-failing-input-found' % (prop.id, path))
        exit_code = 1

    for f in known:
        fl = f.get('flag')
        # a known finding is reported on every run (its witness reproduced above)
        lines.insert(0, 'KNOWN-FINDING: property=%s %s: %s' % (prop.id, fl, f['what']))

    # ---- evidence ------------------------------------------------------------------------
    if not replay:
        keys = set()
        for r in results:
            # the rule may speak about what was observed (at least one accepted and one rejected value, ...)
            k = prop.nontrivial_obs(r.case, r.obs) if hasattr(prop, 'nontrivial_obs') else prop.nontrivial(r.case)
            if k is not None:
                keys.add(hashlib.sha1(k.encode()).hexdigest() if isinstance(k, str) else k)
        obligations = len(prop.required_theorems)
        discharged = sum(1 for n in prop.required_theorems
                         if 'EdxmlProps.%s.%s' % (prop.id, n) in lean.theorems
                         and 'EdxmlProps.%s.%s' % (prop.id, n) not in lean.bad_axioms) if lean.built else 0
        gen = [r for r in results if r.origin == 'generated']
        coverage = {
            'obligations': obligations,
            'discharged': discharged,
            'checker_cmd': 'cd lean && lake build EdxmlProps.%s && lake env lean --stdin <<< "import EdxmlProps.%s\\nimport EdxmlProps.Audit\\n#audit_ns EdxmlProps.%s"%s' % (
                prop.id, prop.id, prop.id, ' && lake env leanchecker EdxmlProps.%s' % prop.id if tier == 'thorough' else ''),
            'trusted_base': TRUSTED_BASE + list(prop.assumptions),
            'theorems': {k: v for k, v in sorted(lean.theorems.items())},
            'all_theorems_in_namespace': len(lean.theorems),
            'forbidden_token_hits': lean.forbidden,
            'evaluations': len(results),
            'distinct_nontrivial': len(keys),
            'rule': prop.rule(),
            'samples': [prop.sample_view(r.case) for r in (gen[:2] + gen[-1:] if gen else results[:3])],
            'by_origin': {o: sum(1 for r in results if r.origin == o) for o in sorted(set(r.origin for r in results))},
            'disagreements': len(disagreements),
            'known_flags_in_model': dev,
            'known_finding_cases': {k: v for k, v in known_hits.items()},
            'cases_explained_by_known_findings': sum(1 for r in results if r.agrees and r.oracle is not None and r.hit),
            'lean_build_s': round(lean.wall, 2),
        }
        coverage.update(prop.extra_coverage())
        ev = {
            'property_id': prop.id, 'tier': tier, 'seed': seed, 'level': prop.level,
            'coverage': coverage,
            'assumptions': list(prop.assumptions),
            'wall_s': round(time.time() - t0, 2),
            'violations': 1 if exit_code else 0,
        }
        # VERIF_EVIDENCE_DIR: runs against a deliberately changed tree (seeded changes) keep their evidence elsewhere
        evdir = os.environ.get('VERIF_EVIDENCE_DIR') or os.path.join(ROOT, 'evidence')
        os.makedirs(evdir, exist_ok=True)
        with open(os.path.join(evdir, prop.id + '.json'), 'w') as f:
            json.dump(ev, f, indent=1, sort_keys=True)
            f.write('\n')

    for ln in lines:
        print(ln)
    if exit_code == 0:
        print('OK property=%s tier=%s seed=%s cases=%d theorems=%d wall=%.1fs' % (
            prop.id, tier, seed, len(results), len(lean.theorems), time.time() - t0))
    return exit_code


def main(argv):
    import argparse
    import importlib
    ap = argparse.ArgumentParser()
    ap.add_argument('prop')
    ap.add_argument('--tier', default=os.environ.get('VERIF_TIER') or 'quick', choices=['quick', 'thorough'])
    ap.add_argument('--replay')
    args = ap.parse_args(argv)
    seed = int(os.environ.get('VERIF_SEED') or 0)
    try:
        mod = importlib.import_module('vf.props.%s' % args.prop.lower())
        prop = mod.PROPERTY
        return run_check(prop, args.tier, seed, args.replay)
    except subprocess.TimeoutExpired:
        traceback.print_exc()
        return 2
    except Exception:
        traceback.print_exc()
        return 2
