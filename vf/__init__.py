"""Verification harness for edxml/sdk: Lean 4 model + correspondence checks."""
