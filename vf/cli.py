"""Run a command line tool of the SDK in-process: argv, stdin and stdout are replaced for the call."""
import io
import sys


class _Std:
    def __init__(self, data=b''):
        self.buffer = io.BytesIO(data)

    def write(self, s):
        self.buffer.write(s.encode('utf-8') if isinstance(s, str) else s)

    def flush(self):
        pass

    def isatty(self):
        return False

    def fileno(self):
        raise io.UnsupportedOperation('fileno')


def run_cli(module_name, argv, stdin=b''):
    """-> (stdout bytes, outcome): outcome is None, 'exit:<code>' or the name of the exception that escaped main()."""
    import importlib
    import logging
    mod = importlib.import_module('edxml.cli.' + module_name)
    old = sys.argv, sys.stdout, sys.stdin, sys.stderr
    out = _Std()
    outcome = None
    try:
        sys.argv = [module_name] + list(argv)
        sys.stdout, sys.stdin, sys.stderr = out, _Std(stdin), _Std()
        logging.disable(logging.CRITICAL)
        try:
            mod.main()
        except SystemExit as ex:
            outcome = None if ex.code in (None, 0) else 'exit:%s' % ex.code
        except Exception as ex:
            outcome = type(ex).__name__
    finally:
        sys.argv, sys.stdout, sys.stdin, sys.stderr = old
    return out.buffer.getvalue(), outcome
