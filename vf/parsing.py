"""Shared helpers for the parser properties (C06, C14, C19): document construction from abstract
items, instrumented pull/push parsers, observation in the vocabulary of the Lean parser machine."""
import io
import re
from lxml import etree

NS = 'http://edxml.org/edxml'
FNS = 'http://foreign.example/ns'
FTAG = '{%s}thing' % FNS
TYPES = ['ta', 'tb', 'tc']
SOURCES = ['/a/', '/a/b/', '/c/']
PATTERNS = ['/a/', '/a/.*', '/', '/c/', '/a/b/', '.*b/$', '^/a/$']


def ontology_xml(types, sources, flavour='ok', version=1):
    """Serialised <ontology> element defining the given event types and sources."""
    from edxml.ontology import Ontology
    o = Ontology()
    o.create_object_type('o', data_type='string:0:mc:u')
    for s in sources:
        o.create_event_source(s)
    for t in types:
        et = o.create_event_type(t)
        et.create_property('p', 'o')
        et.create_property('q', 'o').make_optional().make_multivalued()
        # properties whose names are the tags the parsers stop at
        et.create_property('event', 'o').make_optional()
        et.create_property('ontology', 'o').make_optional()
    xml = etree.tostring(o.generate_xml())
    if flavour == 'bogus-elem':
        xml = xml.replace(b'<object-types>', b'<object-types><bogus/>', 1)
    elif flavour == 'missing-attr':
        xml = xml.replace(b' description="o"', b'', 1)
    elif flavour == 'unknown-attr':
        xml = xml.replace(b'<object-type ', b'<object-type foo="1" ', 1)
    elif flavour == 'extra-ontology-attr':
        xml = xml.replace(b'<ontology', b'<ontology foo="1"', 1)
    elif flavour == 'incompatible':
        # same version, different data type: not a valid upgrade of the definition seen before
        xml = xml.replace(b'string:0:mc:u', b'number:int', 1)
    elif flavour == 'bad-display-name':
        xml = xml.replace(b'display-name-singular="', b'display-name-singular=" ', 1)
    assert flavour == 'ok' or xml != etree.tostring(o.generate_xml())
    return xml


# flavour of a faulty ontology element -> validity class of the Lean model
ONT_FLAVOURS = {
    'incompatible': 'semFail', 'bad-display-name': 'semFail',
    'bogus-elem': 'schemaSemFail', 'missing-attr': 'schemaSemFail',
    'unknown-attr': 'schemaSemOk', 'extra-ontology-attr': 'schemaSemOk',
}


def ont_validity(it):
    return 'ok' if it['valid'] else ONT_FLAVOURS[it['flavour']]


# object values whose white space matters: a parser must deliver them as they are, however the input is cut
TRICKY = ['a\nb', ' lead', 'trail ', 'tab\there', 'two\n\nbreaks', 'é\nü', 'x &amp; y', ' \n. ', 'a  b']
# values that consist of white space only (valid string objects): see the known finding of C06
BLANKS = ['  ', ' ', '\n  \n', '\n', '\t']


def tricky_values(idx, blank=False):
    """The extra objects (property q) of event idx; none for every other event."""
    pool = BLANKS if blank else TRICKY
    if not blank and idx % 4 == 0:
        # two objects of one property that are not neighbours in the document (another property in between)
        return ['first%d' % idx, pool[(idx * 5) % len(pool)]]
    return [pool[(idx * 5) % len(pool)]] if (idx % 2 == 0 or blank) else []


def reserved_values(idx):
    """Objects of the properties named `event` and `ontology` of event idx (every third event has them, ahead of the others)."""
    return ['E:e%d' % idx, 'O:o%d' % idx] if idx % 3 == 0 else []


def event_xml(idx, typ, source, flavour='ok', big=0, blank=False):
    e = etree.Element('{%s}event' % NS, nsmap={None: NS})
    e.set('event-type', typ)
    e.set('source-uri', source)
    props = etree.SubElement(e, '{%s}properties' % NS)
    if flavour == 'ok' and not big and reserved_values(idx):
        etree.SubElement(props, '{%s}event' % NS).text = 'e%d' % idx
        etree.SubElement(props, '{%s}ontology' % NS).text = 'o%d' % idx
    split = flavour == 'ok' and not big and len(tricky_values(idx, blank)) > 1
    if split:
        etree.SubElement(props, '{%s}q' % NS).text = tricky_values(idx, blank)[0]
    etree.SubElement(props, '{%s}p' % NS).text = 'v%d' % idx
    if big:
        etree.SubElement(props, '{%s}q' % NS).text = 'x' * big
    elif flavour == 'ok':
        for v in tricky_values(idx, blank)[1 if split else 0:]:
            etree.SubElement(props, '{%s}q' % NS).text = v
    if flavour == 'undeclared':
        etree.SubElement(props, '{%s}zz' % NS).text = 'x'
    elif flavour == 'missing':
        props.remove(props[0])
        etree.SubElement(props, '{%s}q' % NS).text = 'v%d' % idx
    xml = etree.tostring(e)
    if idx % 4 == 1:
        # attributes separated by a line break
        xml = xml.replace(b'" source-uri=', b'"\nsource-uri=', 1)
    return xml.replace(b' xmlns="%s"' % NS.encode(), b'', 1)


def foreign_xml(idx):
    return ('<x:thing xmlns:x="%s" n="%d">text %d<x:sub a="1">inneré\U0001F600</x:sub>tail</x:thing>' % (FNS, idx, idx)).encode('utf-8')


def elem_view(e, top=True):
    """Structural, serialisation-independent view of an element."""
    return [e.tag, sorted([k, v] for k, v in e.attrib.items()), e.text or '',
            [elem_view(c, False) for c in e], '' if top else (e.tail or '')]


def foreign_view(idx):
    return elem_view(etree.fromstring(foreign_xml(idx)))


def build_document(items, version='3.0.0', pretty=False):
    """items: list of dicts k=ont|event|foreign. Returns (bytes, end offsets of each item)."""
    parts = [('<?xml version="1.0" encoding="utf-8"?>\n<edxml xmlns="%s" version="%s">' % (NS, version)).encode()]
    ends = []
    defined = False
    for it in items:
        if it['k'] == 'ont':
            flavour = 'ok' if it['valid'] else it['flavour']
            x = ontology_xml(it['types'], it['sources'], flavour)
            x = x.replace(b' xmlns="%s"' % NS.encode(), b'', 1)
        elif it['k'] == 'event':
            x = event_xml(it['idx'], it['type'], it['source'], 'ok' if it['gate'] else it.get('flavour', 'undeclared'), it.get('big', 0),
                          it.get('blank', False))
        else:
            x = foreign_xml(it['idx'])
        parts.append(x)
        if pretty:
            parts.append(b'\n  ')
        ends.append(sum(len(p) for p in parts))
    parts.append(b'</edxml>')
    return b''.join(parts), ends


def make_registry(regs, overridden, validate):
    """regs: list of ['type'|'src', [keys], handler id] -> model registry (dict insertion order)."""
    typeH, srcH = {}, {}
    for kind, keys, hid in regs:
        d = typeH if kind == 'type' else srcH
        for k in keys:
            d.setdefault(k, []).append(hid)
    matches = [[p, s] for p in srcH for s in SOURCES + ['/zz/'] if re.match(p, s)]
    return {'typeH': [[k, v] for k, v in typeH.items()], 'srcH': [[k, v] for k, v in srcH.items()],
            'matches': matches, 'overridden': overridden, 'validate': validate}


def run_parser(data, mode, regs, overridden, validate, cuts=None, file_path=None, retype=None):
    """Run an instrumented parser. mode: 'pull' | 'push'. Returns the observation dict."""
    from edxml import EDXMLPullParser, EDXMLPushParser
    from edxml.error import EDXMLValidationError, EDXMLEventValidationError, EDXMLOntologyValidationError
    log, sizes, seen, state, content = [], [], set(), {'parent': None}, {}

    def note(event):
        idx = int(next(iter(event['p']))[1:]) if 'p' in event.get_properties() and event['p'] else \
            int(next(iter(event['q']))[1:])
        parent = event.getparent()
        if idx not in seen:
            seen.add(idx)
            if 'p' in event.get_properties() and event['p']:
                content[idx] = sorted(str(v) for v in event['q']) + ['E:' + str(v) for v in event['event']] + \
                    ['O:' + str(v) for v in event['ontology']]
            sizes.append(parent.index(event) + 1 if parent is not None else -1)
            state['parent'] = parent
        return idx

    base = EDXMLPullParser if mode == 'pull' else EDXMLPushParser

    class P(base):
        def _parsed_ontology(self, ontology):
            super()._parsed_ontology(ontology)
            log.append(['ont', sorted(ontology.get_event_type_names()), sorted(ontology.get_event_sources().keys())])

        def _parsed_foreign_element(self, element):
            log.append(['f', int(element.get('n')), elem_view(element)])
            state['parent'] = element.getparent()

    if overridden:
        def _parsed_event(self, event):
            log.append(['fb', note(event)])
        P._parsed_event = _parsed_event

    parser = P(validate=validate) if mode == 'pull' else P(validate=validate, foreign_element_tags=[FTAG])

    def make_handler(hid):
        def handler(event):
            log.append(['h', hid, note(event)])
            if retype and retype[0] == hid:
                # a handler may edit the event it is given: this one files it under another event type
                event.set_type(retype[1])
        return handler
    handlers = {}
    for kind, keys, hid in regs:
        h = handlers.setdefault(hid, make_handler(hid))
        if kind == 'type':
            parser.set_event_type_handler(keys, h)
        else:
            parser.set_event_source_handler(keys, h)
    err = None
    try:
        if mode == 'pull':
            parser.parse(file_path or io.BytesIO(data), foreign_element_tags=[FTAG])
        else:
            pos = 0
            for c in list(cuts or []) + [len(data)]:
                if c > pos:
                    parser.feed(data[pos:c])
                    pos = c
            parser.close()
    except EDXMLOntologyValidationError:
        err = 'EDXMLOntologyValidationError'
    except EDXMLEventValidationError:
        err = 'EDXMLEventValidationError'
    except EDXMLValidationError:
        err = 'EDXMLValidationError'
    except Exception as ex:  # noqa
        err = 'foreign:' + type(ex).__name__
    parent = state['parent']
    return {
        'log': log, 'err': err, 'nEvents': parser.get_event_counter(),
        'typeCount': sorted([t, parser.get_event_type_counter(t)] for t in TYPES),
        'sizes': sizes, 'children': len(parent) if parent is not None and err is None else None,
        'content': sorted([i, v] for i, v in content.items()),
    }


def run_parser_resilient(data, ends, regs, overridden, validate, drain=False):
    """A push parser fed element by element whose owner catches the error of a refused event and feeds on."""
    from edxml import EDXMLPushParser
    from edxml.error import EDXMLValidationError, EDXMLEventValidationError, EDXMLOntologyValidationError
    log, errors = [], []

    def idx_of(event):
        return int(next(iter(event['p']))[1:]) if 'p' in event.get_properties() and event['p'] else int(next(iter(event['q']))[1:])

    class P(EDXMLPushParser):
        def _parsed_ontology(self, ontology):
            super()._parsed_ontology(ontology)
            log.append(['ont', sorted(ontology.get_event_type_names()), sorted(ontology.get_event_sources().keys())])

        def _parsed_foreign_element(self, element):
            log.append(['f', int(element.get('n')), elem_view(element)])
    if overridden:
        def _parsed_event(self, event):
            log.append(['fb', idx_of(event)])
        P._parsed_event = _parsed_event
    parser = P(validate=validate, foreign_element_tags=[FTAG])
    handlers = {}

    def make_handler(hid):
        def handler(event):
            log.append(['h', hid, idx_of(event)])
        return handler
    for kind, keys, hid in regs:
        h = handlers.setdefault(hid, make_handler(hid))
        if kind == 'type':
            parser.set_event_type_handler(keys, h)
        else:
            parser.set_event_source_handler(keys, h)
    if drain:
        # the whole document in one chunk; after every refused event the owner feeds nothing (b'') to have the parser go on
        # with what it has received already
        chunks = [data] + [b''] * (data.count(b'</event>') + 2)
    else:
        chunks, pos = [], 0
        for c in list(ends) + [len(data)]:
            if c > pos:
                chunks.append(data[pos:c])
                pos = c
    for n, chunk in enumerate(chunks):
        try:
            parser.feed(chunk)
            if drain and n > 0:
                break       # nothing was pending any more
            if drain and not errors:
                break
        except EDXMLEventValidationError:
            errors.append('EDXMLEventValidationError')
        except EDXMLOntologyValidationError:
            errors.append('EDXMLOntologyValidationError')
            break
        except EDXMLValidationError:
            errors.append('EDXMLValidationError')
            break
        except Exception as ex:  # noqa
            errors.append('foreign:' + type(ex).__name__)
            break
    return {'log': log, 'errors': errors, 'nEvents': parser.get_event_counter(),
            'typeCount': sorted([t, parser.get_event_type_counter(t)] for t in TYPES)}


def run_parser_reuse(datas, regs, overridden, validate, late_regs=None):
    """One instrumented pull parser given several documents one after the other (parse() again on the same object).
    Returns one observation per document; the callback log is kept per document."""
    mode, cuts, file_path = 'pull', None, None
    from edxml import EDXMLPullParser, EDXMLPushParser
    from edxml.error import EDXMLValidationError, EDXMLEventValidationError, EDXMLOntologyValidationError
    log, sizes, seen, state, content = [], [], set(), {'parent': None}, {}

    def note(event):
        idx = int(next(iter(event['p']))[1:]) if 'p' in event.get_properties() and event['p'] else \
            int(next(iter(event['q']))[1:])
        parent = event.getparent()
        if idx not in seen:
            seen.add(idx)
            if 'p' in event.get_properties() and event['p']:
                content[idx] = sorted(str(v) for v in event['q']) + ['E:' + str(v) for v in event['event']] + \
                    ['O:' + str(v) for v in event['ontology']]
            sizes.append(parent.index(event) + 1 if parent is not None else -1)
            state['parent'] = parent
        return idx

    base = EDXMLPullParser if mode == 'pull' else EDXMLPushParser

    class P(base):
        def _parsed_ontology(self, ontology):
            super()._parsed_ontology(ontology)
            log.append(['ont', sorted(ontology.get_event_type_names()), sorted(ontology.get_event_sources().keys())])

        def _parsed_foreign_element(self, element):
            log.append(['f', int(element.get('n')), elem_view(element)])
            state['parent'] = element.getparent()

    if overridden:
        def _parsed_event(self, event):
            log.append(['fb', note(event)])
        P._parsed_event = _parsed_event

    parser = P(validate=validate) if mode == 'pull' else P(validate=validate, foreign_element_tags=[FTAG])

    def make_handler(hid):
        def handler(event):
            log.append(['h', hid, note(event)])
        return handler
    handlers = {}
    for kind, keys, hid in regs:
        h = handlers.setdefault(hid, make_handler(hid))
        if kind == 'type':
            parser.set_event_type_handler(keys, h)
        else:
            parser.set_event_source_handler(keys, h)
    observations = []
    for k, data in enumerate(datas):
        for kind, keys, hid in (late_regs or {}).get(str(k), []):
            # handlers registered between the documents
            h = handlers.setdefault(hid, make_handler(hid))
            if kind == 'type':
                parser.set_event_type_handler(keys, h)
            else:
                parser.set_event_source_handler(keys, h)
        del log[:]
        del sizes[:]
        content.clear()
        state['parent'] = None
        err = None
        try:
            parser.parse(io.BytesIO(data), foreign_element_tags=[FTAG])
        except EDXMLOntologyValidationError:
            err = 'EDXMLOntologyValidationError'
        except EDXMLEventValidationError:
            err = 'EDXMLEventValidationError'
        except EDXMLValidationError:
            err = 'EDXMLValidationError'
        except Exception as ex:  # noqa
            err = 'foreign:' + type(ex).__name__
        parent = state['parent']
        observations.append({
            'log': list(log), 'err': err, 'nEvents': parser.get_event_counter(),
            'typeCount': sorted([t, parser.get_event_type_counter(t)] for t in TYPES),
            'sizes': list(sizes), 'children': len(parent) if parent is not None and err is None else None,
            'content': sorted([i, v] for i, v in content.items()),
        })
        if err is not None:
            break
    return observations


def model_view(reply, items, with_children=True):
    """Model reply -> same shape as run_parser's observation."""
    fx = {it['idx']: foreign_view(it['idx']) for it in items if it['k'] == 'foreign'}
    log = []
    for c in reply['log']:
        if c[0] == 'f':
            log.append(['f', c[1], fx[c[1]]])
        else:
            log.append(c)
    tc = dict((k, v) for k, v in reply['typeCount'])
    seen = {c[-1] for c in reply['log'] if c[0] in ('h', 'fb')}
    by_idx = {it['idx']: it for it in items if it['k'] == 'event'}
    content = sorted([i, sorted(tricky_values(i, by_idx[i].get('blank', False))) + reserved_values(i) if (by_idx[i]['gate'] and not by_idx[i].get('big')) else
                      (['x' * by_idx[i]['big']] if by_idx[i].get('big') and by_idx[i]['gate'] else [])] for i in seen
                     if by_idx[i]['gate'] or by_idx[i].get('flavour', 'undeclared') != 'missing')
    return {'log': log, 'err': reply['err'], 'nEvents': reply['nEvents'], 'content': content,
            'typeCount': sorted([t, tc.get(t, 0)] for t in TYPES),
            'sizes': [sz for i, sz in reply['sizes'] if i in seen], 'children': reply['children'] if with_children and reply['err'] is None else None}


def gen_items(rng, n_events, with_foreign=True, faults=True, multi_ont=True):
    """A random document: ontology items defining types/sources incrementally, events, foreign elements."""
    items = []
    types, sources = set(), set()
    idx = 0
    t0 = rng.sample(TYPES, rng.randint(1, 3))
    s0 = rng.sample(SOURCES, rng.randint(1, 3))
    items.append({'k': 'ont', 'valid': True, 'types': sorted(t0), 'sources': sorted(s0)})
    types |= set(t0)
    sources |= set(s0)
    for _ in range(n_events):
        r = rng.random()
        if multi_ont and r < 0.15:
            t = rng.sample(TYPES, rng.randint(0, 2))
            s = rng.sample(SOURCES, rng.randint(0, 2))
            valid = not (faults and rng.random() < 0.08)
            it = {'k': 'ont', 'valid': valid, 'types': sorted(t), 'sources': sorted(s)}
            if not valid:
                it['flavour'] = rng.choice(sorted(ONT_FLAVOURS))
                if it['flavour'] == 'incompatible':
                    it['types'] = sorted(set(t) | {sorted(types)[0]})
                if not it['types']:
                    it['types'] = [rng.choice(TYPES)]
            items.append(it)
            if valid:
                types |= set(t)
                sources |= set(s)
            if multi_ont and rng.random() < 0.3:
                items.append({'k': 'ont', 'valid': True, 'types': sorted(rng.sample(TYPES, 1)), 'sources': []})
                types |= set(items[-1]['types'])
        elif with_foreign and r < 0.25:
            idx += 1
            items.append({'k': 'foreign', 'idx': idx})
        else:
            idx += 1
            if faults and rng.random() < 0.05:
                t, s = rng.choice(TYPES), rng.choice(SOURCES + ['/zz/'])
            else:
                t, s = rng.choice(sorted(types)), rng.choice(sorted(sources))
            gate = not (faults and rng.random() < 0.04)
            it = {'k': 'event', 'idx': idx, 'type': t, 'source': s, 'gate': gate}
            if not gate:
                it['flavour'] = rng.choice(['undeclared', 'missing'])
            items.append(it)
    return items


def gen_regs(rng):
    regs = []
    for hid in range(rng.randint(0, 4)):
        if rng.random() < 0.5:
            regs.append(['type', rng.sample(TYPES, rng.randint(1, 2)), hid])
        else:
            regs.append(['src', rng.sample(PATTERNS, rng.randint(1, 2)), hid])
        if rng.random() < 0.3:
            # the same handler id registered for further keys in a second call
            regs.append([rng.choice(['type', 'src']), None, hid])
            regs[-1][1] = rng.sample(TYPES if regs[-1][0] == 'type' else PATTERNS, 1)
    return regs


def model_items(items):
    out = []
    for it in items:
        if it['k'] == 'ont':
            out.append({'k': 'ont', 'v': ont_validity(it), 'types': it['types'], 'sources': it['sources']})
        elif it['k'] == 'event':
            out.append({'k': 'event', 'idx': it['idx'], 'type': it['type'], 'source': it['source'], 'gate': it['gate']})
        else:
            out.append({'k': 'foreign', 'idx': it['idx']})
    return out
