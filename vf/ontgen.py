"""
Ontology definition specs: JSON-serialisable descriptions of ontology elements that can be
(1) built into real SDK objects through the public API and (2) handed to the Lean model.
"""
import copy
import json
from lxml import etree

OBJECT_TYPES = {'o.str': 'string:0:mc:u', 'o.int': 'number:int:signed', 'o.dt': 'datetime', 'o.seq': 'sequence'}
CONCEPTS = ['c.a', 'c.b', 'c.a.x']
FREE_KEYS = {
    'concept': ['display-name-singular', 'display-name-plural', 'description'],
    'source': ['description', 'date-acquired'],
    'objecttype': ['display-name-singular', 'display-name-plural', 'description', 'compress', 'fuzzy-matching',
                   'xref', 'unit-name', 'unit-symbol', 'prefix-radix', 'regex-soft'],
    'assoc': ['confidence', 'cnp', 'attr-display-name-singular', 'attr-display-name-plural'],
    'relation': ['description', 'predicate', 'confidence'],
    'parent': ['parent-description', 'siblings-description'],
    'attachment': ['description', 'display-name-singular', 'display-name-plural'],
    'property': ['description', 'similar', 'confidence'],
    'eventtype': ['display-name-singular', 'display-name-plural', 'description', 'summary', 'story'],
}


def free_list(kind, d):
    d = dict(d)
    if kind == 'objecttype' and d.get('prefix-radix') is None:
        d['prefix-radix'] = 10      # an omitted radix is radix 10
    if kind == 'relation' and d.get('confidence') is None:
        d['confidence'] = 10        # a relation created without a confidence has the default confidence
    return [[k, None if d.get(k) is None else str(d[k])] for k in FREE_KEYS[kind]]


def norm_spec(kind, s):
    """Spec with defaults made explicit, so that equal serialisations have equal specs."""
    s = copy.deepcopy(s)
    if kind == 'objecttype' and s['free'].get('prefix-radix') is None:
        s['free']['prefix-radix'] = 10
    if kind == 'relation' and 'def' in s and s['def']['free'].get('confidence') is None:
        s['def']['free']['confidence'] = 10
    if kind == 'eventtype':
        for r in s.get('relations', []):
            if r['free'].get('confidence') is None:
                r['free']['confidence'] = 10
    return s


# ---- base definitions --------------------------------------------------------------------------

def base_concept():
    return {'name': 'c.a', 'version': 1, 'free': {'display-name-singular': 'a', 'display-name-plural': 'as', 'description': 'd'}}


def base_source():
    return {'name': '/a/', 'version': 1, 'free': {'description': 'd', 'date-acquired': '00000000'}}


def base_objecttype():
    return {'name': 'ot', 'version': 1, 'regexHard': None, 'dataType': 'string:0:mc:u',
            'free': {'display-name-singular': 'o', 'display-name-plural': 'os', 'description': 'd', 'compress': False,
                     'fuzzy-matching': None, 'xref': None, 'unit-name': None, 'unit-symbol': None,
                     'prefix-radix': None, 'regex-soft': None}}


def base_assoc(concept='c.a'):
    return {'concept': concept, 'ext': '', 'free': {'confidence': 10, 'cnp': 128, 'attr-display-name-singular': '',
                                                    'attr-display-name-plural': ''}}


def base_prop(name='p', ot='o.str'):
    return {'name': name, 'objectType': ot, 'merge': 'any', 'optional': False, 'multivalued': False,
            'free': {'description': name, 'similar': '', 'confidence': 10}, 'assocs': []}


def base_relation(source='p', target='q', confidence=5):
    return {'source': source, 'target': target, 'sourceConcept': None, 'targetConcept': None, 'type': 'other',
            'free': {'description': '[[%s]] relates to [[%s]]' % (source, target), 'predicate': 'relates to', 'confidence': confidence}}


def base_attachment(name='att'):
    return {'name': name, 'mediaType': 'text/plain', 'encoding': 'unicode',
            'free': {'description': 'desc', 'display-name-singular': 'att', 'display-name-plural': 'atts'}}


def base_parent():
    return {'parentType': 'parent', 'propertyMap': [['p', 'p']],
            'free': {'parent-description': 'belonging to', 'siblings-description': 'sharing'}}


def base_eventtype():
    return {'name': 't', 'version': 1,
            'free': {'display-name-singular': 't', 'display-name-plural': 'ts', 'description': 'd',
                     'summary': 'sum', 'story': 'story'},
            'versionProp': None, 'seqProp': None, 'tsStart': None, 'tsEnd': None, 'parent': None,
            'props': [base_prop('p'), dict(base_prop('q'), optional=True)],
            'relations': [], 'attachments': []}


# ---- building real objects -----------------------------------------------------------------------

def new_ontology(o=None):
    from edxml.ontology import Ontology
    o = Ontology() if o is None else o
    for name, dt in OBJECT_TYPES.items():
        o.create_object_type(name, data_type=dt)
    for c in CONCEPTS:
        o.create_concept(c)
    o.create_event_source('/s/')
    pt = o.create_event_type('parent')
    pt.create_property('p', 'o.str').make_hashed()
    return o


def build_concept(o, s):
    f = s['free']
    c = o.create_concept(s['name'], f['display-name-singular'], f['display-name-plural'], f['description']) \
        if s['name'] not in o.get_concept_names() else o.get_concept(s['name'])
    c.set_display_name(f['display-name-singular'], f['display-name-plural']).set_description(f['description'])
    c.set_version(s['version'])
    return c


def build_source(o, s):
    f = s['free']
    src = o.create_event_source(s['name'], f['description'], f['date-acquired'])
    src.set_version(s['version'])
    return src


def build_objecttype(o, s):
    from edxml.ontology import ObjectType
    f = s['free']
    ot = ObjectType(o, s['name'], f['display-name-singular'], f['display-name-plural'], f['description'], s['dataType'],
                    f['unit-name'], f['unit-symbol'], f['prefix-radix'], f['compress'], f['xref'], f['fuzzy-matching'],
                    s['regexHard'], f['regex-soft'])
    o._add_object_type(ot)
    ot.set_version(s['version'])
    return ot


def build_eventtype(o, s):
    from edxml.ontology import EventTypeParent, EventTypeAttachment
    f = s['free']
    et = o.create_event_type(s['name'], f['display-name-singular'], f['display-name-plural'], f['description'])
    et.set_summary_template(f['summary']).set_story_template(f['story'])
    for ps in s['props']:
        p = et.create_property(ps['name'], ps['objectType'], ps['free']['description'])
        p.set_merge_strategy(ps['merge']).set_optional(ps['optional']).set_multi_valued(ps['multivalued'])
        p.hint_similar(ps['free']['similar']).set_confidence(ps['free']['confidence'])
        for a in ps['assocs']:
            pc = p.identifies(a['concept'], a['free']['confidence'], a['free']['cnp'])
            if a['ext'] != '' or a['free']['attr-display-name-singular'] != '':
                pc.set_attribute(a['ext'], a['free']['attr-display-name-singular'], a['free']['attr-display-name-plural'])
    for r in s['relations']:
        et.create_relation(r['type'], r['source'], r['target'], r['free']['description'], r['free']['predicate'],
                           r['sourceConcept'], r['targetConcept'], r['free']['confidence'])
    for a in s['attachments']:
        et.add_attachment(EventTypeAttachment(et, a['name'], a['mediaType'], a['free']['display-name-singular'],
                                              a['free']['display-name-plural'], a['free']['description'],
                                              a['encoding'] == 'base64'))
    if s['parent']:
        ps = s['parent']
        et.set_parent(EventTypeParent(et, ps['parentType'], ','.join('%s:%s' % (c, p) for c, p in ps['propertyMap']),
                                      ps['free']['parent-description'], ps['free']['siblings-description']))
    if s['versionProp']:
        et.set_version_property_name(s['versionProp'])
    if s['seqProp']:
        et.set_sequence_property_name(s['seqProp'])
    if s['tsStart']:
        et.set_timespan_property_name_start(s['tsStart'])
    if s['tsEnd']:
        et.set_timespan_property_name_end(s['tsEnd'])
    et.set_version(s['version'])
    return et


def build(kind, s):
    """Returns (ontology, element). Sub-elements are embedded in an event type whose version is s['etVersion']."""
    o = new_ontology()
    if kind == 'concept':
        # a fresh ontology without the default concepts colliding
        return o, build_concept(o, dict(s, name=s['name']))
    if kind == 'source':
        return o, build_source(o, s)
    if kind == 'objecttype':
        return o, build_objecttype(o, s)
    if kind == 'eventtype':
        return o, build_eventtype(o, s)
    et_spec = base_eventtype()
    et_spec['version'] = s['etVersion']
    if kind == 'property':
        et_spec['props'] = [s['def'], dict(base_prop('q'), optional=True)]
        et = build_eventtype(o, et_spec)
        return o, et[s['def']['name']]
    if kind == 'assoc':
        p = base_prop('p')
        p['assocs'] = [s['def']]
        et_spec['props'] = [p, dict(base_prop('q'), optional=True)]
        et = build_eventtype(o, et_spec)
        return o, et['p'].get_concept_associations()[s['def']['concept']]
    if kind == 'relation':
        et_spec['relations'] = [s['def']]
        et = build_eventtype(o, et_spec)
        return o, list(et.get_property_relations().values())[0]
    if kind == 'attachment':
        et_spec['attachments'] = [s['def']]
        et = build_eventtype(o, et_spec)
        return o, et.get_attachment(s['def']['name'])
    if kind == 'parent':
        et_spec['parent'] = s['def']
        et = build_eventtype(o, et_spec)
        return o, et.get_parent()
    raise ValueError(kind)


def xml_of(element):
    return etree.tostring(element.generate_xml()).decode()


# ---- model JSON ------------------------------------------------------------------------------------

def m_assoc(a, prop='p'):
    return {'concept': a['concept'], 'property': prop, 'ext': a['ext'], 'free': free_list('assoc', a['free'])}


def m_prop(p):
    return {'name': p['name'], 'objectType': p['objectType'], 'merge': p['merge'], 'optional': p['optional'],
            'multivalued': p['multivalued'], 'datetime': p['objectType'] == 'o.dt',
            'free': free_list('property', p['free']), 'assocs': [m_assoc(a, p['name']) for a in p['assocs']]}


def m_relation(r, et_name='t'):
    return {'id': '%s:%s:%s,%s' % (et_name, r['type'], r['source'], r['target']), 'source': r['source'],
            'target': r['target'], 'sourceConcept': r['sourceConcept'], 'targetConcept': r['targetConcept'],
            'type': r['type'], 'free': free_list('relation', r['free'])}


def m_attachment(a):
    return {'name': a['name'], 'mediaType': a['mediaType'], 'encoding': a['encoding'],
            'free': free_list('attachment', a['free'])}


def m_parent(p):
    return {'parentType': p['parentType'], 'propertyMap': sorted(p['propertyMap']), 'free': free_list('parent', p['free'])}


def m_eventtype(s):
    return {'name': s['name'], 'version': s['version'], 'free': free_list('eventtype', s['free']),
            'versionProp': s['versionProp'], 'seqProp': s['seqProp'], 'tsStart': s['tsStart'], 'tsEnd': s['tsEnd'],
            'parent': m_parent(s['parent']) if s['parent'] else None, 'props': [m_prop(p) for p in s['props']],
            'relations': [m_relation(r, s['name']) for r in s['relations']],
            'attachments': [m_attachment(a) for a in s['attachments']]}


def model_def(kind, s):
    if kind == 'concept':
        return {'name': s['name'], 'version': s['version'], 'free': free_list('concept', s['free'])}
    if kind == 'source':
        return {'name': s['name'], 'version': s['version'], 'free': free_list('source', s['free'])}
    if kind == 'objecttype':
        return {'name': s['name'], 'version': s['version'], 'free': free_list('objecttype', s['free']),
                'regexHard': s['regexHard'], 'dataType': s['dataType']}
    if kind == 'eventtype':
        return m_eventtype(s)
    d = s['def']
    m = {'property': m_prop, 'assoc': m_assoc, 'relation': m_relation, 'attachment': m_attachment, 'parent': m_parent}[kind](d)
    return {'etVersion': s['etVersion'], 'def': m}


# ---- variation lattices ------------------------------------------------------------------------------

def vary(rng, kind, s):
    """One random valid variation of a definition (attribute change and/or version bump)."""
    s = copy.deepcopy(s)
    ver_key = 'etVersion' if kind in ('property', 'assoc', 'relation', 'attachment', 'parent') else 'version'
    d = s['def'] if ver_key == 'etVersion' else s
    r = rng.random()
    if r < 0.45:
        s[ver_key] += rng.choice([1, 1, 2])
    n_changes = rng.choice([0, 1, 1, 1, 2])
    for _ in range(n_changes):
        mutate(rng, kind, d)
    return s


def mutate(rng, kind, d):
    def free_change():
        k = rng.choice(FREE_KEYS[kind])
        cur = d['free'][k]
        if kind == 'relation' and cur is None and k in ('description', 'predicate'):
            return      # a relation created without them stays that way
        if k in ('confidence',) and kind == 'relation' and (cur is None or cur == 10):
            # left out (the default of create_relation) or the default written out: the same definition
            d['free'][k] = 10 if cur is None else rng.choice([None, None, 1])
        elif k in ('confidence',):
            d['free'][k] = (cur % 10) + 1
        elif k == 'cnp':
            d['free'][k] = (cur + 1) % 256
        elif k == 'compress':
            d['free'][k] = not cur
        elif k in ('fuzzy-matching',):
            d['free'][k] = None if cur else 'phonetic'
        elif k in ('xref',):
            d['free'][k] = None if cur else 'http://x/'
        elif k in ('unit-name', 'unit-symbol'):
            both = d['free']['unit-name'] is None
            d['free']['unit-name'] = 'meter' if both else None
            d['free']['unit-symbol'] = 'm' if both else None
        elif k == 'prefix-radix':
            d['free'][k] = {None: 10, 10: 60, 60: 2, 2: None}[cur]
            if d['free'][k] and d['free']['unit-name'] is None:
                d['free']['unit-name'], d['free']['unit-symbol'] = 'meter', 'm'
        elif k == 'regex-soft':
            d['free'][k] = None if cur else '[a-z]+'
        elif k == 'date-acquired':
            d['free'][k] = '20200101' if cur != '20200101' else '00000000'
        elif k in ('attr-display-name-singular', 'attr-display-name-plural'):
            if d['ext'] != '':
                d['free'][k] = (cur or 'x') + 'y'
        elif k == 'similar':
            d['free'][k] = '' if cur else 'also'
        elif k in ('description',) and kind == 'relation':
            d['free'][k] = cur + ' again' if len(cur) < 100 else '[[%s]] to [[%s]]' % (d['source'], d['target'])
        else:
            d['free'][k] = (cur + 'x')[:30]
    if kind in ('concept', 'source'):
        return free_change()
    r = rng.random()
    if kind == 'objecttype':
        if r < 0.5:
            free_change()
            return sanitize_objecttype(d)
        if r < 0.75:
            cur = d['regexHard']
            if cur and rng.random() < 0.5:
                # extend the expression by one or several alternatives
                d['regexHard'] = cur + rng.choice(['|x', '|x|y', '|x|y|z', '|(p|q)'])
            else:
                d['regexHard'] = rng.choice([None, 'a', 'a|b', 'a|b|c', 'ab', 'b|a', '', 'a|'])
                if d['regexHard'] == cur:
                    d['regexHard'] = 'a' if cur != 'a' else 'a|b'
        else:
            d['dataType'] = rng.choice(['string:0:mc:u', 'enum:a:b', 'enum:a:b:c', 'enum:a:bc', 'enum:a:bc:d', 'number:int',
                                        'enum:b:a', 'string:0:mc'])
        sanitize_objecttype(d)
        return
    if kind == 'assoc':
        if r < 0.6:
            return free_change()
        d['ext'] = '' if d['ext'] else 'ext'
        if d['ext'] == '':
            d['free']['attr-display-name-singular'] = d['free']['attr-display-name-plural'] = ''
        else:
            d['free']['attr-display-name-singular'], d['free']['attr-display-name-plural'] = 'ex', 'exs'
        return
    if kind == 'relation':
        if r < 0.6:
            return free_change()
        d['source'], d['target'] = d['target'], d['source']
        d['free']['description'] = '[[%s]] relates to [[%s]]' % (d['source'], d['target'])
        return
    if kind == 'attachment':
        if r < 0.6:
            return free_change()
        if r < 0.8:
            d['mediaType'] = 'text/html' if d['mediaType'] == 'text/plain' else 'text/plain'
        else:
            d['encoding'] = 'base64' if d['encoding'] == 'unicode' else 'unicode'
        return
    if kind == 'parent':
        if r < 0.6:
            return free_change()
        if r < 0.8:
            d['propertyMap'] = [['p', 'p'], ['q', 'p']] if len(d['propertyMap']) == 1 else [['p', 'p']]
        else:
            d['parentType'] = 'parent' if d['parentType'] != 'parent' else 'other-parent'
        return
    if kind == 'property':
        if r < 0.3:
            return free_change()
        if r < 0.4:
            d['objectType'] = 'o.int' if d['objectType'] == 'o.str' else 'o.str'
        elif r < 0.5:
            d['merge'] = rng.choice([m for m in ['any', 'add', 'set', 'match'] if m != d['merge']])
        elif r < 0.59:
            d['optional'] = not d['optional']
        elif r < 0.68:
            d['multivalued'] = not d['multivalued']
        elif r < 0.74:
            # both cardinality flags at once (the two checks are independent: one may improve while the other degrades)
            d['optional'] = not d['optional']
            d['multivalued'] = not d['multivalued']
        elif r < 0.87:
            have = [a['concept'] for a in d['assocs']]
            cands = [c for c in CONCEPTS if c not in have]
            if cands and (not have or rng.random() < 0.6):
                d['assocs'].append(base_assoc(rng.choice(cands)))
            elif have:
                del d['assocs'][rng.randrange(len(d['assocs']))]
        elif d['assocs']:
            mutate(rng, 'assoc', rng.choice(d['assocs']))
        return
    if kind == 'eventtype':
        if r < 0.2:
            return free_change()
        if r < 0.45:
            return mutate(rng, 'property', rng.choice(d['props']))
        if r < 0.55:
            names = [p['name'] for p in d['props']]
            new = [n for n in ['r', 's', 'w'] if n not in names]
            if new and rng.random() < 0.7:
                p = base_prop(new[0], rng.choice(['o.str', 'o.dt']))
                p['optional'] = rng.random() < 0.7
                d['props'].append(p)
            elif len(d['props']) > 2:
                gone = d['props'].pop()['name']
                d['relations'] = [x for x in d['relations'] if gone not in (x['source'], x['target'])]
                # a definition must stay valid: drop the other references to the removed property
                for ref in ('tsStart', 'tsEnd', 'versionProp', 'seqProp'):
                    if d.get(ref) == gone:
                        d[ref] = None
                if d.get('parent') and isinstance(d['parent'], dict):
                    pm = d['parent'].get('map') or d['parent'].get('propertyMap')
                    if isinstance(pm, list):
                        pm[:] = [kv for kv in pm if gone not in kv]
                    elif isinstance(pm, dict):
                        for k in [k for k, v in pm.items() if gone in (k, v)]:
                            del pm[k]
        elif r < 0.67:
            if d['relations'] and rng.random() < 0.5:
                if rng.random() < 0.5:
                    d['relations'].pop()
                else:
                    mutate(rng, 'relation', rng.choice(d['relations']))
                    fix_relations(d)
            else:
                d['relations'].append(base_relation('p', 'q') if not d['relations'] else base_relation('q', 'p'))
                fix_relations(d)
        elif r < 0.8:
            if d['attachments'] and rng.random() < 0.5:
                if rng.random() < 0.5:
                    d['attachments'].pop()
                else:
                    mutate(rng, 'attachment', rng.choice(d['attachments']))
            else:
                names = [a['name'] for a in d['attachments']]
                # 'a0' sorts before the others: definition order and name order differ
                new = [n for n in ['att', 'att2', 'a0'] if n not in names]
                if new:
                    d['attachments'].append(base_attachment(rng.choice(new)))
        elif r < 0.9:
            if d['parent'] is None:
                d['parent'] = base_parent()
            elif rng.random() < 0.4:
                d['parent'] = None
            else:
                mutate(rng, 'parent', d['parent'])
        else:
            # timespan on a datetime property
            dts = [p['name'] for p in d['props'] if p['objectType'] == 'o.dt']
            if dts:
                d['tsStart'] = None if d['tsStart'] else dts[0]
        return


def sanitize_objecttype(d):
    fam = d['dataType'].split(':')[0]
    if fam != 'string':
        d['regexHard'] = None
        d['free']['regex-soft'] = None
        d['free']['fuzzy-matching'] = None
    if fam != 'number':
        d['free']['unit-name'] = d['free']['unit-symbol'] = d['free']['prefix-radix'] = None


def fix_relations(d):
    seen = set()
    out = []
    for r in d['relations']:
        key = (r['type'], r['source'], r['target'])
        if key not in seen:
            seen.add(key)
            out.append(r)
    d['relations'] = out


def base_of(kind):
    if kind == 'concept':
        return base_concept()
    if kind == 'source':
        return base_source()
    if kind == 'objecttype':
        return base_objecttype()
    if kind == 'eventtype':
        return base_eventtype()
    inner = {'property': base_prop, 'assoc': base_assoc, 'relation': base_relation, 'attachment': base_attachment,
             'parent': base_parent}[kind]()
    return {'etVersion': 1, 'def': inner}


KINDS = ['concept', 'source', 'objecttype', 'assoc', 'relation', 'parent', 'attachment', 'property', 'eventtype']


# ---- applying a definition change through the public mutators -----------------------------------------

class Unsupported(Exception):
    """The change cannot be expressed through public mutators (e.g. a frozen attribute)."""


def apply_delta(kind, e, a, b, ontology=None):
    """Turn element e (built from spec a) into spec b using public mutators only.
    Returns the list of mutator names called; raises Unsupported when not expressible."""
    calls = []

    def call(obj, name, *args):
        getattr(obj, name)(*args)
        calls.append(name)

    if kind in ('property', 'assoc', 'relation', 'attachment', 'parent'):
        da, db = a['def'], b['def']
        if a['etVersion'] != b['etVersion']:
            if ontology is None:
                raise Unsupported('event type version')
            ontology.get_event_type('t').set_version(b['etVersion'])
            calls.append('set_version')
    else:
        da, db = a, b
    fa, fb = da['free'], db['free']
    if kind == 'concept':
        if (fa['display-name-singular'], fa['display-name-plural']) != (fb['display-name-singular'], fb['display-name-plural']):
            call(e, 'set_display_name', fb['display-name-singular'], fb['display-name-plural'])
        if fa['description'] != fb['description']:
            call(e, 'set_description', fb['description'])
        if a['version'] != b['version']:
            call(e, 'set_version', b['version'])
    elif kind == 'source':
        if fa['description'] != fb['description']:
            call(e, 'set_description', fb['description'])
        if fa['date-acquired'] != fb['date-acquired']:
            call(e, 'set_acquisition_date_string', fb['date-acquired'])
        if a['version'] != b['version']:
            call(e, 'set_version', b['version'])
    elif kind == 'objecttype':
        from edxml.ontology import DataType
        if (fa['display-name-singular'], fa['display-name-plural']) != (fb['display-name-singular'], fb['display-name-plural']):
            call(e, 'set_display_name', fb['display-name-singular'], fb['display-name-plural'])
        if fa['description'] != fb['description']:
            call(e, 'set_description', fb['description'])
        if fa['compress'] != fb['compress']:
            call(e, 'compress', fb['compress'])
        if fa['fuzzy-matching'] != fb['fuzzy-matching']:
            call(e, 'set_fuzzy_matching_attribute', fb['fuzzy-matching'])
        if fa['xref'] != fb['xref']:
            call(e, 'set_xref', fb['xref'])
        if (fa['unit-name'], fa['unit-symbol']) != (fb['unit-name'], fb['unit-symbol']):
            call(e, 'set_unit', fb['unit-name'], fb['unit-symbol'])
        if fa['prefix-radix'] != fb['prefix-radix']:
            call(e, 'set_prefix_radix', fb['prefix-radix'])
        if fa['regex-soft'] != fb['regex-soft']:
            call(e, 'set_regex_soft', fb['regex-soft'])
        if a['regexHard'] != b['regexHard']:
            call(e, 'set_regex_hard', b['regexHard'])
        if a['dataType'] != b['dataType']:
            call(e, 'set_data_type', DataType(b['dataType']))
        if a['version'] != b['version']:
            call(e, 'set_version', b['version'])
    elif kind == 'assoc':
        if da['concept'] != db['concept']:
            raise Unsupported('concept')
        if fa['confidence'] != fb['confidence']:
            call(e, 'set_confidence', fb['confidence'])
        if fa['cnp'] != fb['cnp']:
            call(e, 'set_concept_naming_priority', fb['cnp'])
        if (da['ext'], fa['attr-display-name-singular'], fa['attr-display-name-plural']) != \
                (db['ext'], fb['attr-display-name-singular'], fb['attr-display-name-plural']):
            call(e, 'set_attribute', db['ext'], fb['attr-display-name-singular'], fb['attr-display-name-plural'])
    elif kind == 'relation':
        for k in ('source', 'target', 'sourceConcept', 'targetConcept', 'type'):
            if da[k] != db[k]:
                raise Unsupported(k)
        if fa['description'] != fb['description']:
            call(e, 'set_description', fb['description'])
        if fa['predicate'] != fb['predicate']:
            call(e, 'set_predicate', fb['predicate'])
        if fa['confidence'] != fb['confidence']:
            call(e, 'set_confidence', fb['confidence'])
    elif kind == 'parent':
        if da['parentType'] != db['parentType']:
            raise Unsupported('parentType')
        old, new = dict(da['propertyMap']), dict(db['propertyMap'])
        if any(k not in new or new[k] != v for k, v in old.items()):
            raise Unsupported('property map shrinks')
        for k, v in db['propertyMap']:
            if k not in old:
                call(e, 'map', k, v)
        if fa['parent-description'] != fb['parent-description']:
            call(e, 'set_parent_description', fb['parent-description'])
        if fa['siblings-description'] != fb['siblings-description']:
            call(e, 'set_siblings_description', fb['siblings-description'])
    elif kind == 'attachment':
        if da['name'] != db['name']:
            raise Unsupported('name')
        if fa['description'] != fb['description']:
            call(e, 'set_description', fb['description'])
        if (fa['display-name-singular'], fa['display-name-plural']) != (fb['display-name-singular'], fb['display-name-plural']):
            call(e, 'set_display_name', fb['display-name-singular'], fb['display-name-plural'])
        if da['mediaType'] != db['mediaType']:
            call(e, 'set_media_type', db['mediaType'])
        if da['encoding'] != db['encoding']:
            call(e, 'set_encoding', db['encoding'])
    elif kind == 'property':
        if da['objectType'] != db['objectType'] or da['name'] != db['name']:
            raise Unsupported('object type')
        apply_property_delta(e, da, db, call)
    elif kind == 'eventtype':
        if (fa['display-name-singular'], fa['display-name-plural']) != (fb['display-name-singular'], fb['display-name-plural']):
            call(e, 'set_display_name', fb['display-name-singular'], fb['display-name-plural'])
        if fa['description'] != fb['description']:
            call(e, 'set_description', fb['description'])
        if fa['summary'] != fb['summary']:
            call(e, 'set_summary_template', fb['summary'])
        if fa['story'] != fb['story']:
            call(e, 'set_story_template', fb['story'])
        if a['relations'] != b['relations'] or a['parent'] != b['parent']:
            raise Unsupported('relations / parent')
        pa = {p['name']: p for p in a['props']}
        pb = {p['name']: p for p in b['props']}
        if [n for n in pa if n in pb] != [n for n in pb if n in pa] or list(pb)[:len([n for n in pa if n in pb])] != [n for n in pa if n in pb]:
            raise Unsupported('property order')
        import zlib
        # properties come and go through the methods or through the mapping interface of the event type (decided by the content
        # of the target definition, so that a case always replays the same way)
        by_item = zlib.crc32(json.dumps(b, sort_keys=True).encode()) % 2 == 1
        for n in pa:
            if n not in pb:
                if by_item:
                    del e[n]
                    calls.append('__delitem__')
                else:
                    call(e, 'remove_property', n)
            else:
                if pa[n]['objectType'] != pb[n]['objectType']:
                    raise Unsupported('object type')
                apply_property_delta(e[n], pa[n], pb[n], call)
        for n, ps in pb.items():
            if n not in pa and by_item and ontology is not None and ontology.get_object_type(ps['objectType']) is not None:
                from edxml.ontology import EventProperty
                e[n] = EventProperty(e, n, ontology.get_object_type(ps['objectType']), ps['free']['description'])
                p = e[n]
                calls.append('__setitem__')
                apply_property_delta(p, base_prop(n, ps['objectType']), ps, call)
            elif n not in pa:
                p = e.create_property(n, ps['objectType'], ps['free']['description'])
                calls.append('create_property')
                apply_property_delta(p, base_prop(n, ps['objectType']), ps, call)
        aa = {x['name']: x for x in a['attachments']}
        ab = {x['name']: x for x in b['attachments']}
        if any(n not in ab for n in aa):
            raise Unsupported('attachment removed')
        for n, xs in ab.items():
            if n in aa:
                apply_delta('attachment', e.get_attachment(n), {'etVersion': 0, 'def': aa[n]}, {'etVersion': 0, 'def': xs})
            else:
                from edxml.ontology import EventTypeAttachment
                call(e, 'add_attachment', EventTypeAttachment(e, xs['name'], xs['mediaType'], xs['free']['display-name-singular'],
                                                               xs['free']['display-name-plural'], xs['free']['description'],
                                                               xs['encoding'] == 'base64'))
        for k, m in (('versionProp', 'set_version_property_name'), ('seqProp', 'set_sequence_property_name'),
                     ('tsStart', 'set_timespan_property_name_start'), ('tsEnd', 'set_timespan_property_name_end')):
            if a[k] != b[k]:
                call(e, m, b[k])
        if a['version'] != b['version']:
            call(e, 'set_version', b['version'])
    return calls


def apply_property_delta(p, da, db, call):
    fa, fb = da['free'], db['free']
    if fa['description'] != fb['description']:
        call(p, 'set_description', fb['description'])
    if fa['similar'] != fb['similar']:
        call(p, 'hint_similar', fb['similar'])
    if fa['confidence'] != fb['confidence']:
        call(p, 'set_confidence', fb['confidence'])
    if da['merge'] != db['merge']:
        call(p, 'set_merge_strategy', db['merge'])
    if da['optional'] != db['optional']:
        call(p, 'set_optional', db['optional'])
    if da['multivalued'] != db['multivalued']:
        call(p, 'set_multi_valued', db['multivalued'])
    ca = {x['concept']: x for x in da['assocs']}
    cb = {x['concept']: x for x in db['assocs']}
    if any(c not in cb for c in ca) or [c for c in cb if c in ca] != list(ca):
        raise Unsupported('association removed or reordered')
    for c, xs in cb.items():
        if c in ca:
            pc = p.get_concept_associations()[c]
            apply_delta('assoc', pc, {'etVersion': 0, 'def': ca[c]}, {'etVersion': 0, 'def': xs})
        else:
            pc = p.identifies(c, xs['free']['confidence'], xs['free']['cnp'])
            if xs['ext'] != '' or xs['free']['attr-display-name-singular'] != '':
                pc.set_attribute(xs['ext'], xs['free']['attr-display-name-singular'], xs['free']['attr-display-name-plural'])
