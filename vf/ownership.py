"""Audit of the back references of ontology elements (C12 / C11): every element an ontology holds, at any depth, must refer
back to the very object that holds it; `_child_modified_callback()` walks these references to the ontology whose change
counter moves. The references are private attributes: when they cannot be found (a harmless renaming), the audit answers
None and judges nothing."""

_MISSING = object()


def _ref(obj, names):
    for n in names:
        v = getattr(obj, n, _MISSING)
        if v is not _MISSING:
            return v
    return _MISSING


def audit(o):
    """None when the references cannot be read; else the list of elements that refer to another object than their holder."""
    bad = []

    def check(label, element, names, holder):
        r = _ref(element, names)
        if r is _MISSING:
            raise LookupError(label)
        if r is not holder:
            bad.append(label)
    try:
        for n, x in o.get_object_types().items():
            check('object type %s' % n, x, ['_ObjectType__ontology', '_ontology'], o)
        for n, x in o.get_concepts().items():
            check('concept %s' % n, x, ['_ontology', '_Concept__ontology'], o)
        for n, x in o.get_event_sources().items():
            check('source %s' % n, x, ['_ontology', '_EventSource__ontology'], o)
        for n, et in o.get_event_types().items():
            check('event type %s' % n, et, ['_EventType__ontology', '_ontology'], o)
            for pn, p in et.get_properties().items():
                check('property %s.%s' % (n, pn), p, ['_EventProperty__event_type', '_event_type'], et)
                for cn, a in p.get_concept_associations().items():
                    check('concept association %s.%s.%s (event type)' % (n, pn, cn), a, ['_PropertyConcept__event_type', '_event_type'], et)
                    check('concept association %s.%s.%s (property)' % (n, pn, cn), a, ['_PropertyConcept__property', '_property'], p)
            for rid, r in et.get_property_relations().items():
                check('relation %s' % rid, r, ['_PropertyRelation__event_type', '_event_type'], et)
            for an, a in et.get_attachments().items():
                check('attachment %s.%s' % (n, an), a, ['_event_type', '_EventTypeAttachment__event_type'], et)
            if et.get_parent() is not None:
                check('parent definition of %s' % n, et.get_parent(), ['_child_event_type', '_EventTypeParent__child_event_type'], et)
    except LookupError:
        return None
    except Exception:
        return None
    return sorted(bad)
