"""Shared generators and SDK helpers (events, ontologies, value pools)."""
import io
import contextlib
from lxml import etree

EDXML_NS = 'http://edxml.org/edxml'

# Strings that are legal XML character data and exercise byte-level corner cases of the
# hash layout: the ':' joiner, '\n' (header separator), bytes 0xC3 0xBF (U+00FF), multi-byte
# and astral characters, NEL, whitespace at either end, prefixes of one another.
STR_POOL = [
    'a', 'b', 'ab', 'a:b', ':', 'b:', ':a', 'a\nb', '\n', 'ÿ', 'ÿÿ', 'Ā', '€',
    '\U0001F600', '\U0010FFFF', '\u0085', ' a ', 'A', '0', '-1', 'a\tb', 'a b', 'aa', 'a:a', ' ',
    '�', '퟿', '', 'z', '<&>"\'', ']]>', 'a\rb',
]
PROP_NAMES = ['a', 'b', 'c', 'a-b', 'a.b', 'ab', 'b2', 'p', 'a.a']
SOURCES = ['/a/', '/b/', '/a/b/', '/a/é/', '/s/']
TYPES = ['t', 'a', 'a.b', 'tt', 't-1']


def build_parsed_event(ev):
    """Create a ParsedEvent holding ev by letting lxml parse hand-made XML (no validation)."""
    from edxml.event import ParsedEvent
    root = etree.Element('{%s}edxml' % EDXML_NS, nsmap={None: EDXML_NS})
    e = etree.SubElement(root, '{%s}event' % EDXML_NS)
    e.set('event-type', ev['type'])
    e.set('source-uri', ev['source'])
    if ev.get('parents'):
        e.set('parents', ','.join(ev['parents']))
    for k, v in ev.get('foreign', []):
        e.set(k, v)
    props = etree.SubElement(e, '{%s}properties' % EDXML_NS)
    for name, objs in ev['props']:
        for o in objs:
            etree.SubElement(props, '{%s}%s' % (EDXML_NS, name)).text = o
    if ev.get('atts'):
        atts = etree.SubElement(e, '{%s}attachments' % EDXML_NS)
        for name, items in ev['atts']:
            for i, v in items:
                a = etree.SubElement(atts, '{%s}%s' % (EDXML_NS, name))
                a.set('id', i)
                a.text = v
    data = etree.tostring(root)
    parser = etree.XMLParser(remove_blank_text=False, resolve_entities=False)
    lookup = etree.ElementNamespaceClassLookup()
    parser.set_element_class_lookup(lookup)
    lookup.get_namespace(EDXML_NS)['event'] = ParsedEvent
    tree = etree.fromstring(data, parser)
    event = tree[0]
    event._vf_keepalive = tree
    return event


def props_dict(ev):
    d = {}
    for name, objs in ev['props']:
        d.setdefault(name, []).extend(objs)
    return d


def atts_dict(ev):
    d = {}
    for name, items in ev.get('atts', []):
        d.setdefault(name, {}).update({i: v for i, v in items})
    return d


def build_event(ev, representation):
    """Instantiate one of the three event representations from a case event."""
    from edxml.event import EDXMLEvent, EventElement
    if representation == 'parsed':
        return build_parsed_event(ev)
    cls = EDXMLEvent if representation == 'plain' else EventElement
    e = cls(props_dict(ev), event_type_name=ev['type'], source_uri=ev['source'],
            parents=list(ev.get('parents', [])), attachments=atts_dict(ev))
    if ev.get('foreign'):
        e.set_foreign_attributes(dict(ev['foreign']))
    return e


def event_view(e):
    """Canonical logical view of an SDK event."""
    return {
        'type': e.get_type_name(), 'source': e.get_source_uri(),
        'props': sorted([k, sorted(str(x) for x in v)] for k, v in e.get_properties().items() if len(v)),
        'atts': sorted([k, sorted([i, val] for i, val in v.items())] for k, v in e.get_attachments().items() if len(v)),
        'parents': sorted(e.get_parent_hashes()),
        'foreign': sorted([k, v] for k, v in e.get_foreign_attributes().items()),
    }


@contextlib.contextmanager
def captured_stdout():
    import sys
    old = sys.stdout
    buf = io.StringIO()
    sys.stdout = buf
    try:
        yield buf
    finally:
        sys.stdout = old


def rand_subset(rng, pool, lo, hi):
    k = rng.randint(lo, min(hi, len(pool)))
    return rng.sample(pool, k)
