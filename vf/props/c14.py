"""C14 - the parser delivers each event exactly once, in order, to the right handlers."""
import json
import re

from vf.core import Property
from vf import parsing as P


def expected_log(items, regs, overridden, validate, known_types=(), known_sources=()):
    """Independent statement of the dispatch rule (no shared code with the Lean model)."""
    typeH, srcH = {}, {}
    for kind, keys, hid in regs:
        d = typeH if kind == 'type' else srcH
        for k in keys:
            d.setdefault(k, []).append(hid)
    log, types, sources = [], set(known_types), set(known_sources)
    delivered = {}
    n = 0
    for it in items:
        if it['k'] == 'ont':
            if not it['valid']:
                return log, n, delivered, 'EDXMLOntologyValidationError'
            types |= set(it['types'])
            sources |= set(it['sources'])
            log.append(['ont', sorted(types), sorted(sources)])
        elif it['k'] == 'foreign':
            log.append(['f', it['idx'], P.foreign_view(it['idx'])])
        else:
            if it['source'] not in sources or it['type'] not in types:
                return log, n, delivered, 'EDXMLEventValidationError'
            if validate and not it['gate']:
                return log, n, delivered, 'EDXMLEventValidationError'
            hs = list(typeH.get(it['type'], []))
            for pat, lst in srcH.items():
                if re.match(pat, it['source']):
                    hs += lst
            if hs:
                log += [['h', h, it['idx']] for h in hs]
            elif overridden:
                log.append(['fb', it['idx']])
            n += 1
            delivered[it['type']] = delivered.get(it['type'], 0) + 1
    return log, n, delivered, None


class C14(Property):
    id = 'C14'
    title = 'The parser delivers each event exactly once, in order, to the right handlers'
    design_ref = 'DESIGN.md section 10, C14'
    required_theorems = (
        'dispatch_exact', 'dispatch_history_free', 'events_once_in_order', 'ontology_before_use',
        'counters_eq_delivered', 'reuse_dispatch_exact', 'resilient_dispatch_exact',
    )
    level_text = ('Lean 4 theorems over the parser state machine (model of _parse_edxml / __parse_event / '
                  '_get_event_handlers / __process_ontology): for every document and registration set the invocation '
                  'log is, event by event in document order, the type handlers followed by the handlers of every '
                  'matching source pattern (or the overridden _parsed_event), independent of the events before it; '
                  'an ontology callback defining type and source precedes every delivered event; counters equal the '
                  'number of delivered events. Compared with the instrumented pull and push parsers on generated '
                  'documents and registration sets, and on sequences of documents given to one parser object (reuse_dispatch_exact: '
                  'the same rule with the types and sources of all documents so far; the event counter counts the document, the '
                  'per-type counters all documents).')
    level_note = ('Proof is about the token-level machine; ontology elements are abstracted to validity + defined '
                  'type/source names, the gate verdict is an input bit (C03), re.match is a table computed by the harness; '
                  'lxml tokenisation is modelled.')
    technique = 'Lean 4 proof (invariants of the parser state machine by induction over the document) + differential correspondence'
    parallel = True
    assumptions = ('handlers do not raise and do not register further handlers while parsing; they may edit the event they are given',)

    def rule(self):
        return ('cases: document (1..4 ontology elements incl. invalid ones, 0..14 events of 3 types x 3 sources incl. '
                'undefined/invalid ones, foreign elements) x registration set (0..4 handlers over type keys and source '
                'patterns, overlapping patterns, repeated registration, overridden _parsed_event or not) x parser '
                '(pull, push with random chunking) x validation on/off; two or three documents through one pull parser; non-trivial = at least one event delivered '
                'to a registered handler; distinct by content')

    def generate(self, rng, tier):
        n = 500 if tier == 'quick' else 15000
        for _ in range(20 if tier == 'quick' else 400):
            # a consumer built on the parser: edxml-to-delimited prints every event of one type once, in document order
            items = [it for it in P.gen_items(rng, rng.randint(1, 12), faults=False) if it['k'] != 'foreign']
            yield {'kind': 'cli', 'items': items, 'type': rng.choice(P.TYPES)}
        for _ in range(60 if tier == 'quick' else 1500):
            # one pull parser given two or three documents one after the other (parse() again): later documents use types and
            # sources that earlier ones defined
            docs = []
            for d in range(rng.randint(2, 3)):
                items = P.gen_items(rng, rng.randint(0, 8), faults=(d > 0 and rng.random() < 0.3))
                for it in items:
                    if 'idx' in it:
                        it['idx'] += 100 * d
                docs.append(items)
            c = {'kind': 'reuse', 'docs': docs, 'regs': P.gen_regs(rng) or [['src', [rng.choice(P.PATTERNS)], 0]],
                 'overridden': rng.random() < 0.5, 'validate': rng.random() < 0.8}
            if rng.random() < 0.5:
                # further handlers are registered between the documents (ids continue after the first ones)
                more = [[kind, keys, hid + 10] for kind, keys, hid in P.gen_regs(rng)] or [['src', [rng.choice(P.PATTERNS)], 10]]
                c['late_regs'] = {str(rng.randint(1, len(docs) - 1)): more}
            yield c
        for _ in range(60 if tier == 'quick' else 1500):
            # a push parser fed element by element; its owner catches the error of every refused event and feeds on
            items = [it for it in P.gen_items(rng, rng.randint(3, 12), faults=False)]
            for it in items:
                if it['k'] == 'event' and rng.random() < 0.3:
                    it['gate'] = False
                    it['flavour'] = rng.choice(['undeclared', 'missing'])
            yield {'kind': 'resume', 'items': items, 'regs': P.gen_regs(rng) or [['type', [rng.choice(P.TYPES)], 0]],
                   'overridden': rng.random() < 0.5, 'validate': True, 'drain': rng.random() < 0.5}
        for _ in range(n):
            items = P.gen_items(rng, rng.randint(0, 14))
            regs = P.gen_regs(rng)
            c = {'items': items, 'regs': regs, 'overridden': rng.random() < 0.5, 'validate': rng.random() < 0.8,
                 'mode': rng.choice(['pull', 'push']), 'cutseed': rng.randint(0, 10 ** 6), 'version': '3.0.0'}
            if regs and rng.random() < 0.2:
                # one of the handlers changes the type of every event it is given (to a type the document defines from the start)
                first = [it for it in items if it['k'] == 'ont'][0]
                c['retype'] = [rng.choice(regs)[2], rng.choice(first['types'])]
            yield c

    def observe(self, case):
        import random
        if case.get('kind') == 'cli':
            import os
            import tempfile
            from vf.cli import run_cli
            data, _ends = P.build_document(case['items'])
            fd, name = tempfile.mkstemp(prefix='vf-c14-', suffix='.edxml')
            try:
                with os.fdopen(fd, 'wb') as f:
                    f.write(data)
                out, outcome = run_cli('edxml_to_delimited', ['-f', name, '-p', 'p', case['type']])
            finally:
                os.unlink(name)
            return {'outcome': outcome, 'rows': out.decode('utf-8').split('\n')[:-1]}
        if case.get('kind') == 'resume':
            data, ends = P.build_document(case['items'])
            return P.run_parser_resilient(data, ends, case['regs'], case['overridden'], case['validate'], drain=case.get('drain', False))
        if case.get('kind') == 'reuse':
            datas = [P.build_document(items)[0] for items in case['docs']]
            return {'docs': P.run_parser_reuse(datas, case['regs'], case['overridden'], case['validate'], case.get('late_regs'))}
        data, _ends = P.build_document(case['items'], case.get('version', '3.0.0'))
        cuts = None
        if case['mode'] == 'push':
            r = random.Random(case['cutseed'])
            cuts = sorted(r.sample(range(1, len(data)), min(len(data) - 1, r.randint(0, 12))))
        return P.run_parser(data, case['mode'], case['regs'], case['overridden'], case['validate'], cuts, retype=case.get('retype'))

    def requests(self, case):
        if case.get('kind') == 'cli':
            # the tool is a parser whose event callback prints: one type handler (id 0) for the requested type
            return [{'op': 'parse', 'reg': P.make_registry([['type', [case['type']], 0]], False, True),
                     'chunks': [P.model_items(case['items'])], 'rootEnd': True, 'versionOk': True}]
        if case.get('kind') == 'resume':
            return [{'op': 'parse', 'reg': P.make_registry(case['regs'], case['overridden'], case['validate']),
                     'resilient': P.model_items(case['items'])}]
        if case.get('kind') == 'reuse':
            regs_at = self.regs_at(case)
            return [{'op': 'parse', 'reg': P.make_registry(case['regs'], case['overridden'], case['validate']),
                     'docs': [{'items': P.model_items(items), 'versionOk': True,
                               'reg': P.make_registry(regs_at[k], case['overridden'], case['validate'])}
                              for k, items in enumerate(case['docs'])]}]
        return [{'op': 'parse', 'reg': P.make_registry(case['regs'], case['overridden'], case['validate']),
                 'chunks': [P.model_items(case['items'])], 'rootEnd': True,
                 'versionOk': case.get('version', '3.0.0') == '3.0.0'}]

    @staticmethod
    def regs_at(case):
        """The registrations in force when document k is parsed."""
        out, cur = [], list(case['regs'])
        for k in range(len(case['docs'])):
            cur = cur + list((case.get('late_regs') or {}).get(str(k), []))
            out.append(list(cur))
        return out

    def predict(self, case, replies):
        if case.get('kind') == 'cli':
            r = replies[0]
            return {'outcome': None if r['err'] is None else r['err'], 'rows': ['v%d' % c[-1] for c in r['log'] if c[0] == 'h']}
        if case.get('kind') == 'resume':
            v = P.model_view(replies[0]['view'], case['items'])
            return {'log': v['log'], 'errors': replies[0]['errors'], 'nEvents': v['nEvents'], 'typeCount': v['typeCount']}
        if case.get('kind') == 'reuse':
            out = []
            for rep, items in zip(replies[0]['docs'], case['docs']):
                v = P.model_view(rep, items)
                if not any(c[0] in ('h', 'fb', 'f') for c in v['log']):
                    v['children'] = None
                out.append(v)
            return {'docs': out}
        v = P.model_view(replies[0], case['items'])
        # the number of children is only observable when some callback saw the tree
        saw_tree = any(c[0] in ('h', 'fb', 'f') for c in v['log'])
        if not saw_tree:
            v['children'] = None
        return v

    def oracle(self, case, obs):
        if case.get('kind') == 'cli':
            want = ['v%d' % it['idx'] for it in case['items'] if it['k'] == 'event' and it['type'] == case['type']]
            if obs['outcome'] is not None:
                # documents without faults: the only error is an event whose type or source no ontology element defined yet
                return None
            if obs['rows'] != want:
                return 'edxml-to-delimited printed %r for the events %r of type %s' % (obs['rows'], want, case['type'])
            return None
        if case.get('kind') == 'resume':
            # the refused events raise and reach nobody; the others are dispatched as if the refused ones were not there
            kept = [it for it in case['items'] if it['k'] != 'event' or it['gate']]
            log, n, delivered, err = expected_log(kept, case['regs'], case['overridden'], case['validate'])
            evs = lambda lg: [c for c in lg if c[0] in ('h', 'fb', 'f')]   # noqa: E731
            refused = sum(1 for it in case['items'] if it['k'] == 'event' and not it['gate'])
            if obs['errors'] != ['EDXMLEventValidationError'] * refused:
                return 'a push parser that is fed on after refused events raised %r for %d refused events' % (obs['errors'], refused)
            if evs(obs['log']) != evs(log):
                for i, (a, b) in enumerate(zip(evs(obs['log']) + [None], evs(log) + [None])):
                    if a != b:
                        return 'a push parser that is fed on after refused events: event/foreign callback %d is %r, expected %r' % (i, a, b)
            if obs['nEvents'] != n:
                return 'a push parser that is fed on after refused events: event counter %d but %d events were delivered' % (obs['nEvents'], n)
            for t, c in obs['typeCount']:
                if c != delivered.get(t, 0):
                    return 'a push parser that is fed on after refused events: counter of event type %s is %d but %d were delivered' % (
                        t, c, delivered.get(t, 0))
            return None
        if case.get('kind') == 'reuse':
            # every document by the rule for a single document, with the types and sources of the earlier documents known
            # from the start; the event counter counts the document, the per-type counters all documents
            types, sources, before = set(), set(), {}
            regs_at = self.regs_at(case)
            for k, (items, o) in enumerate(zip(case['docs'], obs['docs'])):
                # (every document begins with an ontology element, so that handlers registered before it are in force for all
                # of its events)
                log, n, delivered, err = expected_log(items, regs_at[k], case['overridden'], case['validate'], types, sources)
                evs = lambda lg: [c for c in lg if c[0] in ('h', 'fb', 'f')]   # noqa: E731
                if evs(o['log']) != evs(log):
                    for i, (a, b) in enumerate(zip(evs(o['log']) + [None], evs(log) + [None])):
                        if a != b:
                            return 'document %d given to the same parser: event/foreign callback %d is %r, expected %r' % (k + 1, i, a, b)
                if o['err'] != err:
                    return 'document %d given to the same parser: outcome %r, expected %r' % (k + 1, o['err'], err)
                if o['nEvents'] != n:
                    return 'document %d given to the same parser: event counter %d but %d events were delivered' % (k + 1, o['nEvents'], n)
                for t, c in o['typeCount']:
                    if c != before.get(t, 0) + delivered.get(t, 0):
                        return 'document %d given to the same parser: counter of event type %s is %d but %d were delivered so far' % (
                            k + 1, t, c, before.get(t, 0) + delivered.get(t, 0))
                for t, c in delivered.items():
                    before[t] = before.get(t, 0) + c
                for it in items:
                    if it['k'] == 'ont' and it['valid']:
                        types |= set(it['types'])
                        sources |= set(it['sources'])
                if err is not None:
                    break
            return None
        log, n, delivered, err = expected_log(case['items'], case['regs'], case['overridden'], case['validate'])
        ev = lambda lg: [c for c in lg if c[0] in ('h', 'fb', 'f')]
        if ev(obs['log']) != ev(log):
            for i, (a, b) in enumerate(zip(ev(obs['log']) + [None], ev(log) + [None])):
                if a != b:
                    return 'event/foreign callback %d is %r, expected %r' % (i, a, b)
        # the ontology callback for a definition precedes the first event that uses it
        by_idx = {it['idx']: it for it in case['items'] if it['k'] == 'event'}
        types, sources = set(), set()
        for c in obs['log']:
            if c[0] == 'ont':
                types, sources = set(c[1]), set(c[2])
            elif c[0] in ('h', 'fb'):
                it = by_idx[c[-1]]
                if it['type'] not in types or it['source'] not in sources:
                    return 'event %d delivered before an ontology callback defined its type and source' % c[-1]
        if obs['err'] != err:
            return 'outcome %r, expected %r' % (obs['err'], err)
        if obs['nEvents'] != n:
            return 'event counter %d but %d events were delivered' % (obs['nEvents'], n)
        for t, c in obs['typeCount']:
            if c != delivered.get(t, 0):
                return 'counter of event type %s is %d but %d were delivered' % (t, c, delivered.get(t, 0))
        return None

    def neighbours(self, case, rng):
        out = []
        if case.get('kind') in ('cli', 'reuse', 'resume'):
            return []
        for _ in range(80):
            c = json.loads(json.dumps(case))
            c['regs'] = P.gen_regs(rng)
            c['overridden'] = rng.random() < 0.5
            out.append(c)
        return out

    def reductions(self, case):
        if case.get('kind') in ('reuse', 'resume'):
            return
        for i in range(len(case['items']) - 1, 0, -1):
            c = json.loads(json.dumps(case))
            del c['items'][i]
            yield c
        for i in range(len(case.get('regs', []))):
            c = json.loads(json.dumps(case))
            del c['regs'][i]
            yield c

    def nontrivial(self, case):
        if case.get('kind') == 'cli':
            return json.dumps(case, sort_keys=True) if sum(1 for it in case['items'] if it['k'] == 'ont') > 1 else None
        if case.get('kind') in ('reuse', 'resume'):
            return json.dumps(case, sort_keys=True)
        if not case['regs'] or not any(it['k'] == 'event' for it in case['items']):
            return None
        return json.dumps(case, sort_keys=True)


PROPERTY = C14()
