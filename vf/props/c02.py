"""C02 - writer output is always readable; write/parse round trips are lossless."""
import io
import json
import random
import re

from vf.core import Property
from vf import gen

EDXML_NS = 'http://edxml.org/edxml'
FNS = 'http://foreign.example/ns'

# strings that XML can carry and that serializers / parsers like to mangle
NASTY = ['a', ' ', '  ', ' a', 'a ', ' a ', '\n', 'a\nb', '\r', 'a\rb', '\r\n', 'a\r\nb', '\n\r', '\t', 'a\tb', '\u0085', 'a\u0085b',
         ' ', ' ', '<', '>', '&', '&amp;', '&#13;', '&lt;', '<![CDATA[x]]>', ']]>', '"', "'", '"\'', '<a b="c">', '</p>',
         '\U0001F600', '\U0010FFFF', '�', '퟿', '', 'é', '​', '﻿', 'a\u0000b'.replace('\u0000', ''),
         ' \n ', '\n\n', 'a\n\nb', 'a\n \nb', 'x\n\t\ny', 'x' * 300, '\t\n\r ', '&#x41;', '%', '\\', '{', '$', 'é', 'ÿ', '\x7f', '\x80', '\x9f']
TYPES = ['ta', 'tb']
SOURCES = ['/a/', '/b/']
REPRS = ['plain', 'element', 'parsed']


def base_ontology(types, sources, variant=0, lvl=0):
    """The definitions are the same whenever a name occurs (compatible); variant=1 makes the ontology invalid; lvl=1 holds
    the upgraded object type o.e (version 2, the enumeration extended by 'c')."""
    from edxml.ontology import Ontology
    o = Ontology()
    o.create_object_type('o.s', data_type='string:0:mc:u')
    o.create_object_type('o.n', data_type='number:tinyint')
    e = o.create_object_type('o.e', data_type='enum:a:b:c' if lvl else 'enum:a:b')
    if lvl:
        e.set_version(2)
    for t in types:
        et = o.create_event_type(t)
        et.create_property('p', 'o.s').make_optional().make_multivalued()
        et.create_property('q', 'o.n').make_optional()
        et.create_property('e', 'o.e').make_optional()
        et.create_attachment('a')
        et.create_attachment('b')
    for s in sources:
        o.create_event_source(s)
    if variant:
        # invalid on its own: merge strategy 'replace' without a property holding event versions
        o.create_event_type('bad').create_property('p', 'o.s').set_merge_strategy('replace')
    return o


def merged_ontology(script):
    from edxml.ontology import Ontology
    o = Ontology()
    for op in script:
        if op['k'] == 'ont' and op['ok']:
            o.update(base_ontology(op['types'], op['sources'], lvl=op.get('lvl', 0)))
    return o


def event_spec(op):
    ev = {'type': op['type'], 'source': op['source'], 'props': [['p', op['values']]] if op['values'] else []}
    if not op['gate']:
        ev['props'].append(['q', ['300']])      # outside number:tinyint
    elif op.get('q'):
        ev['props'].append(['q', [op['q']]])
    if op.get('e'):
        ev['props'].append(['e', [op['e']]])
    if op.get('att') is not None:
        ev['atts'] = [['a', [[op['att'][0], op['att'][1]]]]]
        if op.get('att2') is not None:
            # a second attachment, whose identifier may be the one of the first
            ev['atts'].append(['b', [[op['att2'][0], op['att2'][1]]]])
    if op.get('parents'):
        ev['parents'] = op['parents']
    if op.get('foreign') is not None:
        ev['foreign'] = [['{%s}x' % FNS, op['foreign']]]
    return ev


def gen_script(rng, n):
    script = []
    idx = 0
    level = 0      # whether an accepted ontology so far held the upgraded object type o.e
    for _ in range(n):
        r = rng.random()
        if r < 0.25 or not script:
            script.append({'k': 'ont', 'types': rng.sample(TYPES, rng.randint(0, 2)), 'sources': rng.sample(SOURCES, rng.randint(0, 2)),
                           'ok': rng.random() < 0.9, 'lvl': 1 if rng.random() < 0.3 else 0})
            if script[-1]['ok']:
                level = max(level, script[-1]['lvl'])
        elif r < 0.33:
            idx += 1
            script.append({'k': 'foreign', 'idx': idx})
        else:
            idx += 1
            vals = rng.sample(NASTY, rng.randint(0, 3))
            op = {'k': 'event', 'idx': idx, 'type': rng.choice(TYPES + ['tz']), 'source': rng.choice(SOURCES + ['/z/']),
                  'gate': rng.random() < 0.85, 'values': [v for v in vals if v != ''], 'rep': rng.choice(REPRS)}
            if rng.random() < 0.4:
                op['att'] = [rng.choice(['id', 'i d', 'é', 'a"b']), rng.choice([v for v in NASTY if v != ''])]
                if rng.random() < 0.25:
                    op['att'][1] = 'big ' * rng.randint(900, 3000)
                if rng.random() < 0.5:
                    op['att2'] = [op['att'][0] if rng.random() < 0.6 else 'other', rng.choice([v for v in NASTY if v != ''])]
            if rng.random() < 0.35:
                # a value of the enumeration: 'c' is valid only once the upgraded object type has been written
                op['e'] = rng.choice(['a', 'c', 'c'])
                if op['e'] == 'c' and not level:
                    op['gate'] = False
            if rng.random() < 0.3:
                op['parents'] = ['%040x' % rng.randint(1, 5)]
            if rng.random() < 0.3:
                op['foreign'] = rng.choice(NASTY)
            if rng.random() < 0.3:
                op['q'] = str(rng.randint(0, 255))
            script.append(op)
            if op['rep'] == 'plain' and op['values'] and rng.random() < 0.2:
                # the same event object is written once more, after an object was added through the object set that the
                # caller obtained before the first write
                idx += 1
                extra = rng.choice([v for v in NASTY if v != ''])
                script.append(dict(op, idx=idx, values=op['values'] + ([extra] if extra not in op['values'] else []), reuse=True))
    return script


def foreign_element(idx):
    from lxml import etree
    e = etree.Element('{%s}thing' % FNS, n=str(idx))
    e.text = 'foreign %d' % idx
    return e


def write_script(script, pretty, validate=True):
    """Run the script on a writer; returns (bytes, verdict per call)."""
    from edxml import EDXMLWriter
    from edxml.error import EDXMLValidationError, EDXMLOntologyValidationError, EDXMLEventValidationError
    buf = io.BytesIO()
    w = EDXMLWriter(buf, validate=validate, pretty_print=pretty)
    verdicts = []
    last = None
    for op in script:
        try:
            if op['k'] == 'ont':
                w.add_ontology(base_ontology(op['types'], op['sources'], variant=0 if op['ok'] else 1, lvl=op.get('lvl', 0)))
            elif op['k'] == 'foreign':
                w.add_foreign_element(foreign_element(op['idx']))
            elif op.get('reuse') and last is not None and last[0] == op['idx'] - 1:
                for v in op['values']:
                    last[2].add(v)
                w.add_event(last[1])
            else:
                e = gen.build_event(event_spec(op), op['rep'])
                last = (op['idx'], e, e['p']) if op['rep'] == 'plain' and op['values'] else None
                w.add_event(e)
            verdicts.append(None)
        except EDXMLOntologyValidationError:
            verdicts.append('EDXMLOntologyValidationError')
        except EDXMLEventValidationError:
            verdicts.append('EDXMLEventValidationError')
        except EDXMLValidationError:
            verdicts.append('EDXMLValidationError')
        except Exception as ex:
            verdicts.append('foreign:' + type(ex).__name__)
    w.close()
    return buf.getvalue(), verdicts


def interleave(data):
    """The same document as another conforming writer may produce it: inside every event, the objects of one property are not
    neighbours (round robin over the properties), likewise the attachments."""
    from lxml import etree
    root = etree.fromstring(data)
    for ev in root.iter("{%s}event" % EDXML_NS):
        for box in ev:
            kids = list(box)
            if len({k.tag for k in kids}) < 2 or len(kids) < 3:
                continue
            groups = {}
            for k in kids:
                groups.setdefault(k.tag, []).append(k)
            order = []
            while any(groups.values()):
                for tag in sorted(groups, key=lambda t: -len(groups[t])):
                    if groups[tag]:
                        order.append(groups[tag].pop(0))
            tails = [k.tail for k in kids]
            for k in kids:
                box.remove(k)
            for k, t in zip(order, tails):
                k.tail = t
                box.append(k)
    return etree.tostring(root)


def parse_doc(data, validate=True):
    """Validating pull parser -> (error, event views in order, ontology XML, foreign element ids)."""
    from edxml import EDXMLPullParser
    from edxml.error import EDXMLError
    from lxml import etree
    events, foreign = [], []

    class P(EDXMLPullParser):
        def _parsed_event(self, event):
            events.append(gen.event_view(event))

        def _parsed_foreign_element(self, element):
            foreign.append(int(element.get('n')))
    p = P(validate=validate)
    err = None
    try:
        p.parse(io.BytesIO(data), foreign_element_tags=['{%s}thing' % FNS])
    except EDXMLError as ex:
        err = type(ex).__name__
    except Exception as ex:
        err = 'foreign:' + type(ex).__name__
    o = p.get_ontology()
    ox = etree.tostring(o.generate_xml()).decode() if o is not None else None
    return err, events, ox, foreign


def filter_doc(data):
    from edxml import EDXMLPullFilter
    buf = io.BytesIO()
    f = EDXMLPullFilter(buf)
    f.parse(io.BytesIO(data))
    f.close()
    return buf.getvalue()


def doc_shape(data):
    """The children of the root element: ['ont', event type names, source URIs] | ['event'] | ['foreign']."""
    from lxml import etree
    root = etree.fromstring(data)
    out = []
    for ch in root:
        tag = etree.QName(ch).localname if isinstance(ch.tag, str) else None
        if tag == 'ontology' and etree.QName(ch).namespace == EDXML_NS:
            out.append(['ont', sorted(e.get('name') for e in ch.iter('{%s}event-type' % EDXML_NS)),
                        sorted(e.get('uri') for e in ch.iter('{%s}source' % EDXML_NS))])
        elif tag == 'event' and etree.QName(ch).namespace == EDXML_NS:
            out.append(['event'])
        elif tag is not None:
            out.append(['foreign'])
    return out


def parse_full(data):
    """(error, event views, ontology object) of a document read by a validating pull parser."""
    from edxml import EDXMLPullParser
    from edxml.error import EDXMLError
    events = []

    class P(EDXMLPullParser):
        def _parsed_event(self, event):
            events.append(gen.event_view(event))
    p = P(validate=True)
    err = None
    try:
        p.parse(io.BytesIO(data))
    except EDXMLError as ex:
        err = type(ex).__name__
    except Exception as ex:
        err = 'foreign:' + type(ex).__name__
    return err, events, p.get_ontology()


def ontology_text(o):
    from lxml import etree
    return None if o is None else etree.tostring(o.generate_xml()).decode()


def run_cli_case(case):
    """The documents of two writer sessions through the pass-through command line tools."""
    import os
    import shutil
    import tempfile
    from edxml.ontology import Ontology
    from vf.cli import run_cli
    docs = [write_script(sc, case['pretty'])[0] for sc in case['scripts']]
    parsed = [parse_full(d) for d in docs]
    tmp = tempfile.mkdtemp(prefix='vf-cli-')
    try:
        names = []
        for i, d in enumerate(docs):
            names.append(os.path.join(tmp, 'in%d.edxml' % i))
            with open(names[-1], 'wb') as f:
                f.write(d)
        out = {}
        # edxml-cat: both documents, one after the other
        data, outcome = run_cli('edxml_cat', ['-f', names[0], '-f', names[1]])
        err, events, o = parse_full(data) if outcome is None else (None, None, None)
        want_o = Ontology()
        for _e, _ev, po in parsed:
            if po is not None:
                want_o.update(po)
        out['cat'] = {'outcome': outcome, 'parse': err, 'events_same': events == parsed[0][1] + parsed[1][1],
                      'ontology_same': ontology_text(o) == ontology_text(want_o) if o is not None else not any(p[2] is not None for p in parsed)}
        # edxml-filter without criteria and edxml-replay at full speed: the first document as it is
        for tool, argv in (('edxml_filter', ['-f', names[0]]), ('edxml_replay', ['-f', names[0], '-s', '1000000'])):
            data, outcome = run_cli(tool, argv)
            err, events, o = parse_full(data) if outcome is None else (None, None, None)
            out[tool[6:]] = {'outcome': outcome, 'parse': err, 'events_same': events == parsed[0][1],
                             'ontology_same': ontology_text(o) == ontology_text(parsed[0][2])}
        # edxml-filter with a criterion: only the events of type ta, and an ontology without the other event types
        data, outcome = run_cli('edxml_filter', ['-f', names[0], '-e', '^ta$'])
        err, events, o = parse_full(data) if outcome is None else (None, None, None)
        want_types = [t for t in (parsed[0][2].get_event_type_names() if parsed[0][2] is not None else []) if t == 'ta']
        out['filter_ta'] = {'outcome': outcome, 'parse': err, 'events_same': events == [e for e in parsed[0][1] if e['type'] == 'ta'],
                            'ontology_same': (sorted(o.get_event_type_names()) == want_types and
                                              sorted(o.get_event_sources()) == sorted(parsed[0][2].get_event_sources()))
                            if o is not None and parsed[0][2] is not None else (o is None) == (parsed[0][2] is None)}
        return out
    finally:
        shutil.rmtree(tmp, ignore_errors=True)


def editing_filter(data):
    """A filter whose event callback gives every event an object outside the value space: its writer must refuse it."""
    from edxml import EDXMLPullFilter
    from edxml.error import EDXMLEventValidationError, EDXMLError

    class F(EDXMLPullFilter):
        def _parsed_event(self, event):
            event['q'] = {'300'}          # outside number:tinyint
            super()._parsed_event(event)
    f = F(io.BytesIO())
    try:
        f.parse(io.BytesIO(data))
        f.close()
        return 'accepted'
    except EDXMLEventValidationError:
        return 'rejected'
    except EDXMLError as ex:
        return 'edxml:' + type(ex).__name__
    except Exception as ex:
        return 'raised:' + type(ex).__name__


def expected_view(op):
    ev = event_spec(op)
    return {'type': ev['type'], 'source': ev['source'], 'props': sorted([k, sorted(set(v))] for k, v in ev['props'] if v),
            'atts': sorted([k, sorted(v)] for k, v in ev.get('atts', [])), 'parents': sorted(ev.get('parents', [])),
            'foreign': sorted(ev.get('foreign', []))}


class C02(Property):
    id = 'C02'
    title = 'Writer output is always readable; write/parse round trips are lossless'
    design_ref = 'DESIGN.md section 10, C02'
    required_theorems = (
        'unescapeText_escapeText', 'unescapeAttr_escapeAttr', 'escapeText_no_markup', 'written_stream_parses',
        'written_stream_parses_from_start', 'only_valid_events_written', 'rejected_call_writes_nothing', 'step_agree',
        'filter_lossless', 'filter_idempotent', 'filter_output_shape', 'filter_replays',
    )
    level_text = ('Lean 4 theorems over (a) the character data model: what lxml writes for element text and attribute values is '
                  'read back unchanged by an XML parser, for every string (markup characters, CR, LF, TAB, any other character); '
                  '(b) the composition of the writer machine (add_ontology / add_event / add_foreign_element with their checks) '
                  'with the validating parser machine of C14: for every session, whatever calls were accepted or rejected, the '
                  'children written are parsed without error, the parser ends up with the ontology the writer holds, exactly '
                  'the written events are delivered in order, and only gate-accepted events are written. Compared with '
                  'EDXMLWriter / EDXMLPullParser on strings that serializers and parsers like to mangle (raw bytes of the '
                  'written text and attribute, values read back) and on random sessions over the three event representations, '
                  'pretty-printed or not; (c) the pass-through filter as the parser machine feeding the writer machine: what it '
                  'writes for an accepted document parses to the same ontology and the same events in order, and filtering '
                  'that output reproduces it (filter_lossless, filter_idempotent); the element structure of the real filter '
                  'output (accumulated definitions per ontology element, events, no foreign elements) is compared with the '
                  'model, its byte idempotence with the oracle.')
    level_note = ('Proof is about the model. lxml / libxml2 are modelled (escaping rules, line end and attribute value '
                  'normalisation), not verified; ontology elements are abstracted to the event types and sources they define '
                  '(their own round trip is C08); byte-for-byte idempotence of the filter rests on lxml serialising equal trees '
                  'equally (checked by the oracle on every session).')
    technique = 'Lean 4 proof (escape/unescape inverses by induction over strings; simulation of writer and parser machines by induction over sessions) + differential correspondence'
    parallel = True
    assumptions = ('object values, attachment ids and values and foreign attribute values are strings of legal XML characters',)

    def rule(self):
        return ('cases: text (a string -> written as object, attachment, attachment id-free foreign attribute; by every '
                'representation, pretty-printed or not), session (random add_ontology / add_event / add_foreign_element calls '
                'incl. rejected ones); observed: raw bytes of text and attribute, values read back by a validating parser, '
                'verdict of every call, delivered events and ontology, filter output and filter of filter output; non-trivial '
                '= a session with an accepted event after a second accepted ontology; distinct by content')

    def generate(self, rng, tier):
        for i in range(0, len(NASTY), 6):
            for rep in REPRS:
                for pretty in (False, True):
                    yield {'kind': 'text', 'values': NASTY[i:i + 6], 'rep': rep, 'pretty': pretty}
        # values around the size of libxml2's output buffer (an element may reach the output in pieces)
        for n in ([3900, 4000, 4096, 5000, 9000] if tier == 'quick' else list(range(3800, 4300, 13)) + [8192, 20000, 70000]):
            for rep in (REPRS if tier != 'quick' else [REPRS[n % 3]]):
                for pretty in (False, True):
                    yield {'kind': 'text', 'values': [('z%d ' % n) * (n // len('z%d ' % n)) + 'end'], 'rep': rep, 'pretty': pretty}
        if tier != 'quick':
            pool = list('ab \n\r\t<>&"\'\u0085é]') + ['\U0001F600']
            for _ in range(400):
                vals = [''.join(rng.choice(pool) for _ in range(rng.randint(1, 8))) for _ in range(6)]
                yield {'kind': 'text', 'values': vals, 'rep': rng.choice(REPRS), 'pretty': rng.random() < 0.5}
        for _ in range(150 if tier == 'quick' else 3000):
            yield {'kind': 'session', 'script': gen_script(rng, rng.randint(2, 12)), 'pretty': rng.random() < 0.5}
        for _ in range(30 if tier == 'quick' else 600):
            # an object type is upgraded in mid session (the enumeration gains a value) while the event types that use it
            # keep their version: events of a type that was written before use the new value right afterwards
            t = rng.choice(TYPES)
            src = rng.choice(SOURCES)
            mk = lambda i, e: {'k': 'event', 'idx': i, 'type': t, 'source': src, 'gate': True, 'values': [rng.choice(['x', 'y z'])],  # noqa: E731
                               'rep': rng.choice(REPRS), 'e': e}
            script = [{'k': 'ont', 'types': list(TYPES), 'sources': list(SOURCES), 'ok': True, 'lvl': 0}]
            script += [mk(i + 1, rng.choice(['a', 'b'])) for i in range(rng.randint(1, 3))]
            script.append({'k': 'ont', 'types': rng.sample(TYPES, rng.randint(0, 2)), 'sources': [], 'ok': True, 'lvl': 1})
            script += [mk(i + 10, 'c') for i in range(rng.randint(1, 2))]
            yield {'kind': 'session', 'script': script, 'pretty': rng.random() < 0.5}
        for _ in range(30 if tier == 'quick' else 600):
            # two documents for the pass-through command line tools (edxml-cat, edxml-filter, edxml-replay); the second one
            # often ends with an ontology element that no event follows
            s1, s2 = gen_script(rng, rng.randint(2, 10)), gen_script(rng, rng.randint(1, 6))
            if rng.random() < 0.5:
                # a source that is defined in mid stream, by a small ontology update, and used right away
                idx = max([op['idx'] for op in s1 if 'idx' in op] + [0])
                s1 = [{'k': 'ont', 'types': ['ta', 'tb'], 'sources': ['/a/'], 'ok': True}] + s1 + [
                    {'k': 'ont', 'types': [], 'sources': ['/b/'], 'ok': True},
                    {'k': 'event', 'idx': idx + 1, 'type': 'ta', 'source': '/b/', 'gate': True, 'values': ['late'], 'rep': rng.choice(REPRS)}]
            if rng.random() < 0.5:
                s2.append({'k': 'ont', 'types': rng.sample(TYPES, rng.randint(0, 2)), 'sources': rng.sample(SOURCES, rng.randint(1, 2)), 'ok': True})
            yield {'kind': 'cli', 'scripts': [s1, s2], 'pretty': rng.random() < 0.5}

    # -- implementation
    def observe(self, case):
        if case['kind'] == 'text':
            out = []
            for v in case['values']:
                script = [{'k': 'ont', 'types': ['ta'], 'sources': ['/a/'], 'ok': True},
                          {'k': 'event', 'idx': 1, 'type': 'ta', 'source': '/a/', 'gate': True, 'values': [v], 'rep': case['rep'],
                           'att': ['id', v], 'foreign': v}]
                try:
                    data, verdicts = write_script(script, case['pretty'])
                except Exception as ex:
                    out.append({'written': 'err:' + type(ex).__name__})
                    continue
                if verdicts[1] is not None:
                    out.append({'written': verdicts[1]})
                    continue
                m = re.search(rb'<p>(.*?)</p>', data, re.S)
                a = re.search(rb':x="(.*?)"', data, re.S)
                err, events, _ox, _f = parse_doc(data)
                back = events[0] if events else None
                out.append({'written': 'ok', 'text': m.group(1).decode() if m else None, 'attr': a.group(1).decode() if a else None,
                            'parse': err,
                            'textBack': back['props'][0][1][0] if back and back['props'] else None,
                            'attBack': back['atts'][0][1][0][1] if back and back['atts'] else None,
                            'attrBack': back['foreign'][0][1] if back and back['foreign'] else None})
            return {'values': out}
        if case['kind'] == 'cli':
            return run_cli_case(case)
        data, verdicts = write_script(case['script'], case['pretty'])
        err, events, ox, foreign = parse_doc(data)
        obs = {'verdicts': verdicts, 'parseErr': err, 'delivered': [e for e in events], 'foreign': foreign, 'ontology': ox}
        try:
            obs['interleaved_same'] = parse_doc(interleave(data)) == (err, events, ox, foreign) if err is None else True
        except Exception as ex:
            obs['interleaved_same'] = 'err:' + type(ex).__name__
        # the pass-through filter
        try:
            f1 = filter_doc(data)
            e2, ev2, ox2, fo2 = parse_doc(f1)
            f2 = filter_doc(f1)
            obs['filter'] = {'lossless': (e2, ev2, ox2) == (err, events, ox), 'idempotent': f1 == f2}
            obs['filterShape'] = [doc_shape(f1), doc_shape(f2)]
            obs['filterEdit'] = editing_filter(data)
        except Exception as ex:
            obs['filter'] = 'err:' + type(ex).__name__
            obs['filterShape'] = None
            obs['filterEdit'] = None
        return obs

    # -- model
    def requests(self, case):
        if case['kind'] == 'cli':
            return []
        if case['kind'] == 'text':
            return [{'op': 'xmlesc', 'values': case['values']}]
        ops = []
        for op in case['script']:
            if op['k'] == 'ont':
                ops.append({'k': 'ont', 'types': op['types'], 'sources': op['sources'], 'ok': op['ok']})
            elif op['k'] == 'foreign':
                ops.append({'k': 'foreign', 'idx': op['idx']})
            else:
                ops.append({'k': 'event', 'idx': op['idx'], 'type': op['type'], 'source': op['source'], 'gate': op['gate']})
        return [{'op': 'wstream', 'validate': True, 'ops': ops}]

    def predict(self, case, replies):
        if case['kind'] == 'cli':
            ok = {'outcome': None, 'parse': None, 'events_same': True, 'ontology_same': True}
            return {'cat': dict(ok), 'filter': dict(ok), 'replay': dict(ok), 'filter_ta': dict(ok)}
        if case['kind'] == 'text':
            out = []
            for v, r in zip(case['values'], replies[0]['values']):
                out.append({'written': 'ok', 'text': r['text'], 'attr': r['attr'], 'parse': None, 'textBack': r['textBack'],
                            'attBack': r['textBack'], 'attrBack': r['attrBack']})
            return {'values': out}
        r = replies[0]
        by_idx = {op['idx']: op for op in case['script'] if op['k'] == 'event'}
        return {'verdicts': r['verdicts'], 'parseErr': r['parseErr'], 'delivered': [expected_view(by_idx[i]) for i in r['delivered']],
                'foreign': [it[1] for it in r['out'] if it[0] == 'foreign'], 'ontology': 'undecided', 'interleaved_same': True,
                'filter': {'lossless': True, 'idempotent': True},
                # the filter machine: every ontology element of its output holds all definitions so far, events follow
                # in order, foreign elements are not copied
                'filterShape': [r['filter'], r['filter2']],
                # a filter validates what it writes: an event made invalid in the callback is refused
                'filterEdit': 'rejected' if r['delivered'] else 'accepted'}

    def fill_undecided(self, case, obs, pred):
        if case['kind'] == 'cli':
            return pred
        if case['kind'] == 'session':
            pred['ontology'] = obs['ontology']
        return pred

    # -- oracle
    def oracle(self, case, obs):
        if case['kind'] == 'cli':
            for tool in ('cat', 'filter', 'replay', 'filter_ta'):
                r = obs[tool]
                what = 'edxml-%s on the output of a validating writer' % {'filter_ta': 'filter --event-type ^ta$'}.get(tool, tool)
                if r['outcome'] is not None:
                    return '%s failed: %s' % (what, r['outcome'])
                if r['parse'] is not None:
                    return '%s: a validating parser rejects its output: %s' % (what, r['parse'])
                if not r['events_same']:
                    return '%s: the events in its output differ from the events of its input' % what
                if not r['ontology_same']:
                    return '%s: the ontology in its output differs from the ontology of its input' % what
            return None
        if case['kind'] == 'text':
            for v, o in zip(case['values'], obs['values']):
                what = '%s event, pretty_print=%s, value %r' % (case['rep'], case['pretty'], v)
                if o['written'] != 'ok':
                    return '%s: the validating writer did not accept the event: %s' % (what, o['written'])
                if o['parse'] is not None:
                    return '%s: a validating parser rejects what the writer wrote: %s' % (what, o['parse'])
                for k, label in (('textBack', 'object value'), ('attBack', 'attachment'), ('attrBack', 'foreign attribute')):
                    if o[k] != v:
                        return '%s: the %s comes back as %r' % (what, label, o[k])
            return None
        script = case['script']
        accepted = [op for op, v in zip(script, obs['verdicts']) if v is None]
        for op, v in zip(script, obs['verdicts']):
            if v is not None and str(v).startswith('foreign:'):
                return 'call %s raised %s' % (json.dumps(op, ensure_ascii=False)[:200], v[8:])
        if obs['parseErr'] is not None:
            return 'a validating parser rejects what the validating writer wrote: %s' % obs['parseErr']
        want = [expected_view(op) for op in accepted if op['k'] == 'event']
        if obs['delivered'] != want:
            for i, (a, b) in enumerate(zip(obs['delivered'] + [None], want + [None])):
                if a != b:
                    return 'event %d read back from the output is %s, the writer accepted %s' % (
                        i, json.dumps(a, ensure_ascii=False)[:300], json.dumps(b, ensure_ascii=False)[:300])
        for op, v in zip(script, obs['verdicts']):
            if op['k'] == 'event' and v is None and not op['gate']:
                return 'the validating writer accepted an invalid event: %s' % json.dumps(event_spec(op), ensure_ascii=False)[:300]
        if obs['foreign'] != [op['idx'] for op in accepted if op['k'] == 'foreign']:
            return 'foreign elements read back: %s' % obs['foreign']
        from lxml import etree
        acc_script = [dict(op, ok=True) for op in accepted if op['k'] == 'ont']
        if acc_script:
            want_ox = etree.tostring(merged_ontology(acc_script).generate_xml()).decode()
            if obs['ontology'] != want_ox:
                return 'the ontology read back differs from the union of the ontologies the writer accepted'
        if obs.get('interleaved_same', True) is not True:
            return ('the written document with the objects of each event in another order (objects of one property not next to each '
                    'other) is not read as the same events: %s' % obs['interleaved_same'])
        if obs['filter'] != {'lossless': True, 'idempotent': True}:
            return 'pass-through filter: %s' % obs['filter']
        if want and obs.get('filterEdit') != 'rejected':
            return ('a filter whose callback makes every event invalid (object 300 for number:tinyint) wrote the document: %s'
                    % obs.get('filterEdit'))
        return None

    def neighbours(self, case, rng):
        if case['kind'] == 'session':
            return [{'kind': 'session', 'script': gen_script(rng, len(case['script'])), 'pretty': case['pretty']} for _ in range(40)]
        return []

    def reductions(self, case):
        if case['kind'] == 'session':
            s = case['script']
            for i in range(len(s) - 1, 0, -1):
                yield dict(case, script=s[:i] + s[i + 1:])
        elif case['kind'] == 'cli':
            for k in (0, 1):
                sc = case['scripts'][k]
                for i in range(len(sc) - 1, 0, -1):
                    scripts = list(case['scripts'])
                    scripts[k] = sc[:i] + sc[i + 1:]
                    yield dict(case, scripts=scripts)
        else:
            vs = case['values']
            for i in range(len(vs)):
                if len(vs) > 1:
                    yield dict(case, values=vs[:i] + vs[i + 1:])

    def nontrivial_obs(self, case, obs):
        if case['kind'] == 'cli':
            return json.dumps(case, sort_keys=True)
        if case['kind'] != 'session' or not isinstance(obs, dict) or 'verdicts' not in obs:
            return None
        seen_ont = 0
        for op, v in zip(case['script'], obs['verdicts']):
            if op['k'] == 'ont' and v is None:
                seen_ont += 1
            elif op['k'] == 'event' and v is None and seen_ont >= 2:
                return json.dumps(case, sort_keys=True)
        return None

    def sample_view(self, case):
        if case['kind'] == 'text':
            return case
        if case['kind'] == 'cli':
            return {'kind': 'cli', 'calls': [[op['k'] for op in sc] for sc in case['scripts']]}
        return {'kind': 'session', 'calls': [op['k'] for op in case['script']]}


PROPERTY = C02()
