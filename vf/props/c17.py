"""C17 - transcoder mediators always emit one valid, complete EDXML stream."""
import io
import json
import logging
import random

from vf.core import Property
from vf import gen

RECORD_TYPES = ['ra', 'rb', 'rz']          # rz: no transcoder registered
SOURCES = ['/src/a/', '/src/b/']

# event type per record type: (event type, property -> (object type, flags), property map)
SETUP = {
    'ra': {
        'et': 'type.a',
        'props': {'name': 'o.str', 'n': 'o.byte', 'flag': 'o.bool', 'tags': 'o.tag', 'first': 'o.str', 'codes': 'o.byte', 'labels': 'o.str'},
        'optional': ['n', 'flag', 'tags', 'first', 'codes', 'labels'], 'multi': ['tags', 'codes', 'labels'],
        # codes / labels: list valued fields whose members are numbers (0 and 1 among them)
        'map': {'name': 'name', 'sub.n': 'n', 'flag': 'flag', 'tags': 'tags', 'items.0.v': 'first', 'codes': 'codes', 'nums': 'labels'},
    },
    'rb': {
        'et': 'type.b',
        'props': {'name': 'o.str', 'when': 'o.dt', 'n': 'o.byte', 'label': 'o.str', 'shout': 'o.str'},
        'optional': ['when', 'n', 'label', 'shout'], 'multi': [],
        # one record field feeds three properties, two of which have a post processor
        'map': {'title': ['name', 'label', 'shout'], 'meta.when': 'when', 'meta.count': 'n'},
        'post': {'label': 'label', 'shout': 'shout'},
    },
}
OBJECT_TYPES = {'o.str': 'string:0:mc:u', 'o.byte': 'number:tinyint', 'o.bool': 'boolean', 'o.dt': 'datetime', 'o.tag': 'string:3:mc:u'}

NAMES = ['alice', 'bob', '', None, ' x ', 'é<&>', 'a\nb']
NUMS = [0, 7, 255, '7', '007', ' 7', 256, -1, 'x', None, '', 3.0]
FLAGS = [True, False, 'true', 'True', 'yes', None]
TAGS = [['t1', 't2'], [], ['t1', ''], 't1', None, ['t1', 't1'], ['aaaaaa', 't1'], ['t0', 'zzzzzz'], ['t1', 'mmmmmm', 't9'], ['aaaaaa']]
CODES = [None, None, [0, 1, 127], [1], [0, 5], [7, 7], [2, 300], [], [0], [1, 2, 3], ['1', 1]]
WHENS = ['2020-01-01T00:00:00.000000Z', '2020-01-01T12:00:00+02:00', 'yesterday', None, '2020-02-30T00:00:00.000000Z']


def gen_record(rng):
    rt = rng.choice(RECORD_TYPES + ['ra', 'rb'])
    if rt == 'rb':
        rec = {'type': 'rb', 'title': rng.choice(NAMES), 'meta': {'when': rng.choice(WHENS), 'count': rng.choice(NUMS)}}
        if rng.random() < 0.15:
            del rec['meta']
    else:
        rec = {'type': rt, 'name': rng.choice(NAMES), 'sub': {'n': rng.choice(NUMS)}, 'flag': rng.choice(FLAGS), 'tags': rng.choice(TAGS),
               'items': rng.choice([[{'v': 'first'}], [], [{'w': 1}], None])}
        for field in ('codes', 'nums'):
            v = rng.choice(CODES)
            if v is not None:
                rec[field] = v
        if rng.random() < 0.15:
            del rec['sub']
    return rec


def gen_case(rng):
    ops = []
    added = {'/src/a/'}
    for _ in range(rng.randint(1, 10)):
        r = rng.random()
        if r < 0.12:
            cands = [x for x in SOURCES if x not in added]
            if not cands:
                continue
            ops.append(['add_source', cands[0]])
            added.add(cands[0])
        elif r < 0.2:
            ops.append(['set_source', rng.choice(SOURCES)])
        else:
            ops.append(['record', gen_record(rng)])
    case = {'ops': ops, 'ignore_invalid': rng.random() < 0.5, 'repair_normalize': rng.random() < 0.5, 'repair_drop': rng.random() < 0.3,
            'fallback': rng.random() < 0.3, 'to_file': rng.random() < 0.5, 'initial_source': True, 'multi_yield': rng.random() < 0.5}
    if rng.random() < 0.35:
        # explicit enable_auto_repair_*() calls on the mediator after the transcoders were registered
        case['explicit_repair'] = rng.choice([{'normalize': ['flag']}, {'normalize': ['when']}, {'drop': ['when']}, {'normalize': ['n'], 'drop': []},
                                              {'normalize': []}, {'drop': ['n']}, {'normalize': ['flag'], 'drop': ['when']}])
    if rng.random() < 0.12:
        case['late_bad_source'] = True
    if not case['ignore_invalid'] and rng.random() < 0.4:
        # ignore_invalid_events() is called in mid session, just before the op with this index
        case['ignore_at'] = rng.randint(1, max(1, len(ops) - 1))
    return case


def effective_repair(case, et):
    """The properties the mediator may repair for an event type: what the record transcoder's class constants enable, replaced
    by the list of an explicit enable_auto_repair_*() call on the mediator (the call replaces, it does not add)."""
    cfg = {'type.a': SETUP['ra'], 'type.b': SETUP['rb']}.get(et)
    if cfg is None:
        return [], []
    norm = [p for p in ('n', 'when', 'flag') if p in cfg['props']] if case['repair_normalize'] else []
    drop = [p for p in ('n', 'when') if p in cfg['props']] if case['repair_drop'] else []
    ex = case.get('explicit_repair') or {}
    if 'normalize' in ex:
        norm = [p for p in ex['normalize'] if p in cfg['props']]
    if 'drop' in ex:
        drop = [p for p in ex['drop'] if p in cfg['props']]
    return norm, drop


def beyond_repair(case, et, exp):
    """An invalid event stays invalid when one of its offending properties is not among those the mediator may repair."""
    norm, drop = effective_repair(case, et)
    return any(b not in norm and b not in drop for b in exp['bad'])


POST = {'label': lambda v: ['label of %s' % (v,)], 'shout': lambda v: [str(v).upper() + '!']}


def make_transcoders(case):
    from edxml.transcode.object import ObjectTranscoder

    def make(rt):
        cfg = SETUP[rt]

        class T(ObjectTranscoder):
            TYPES = [cfg['et']]
            TYPE_MAP = {rt: cfg['et']}
            TYPE_PROPERTIES = {cfg['et']: dict(cfg['props'])}
            TYPE_OPTIONAL_PROPERTIES = {cfg['et']: list(cfg['optional'])}
            TYPE_MULTI_VALUED_PROPERTIES = {cfg['et']: list(cfg['multi'])}
            PROPERTY_MAP = {cfg['et']: dict(cfg['map'])}
            TYPE_AUTO_REPAIR_NORMALIZE = {cfg['et']: [p for p in ('n', 'when', 'flag') if p in cfg['props']]} if case['repair_normalize'] else {}
            TYPE_AUTO_REPAIR_DROP = {cfg['et']: [p for p in ('n', 'when') if p in cfg['props']]} if case['repair_drop'] else {}
            TYPE_PROPERTY_POST_PROCESSORS = {cfg['et']: {p: POST[f] for p, f in cfg.get('post', {}).items()}}

            def create_object_types(self, ontology):
                for name, dt in OBJECT_TYPES.items():
                    ontology.create_object_type(name, data_type=dt)

            def generate(self, rec, sel, **kwargs):
                for ev in super().generate(rec, sel, **kwargs):
                    tags = sorted(ev['tags']) if case.get('multi_yield') and 'tags' in ev else []
                    if len(tags) > 1:
                        # one output event per tag, re-using the event object (legal with a streaming consumer)
                        for t in tags:
                            ev['tags'] = [t]
                            yield ev
                    else:
                        yield ev
        return T
    ts = {'ra': make('ra'), 'rb': make('rb')}
    if case['fallback']:
        cfg = SETUP['ra']

        class F(ts['ra']):
            TYPES = ['type.f']
            TYPE_MAP = {None: 'type.f'}
            TYPE_PROPERTIES = {'type.f': dict(cfg['props'])}
            TYPE_OPTIONAL_PROPERTIES = {'type.f': list(cfg['optional'])}
            TYPE_MULTI_VALUED_PROPERTIES = {'type.f': list(cfg['multi'])}
            PROPERTY_MAP = {'type.f': dict(cfg['map'])}
            TYPE_AUTO_REPAIR_NORMALIZE = {}
            TYPE_AUTO_REPAIR_DROP = {}
            TYPE_PROPERTY_POST_PROCESSORS = {}
        ts[None] = F
    return ts


def run_case(case):
    """Drive a mediator; returns per call outcome, the concatenated output, and what a validating parser reads."""
    from edxml.transcode.object import ObjectTranscoderMediator
    from edxml.error import EDXMLError
    from edxml import EDXMLPullParser
    logging.disable(logging.CRITICAL)

    class M(ObjectTranscoderMediator):
        TYPE_FIELD = 'type'
    out = io.BytesIO() if case['to_file'] else None
    m = M(out)
    for rt, cls in make_transcoders(case).items():
        m.register(rt, cls())
    if case['ignore_invalid']:
        m.ignore_invalid_events()
    ex = case.get('explicit_repair') or {}
    for et, cfg in (('type.a', SETUP['ra']), ('type.b', SETUP['rb'])):
        # an explicit call after register(): replaces what the class constants of the transcoder enabled
        if 'normalize' in ex:
            m.enable_auto_repair_normalize(et, [p for p in ex['normalize'] if p in cfg['props']])
        if 'drop' in ex:
            m.enable_auto_repair_drop(et, [p for p in ex['drop'] if p in cfg['props']])
    if case['initial_source']:
        m.add_event_source('/src/a/')
        m.set_event_source('/src/a/')
    chunks, calls = [], []
    for k, op in enumerate(case['ops']):
        if case.get('ignore_at') == k:
            m.ignore_invalid_events()
        try:
            if op[0] == 'add_source':
                m.add_event_source(op[1])
                calls.append(None)
            elif op[0] == 'set_source':
                m.set_event_source(op[1])
                calls.append(None)
            else:
                r = m.process(op[1])
                chunks.append(r if isinstance(r, bytes) else b'')
                calls.append(None)
        except EDXMLError as ex:
            calls.append('edxml:' + type(ex).__name__)
        except Exception as ex:
            calls.append('raised:' + type(ex).__name__)
    late = None
    if case.get('late_bad_source'):
        # a source with an invalid definition is added after the last record: close() refuses; the definition is repaired
        # through the object that add_event_source() returned, and close() is called again
        src = m.add_event_source('/src/late/')
        src.set_description('x' * 200)
        try:
            r = m.close()
            chunks.append(r if isinstance(r, bytes) else b'')
            late = 'first close() accepted an invalid source definition'
        except EDXMLError:
            late = 'refused'
        except Exception as ex:
            late = 'raised:' + type(ex).__name__
        src.set_description('repaired')
    try:
        r = m.close()
        chunks.append(r if isinstance(r, bytes) else b'')
        closed = None
    except Exception as ex:
        closed = type(ex).__name__
    data = out.getvalue() if out is not None else b''.join(chunks)
    events, err = [], None

    class P(EDXMLPullParser):
        def _parsed_event(self, event):
            events.append(gen.event_view(event))
    p = P(validate=True)
    try:
        p.parse(io.BytesIO(data))
    except EDXMLError as ex:
        err = type(ex).__name__ + ': ' + str(ex)[:200]
    except Exception as ex:
        err = 'foreign:' + type(ex).__name__
    o = p.get_ontology()
    res = {'calls': calls, 'closed': closed, 'parse': err, 'events': events, 'n_bytes': len(data),
           'sources': sorted(o.get_event_sources().keys()) if o is not None else None}
    if case.get('late_bad_source'):
        res['late'] = late
    return res


# ---- ObjectTranscoder.generate: which object values a record gives under a property map --------------------

L_KEYS = ['name', 'n', 'flag', 'tags', 'codes', 'sub', 'items', '0', 'deep', 'text', 'none']
L_SCALARS = ['alice', '', ' ', 'é', '-', 0, 1, 7, -3, True, False, None, 'n/a']


def gen_lookup_case(rng):
    def scalar():
        return rng.choice(L_SCALARS)

    def listval():
        # (no booleans next to 0/1: a Python set keeps one of two equal members)
        pool = [x for x in L_SCALARS if not isinstance(x, bool)] if rng.random() < 0.8 else [True, False, 'x', '']
        return [rng.choice(pool) for _ in range(rng.randint(0, 4))]
    rec = {}
    for k in rng.sample(L_KEYS, rng.randint(2, 7)):
        r = rng.random()
        if r < 0.4:
            rec[k] = scalar()
        elif r < 0.6:
            rec[k] = listval()
        elif r < 0.85:
            rec[k] = {kk: (scalar() if rng.random() < 0.6 else listval() if rng.random() < 0.5 else {'leaf': scalar(), '1': scalar()})
                      for kk in rng.sample(['n', 'x', '0', '1', 'inner'], rng.randint(1, 3))}
        else:
            rec[k] = [{'v': scalar()}, {'v': scalar(), 'w': listval()}][:rng.randint(1, 2)]
    # paths that lead to scalars, lists of scalars, or nowhere
    def leaf_paths(v, prefix):
        out = []
        if isinstance(v, dict):
            for k, x in v.items():
                out += leaf_paths(x, prefix + [k])
        elif isinstance(v, list):
            if all(not isinstance(x, (dict, list)) for x in v):
                out.append(prefix)
                for i in range(len(v)):
                    out += [prefix + [str(i)], prefix + [str(i - len(v))]]
            else:
                for i, x in enumerate(v):
                    out += leaf_paths(x, prefix + [str(i)]) + leaf_paths(x, prefix + [str(i - len(v))])
        else:
            out.append(prefix)
            if isinstance(v, str) and v:
                out.append(prefix + ['0'])      # an index into a string gives a character
        return out
    good = ['.'.join(p) for p in leaf_paths(rec, [])]
    bad = ['zz', 'name.zz', 'tags.9', 'tags.-9', 'sub..n', 'sub.n.n.n', 'items.x', '', 'none.n', 'flag.0', 'n.0', 'items.0.v.zz.q']
    sels = []
    for _ in range(rng.randint(1, 6)):
        sel = rng.choice(good) if good and rng.random() < 0.75 else rng.choice(bad)
        found = ref_lookup(rec, sel)
        if isinstance(found, dict) or (isinstance(found, list) and any(isinstance(x, (dict, list)) for x in found)):
            continue        # a dictionary is no object value (it cannot be put into an event)
        if sel not in [x['selector'] for x in sels]:
            sels.append({'selector': sel, 'props': rng.sample(['p', 'q', 'r', 's'], rng.randint(1, 2)),
                         'empty': rng.choice([[], [], ['-'], ['n/a', 0], [None], [' ', 1]])})
    return {'kind': 'lookup', 'record': rec, 'map': sels}


def ref_lookup(rec, selector):
    """The field a dotted path names, by the documented reading: dictionaries by key, lists (and strings) by index, anything
    else or a missing step gives nothing."""
    cur = rec
    for f in selector.split('.'):
        if isinstance(cur, dict):
            cur = cur.get(f)
        elif isinstance(cur, (list, str)) and not isinstance(cur, bool):
            try:
                cur = cur[int(f)]
            except (ValueError, IndexError):
                return None
        else:
            return None
        if cur is None:
            return None
    return cur


def ref_props(case):
    props = {}
    for e in case['map']:
        v = ref_lookup(case['record'], e['selector'])
        if v is None:
            continue
        empty = [''] + list(e['empty'])
        if type(v) == list:
            vals = [x for x in v if x not in empty]
        elif type(v) == bool:
            vals = ['true' if v else 'false']
        else:
            vals = [v] if v not in empty else []
        for p in e['props']:
            props[p] = vals
    return sorted([k, canon_values(set(v))] for k, v in props.items() if v)


def canon_values(vals):
    return sorted(json.dumps([type(v).__name__, v], ensure_ascii=False) for v in vals)


def run_lookup(case):
    from edxml.transcode.object import ObjectTranscoder

    class T(ObjectTranscoder):
        TYPES = ['et']
        TYPE_MAP = {'r': 'et'}
        PROPERTY_MAP = {'et': {e['selector']: (e['props'] if len(e['props']) > 1 else e['props'][0]) for e in case['map']}}
        EMPTY_VALUES = {e['selector']: tuple(e['empty']) for e in case['map'] if e['empty']}
    try:
        events = list(T().generate(case['record'], 'r'))
    except Exception as ex:
        return {'outcome': 'raised:' + type(ex).__name__}
    if len(events) != 1:
        return {'outcome': '%d events' % len(events)}
    props = {k: canon_values(set(v)) for k, v in events[0].get_properties().items() if len(v)}
    return {'outcome': 'ok', 'props': sorted([k, v] for k, v in props.items())}


# ---- the transcoder test harness: a mediator whose output is read back into an event collection ------------

H_NAMES = ['alice', 'bob', 'carol']
H_PARENTS = ['%040x' % i for i in (1, 2, 3)]
H_FOREIGN = [None, '1', 'two']


def gen_harness_case(rng):
    recs = []
    for _ in range(rng.randint(1, 6)):
        recs.append({'type': 'ra', 'name': rng.choice(H_NAMES), 'sub': {'n': rng.choice([0, 7, 255])}, 'flag': rng.choice([True, False]),
                     'tags': rng.sample(['t1', 't2', 't3'], rng.randint(0, 2)), 'items': [],
                     'parent': rng.choice([None] + H_PARENTS), 'fa': rng.choice(H_FOREIGN)})
    return {'kind': 'harness', 'records': recs}


def harness_transcoder():
    from edxml.transcode.object import ObjectTranscoder
    cfg = SETUP['ra']

    class T(ObjectTranscoder):
        TYPES = [cfg['et']]
        TYPE_MAP = {'ra': cfg['et']}
        TYPE_PROPERTIES = {cfg['et']: dict(cfg['props'])}
        TYPE_OPTIONAL_PROPERTIES = {cfg['et']: list(cfg['optional'])}
        TYPE_MULTI_VALUED_PROPERTIES = {cfg['et']: list(cfg['multi'])}
        TYPE_HASHED_PROPERTIES = {cfg['et']: ['name']}
        TYPE_PROPERTY_MERGE_STRATEGIES = {cfg['et']: {'tags': 'add', 'n': 'any', 'flag': 'any', 'first': 'any'}}
        PROPERTY_MAP = {cfg['et']: dict(cfg['map'])}

        def create_object_types(self, ontology):
            for name, dt in OBJECT_TYPES.items():
                ontology.create_object_type(name, data_type=dt)

        def post_process(self, event, input_record):
            # parents and foreign attributes come from the record
            if input_record.get('parent'):
                event.set_parents([input_record['parent']])
            if input_record.get('fa') is not None:
                event.set_foreign_attributes({'{http://foreign.example/ns}x': input_record['fa']})
            yield event
    return T


def run_harness_conflict(case):
    """A transcoder test harness whose first close() is refused by a merge conflict (two instances of one version that differ);
    the offending instance is removed from harness.events and close() is called again."""
    from edxml.ontology import DataType, EventProperty
    from edxml.error import EDXMLMergeConflictError
    from edxml.transcode.object import ObjectTranscoderTestHarness, ObjectTranscoder
    logging.disable(logging.CRITICAL)

    class T(ObjectTranscoder):
        TYPES = ['ev']
        TYPE_MAP = {'rec': 'ev'}
        TYPE_PROPERTIES = {'ev': {'id': 'ot.string', 'tag': 'ot.string', 'v': 'ot.seq'}}
        PROPERTY_MAP = {'ev': {'id': 'id', 'tag': 'tag', 'v': 'v'}}
        TYPE_HASHED_PROPERTIES = {'ev': ['id']}
        TYPE_PROPERTY_MERGE_STRATEGIES = {'ev': {'tag': EventProperty.MERGE_ADD, 'v': EventProperty.MERGE_MAX}}
        TYPE_MULTI_VALUED_PROPERTIES = {'ev': ['tag']}
        TYPE_VERSIONS = {'ev': 'v'}

        def create_object_types(self, ontology):
            ontology.create_object_type('ot.string')
            ontology.create_object_type('ot.seq', data_type=DataType.sequence().get())
    out = {}
    try:
        h = ObjectTranscoderTestHarness(T(), record_selector='type')
        for rec in case['records']:
            h.process_object(dict(rec, type='rec'), close=False)
        try:
            h.close()
            out['first'] = 'accepted'
        except EDXMLMergeConflictError:
            out['first'] = 'conflict'
        for e in [e for e in h.events if e['tag'] == {case['offender']}]:
            h.events.remove(e)
        try:
            h.close()
            out['second'] = 'accepted'
        except Exception as ex:
            out['second'] = 'raised:' + type(ex).__name__
        out['events'] = sorted([e.get_any('id'), sorted(e['tag']), sorted(e['v'])] for e in h.events)
    except Exception as ex:
        out['error'] = type(ex).__name__
    return out


def gen_harness_conflict(rng):
    recs = []
    for name in rng.sample(['a', 'b', 'c'], rng.randint(1, 2)):
        # instances of one logical event under different versions: they merge
        for v in rng.sample([1, 2, 3], rng.randint(1, 3)):
            recs.append({'id': name, 'tag': 'tag%d' % v, 'v': v})
    # two instances of another logical event that share a version and differ
    recs.append({'id': 'z', 'tag': 'keep', 'v': 5})
    recs.append({'id': 'z', 'tag': 'offender', 'v': 5})
    rng.shuffle(recs)
    return {'kind': 'harness-conflict', 'records': recs, 'offender': 'offender'}


def full_view(e):
    v = gen.event_view(e)
    return {'type': v['type'], 'source': v['source'], 'props': v['props'], 'atts': v['atts'], 'parents': v['parents'], 'foreign': v['foreign']}


def run_harness(case):
    """The records through ObjectTranscoderTestHarness, and through the real mediator followed by a parser and
    EventCollection.resolve_collisions(): the harness documents itself as exactly that."""
    from edxml.transcode.object import ObjectTranscoderTestHarness, ObjectTranscoderMediator
    from edxml import EDXMLPullParser, EventCollection
    logging.disable(logging.CRITICAL)
    T = harness_transcoder()
    out = {}
    try:
        h = ObjectTranscoderTestHarness(T(), 'ra')
        for rec in case['records']:
            h.process_object(rec, close=False)
        h.close()
        out['harness'] = sorted((full_view(e) for e in h.events), key=lambda v: json.dumps(v, sort_keys=True))
    except Exception as ex:
        out['harness'] = 'raised:' + type(ex).__name__

    class M(ObjectTranscoderMediator):
        TYPE_FIELD = 'type'
    try:
        buf = io.BytesIO()
        m = M(buf)
        m.register('ra', T())
        m.add_event_source('/test/harness/')
        m.set_event_source('/test/harness/')
        for rec in case['records']:
            m.process(rec)
        m.close()
        coll = EventCollection()

        class P(EDXMLPullParser):
            def _parsed_ontology(self, ontology):
                coll.update_ontology(ontology)

            def _parsed_event(self, event):
                coll.append(event)
        P().parse(io.BytesIO(buf.getvalue()))
        out['mediator'] = sorted((full_view(e) for e in coll.resolve_collisions()), key=lambda v: json.dumps(v, sort_keys=True))
    except Exception as ex:
        out['mediator'] = 'raised:' + type(ex).__name__
    return out


def harness_expected(case):
    """What the records amount to: one logical event per name; tags united, parents united; the rest from one record."""
    by_name = {}
    for rec in case['records']:
        g = by_name.setdefault(rec['name'], {'tags': set(), 'parents': set(), 'n': set(), 'flag': set(), 'fa': []})
        g['tags'].update(rec['tags'])
        if rec.get('parent'):
            g['parents'].add(rec['parent'])
        g['n'].add(str(rec['sub']['n']))
        g['flag'].add('true' if rec['flag'] else 'false')
        g['fa'].append(rec.get('fa'))
    return by_name


# ---- the independent expectation ------------------------------------------------------------------------

def lookup(rec, path):
    cur = rec
    for f in path.split('.'):
        if cur is None:
            return None
        if isinstance(cur, dict):
            cur = cur.get(f)
        elif isinstance(cur, list):
            try:
                cur = cur[int(f)]
            except (ValueError, IndexError):
                return None
        else:
            return None
    return cur


def raw_properties(rt_cfg, rec):
    """What the property map takes from the record (before validation)."""
    props = {}
    for path, prop in rt_cfg['map'].items():
        v = lookup(rec, path)
        if v is None:
            continue
        if isinstance(v, list):
            vals = [x for x in v if x != '']
        elif isinstance(v, bool):
            vals = ['true' if v else 'false']
        else:
            vals = [v] if v != '' else []
        for name in (prop if isinstance(prop, list) else [prop]):
            # every property gets the values of the field; a post processor applies to its own property only
            f = rt_cfg.get('post', {}).get(name)
            props[name] = [y for x in vals for y in POST[f](x)] if f else list(vals)
    return props


def classify(case, rec):
    """(status, expected properties) for a record: 'none' (no event), 'valid' (written as is), 'repairable' (written after
    repair: second element lists acceptable property sets), 'invalid'."""
    from vf.props import c03
    from decimal import Decimal
    rt = rec.get('type')
    if rt in SETUP:
        cfg = SETUP[rt]
        et = cfg['et']
    elif case['fallback']:
        cfg, et = SETUP['ra'], 'type.f'
    else:
        return 'none', None, None
    raw = raw_properties(cfg, rec)
    # values as the event holds them (strings)
    def as_str(v):
        return v if isinstance(v, str) else str(v)
    props = {k: sorted({as_str(v) for v in vs}) for k, vs in raw.items() if vs}
    ok = True
    bad_props = []
    bad_values = {}
    structural = []
    for k, vs in props.items():
        dt = OBJECT_TYPES[cfg['props'][k]]
        for v in vs:
            sv = c03.spec_verdict(dt, None, v)
            if sv is not True:
                ok = False
                bad_props.append(k)
                bad_values.setdefault(k, []).append(v)
        if k not in cfg['multi'] and len(vs) > 1:
            ok = False
            bad_props.append(k)
            structural.append(k)
    for k in cfg['props']:
        if k not in cfg['optional'] and not props.get(k):
            ok = False
            bad_props.append(k)
            structural.append(k)
    return ('valid' if ok else 'invalid'), et, {'props': props, 'bad': sorted(set(bad_props)), 'bad_values': bad_values,
                                                'structural': sorted(set(structural)),
                                                'native': {k: {as_str(v): v for v in vs} for k, vs in raw.items()}}


def sdk_normal_form(dt, v):
    """What the SDK's own normalization makes of one value, when the gate takes the result; None otherwise."""
    from edxml.ontology import DataType
    from vf.props import c03
    try:
        out = sorted(DataType(dt).normalize_objects([v]))
    except Exception:
        return None
    if len(out) == 1 and c03.spec_verdict(dt, None, out[0]) is True:
        return out[0]
    return None


def fully_repaired(case, et, exp):
    """The events that the configured repairs may leave when both are configured for the offending properties: an offending
    value is normalized where normalization gives a valid object, or dropped where it may be dropped (when both are possible
    either may happen: normalization stops at the first value it cannot handle, and what is dropped first depends on which
    property the validator complains about). A list of acceptable property dictionaries; None when some offending value can
    neither be normalized nor dropped, or something mandatory would be lost."""
    import itertools
    norm, drop = effective_repair(case, et)
    cfg = {'type.a': SETUP['ra'], 'type.b': SETUP['rb']}.get(et)
    if cfg is None or not exp['bad'] or exp.get('structural') or not all(b in exp.get('bad_values', {}) for b in exp['bad']):
        return None
    choices = []      # per (property, offending value): the things that may become of it (None = dropped)
    for k, vs in exp['props'].items():
        for v in vs:
            if v not in exp['bad_values'].get(k, []):
                choices.append([(k, v)])
                continue
            nf = sdk_normal_form(OBJECT_TYPES[cfg['props'][k]], exp.get('native', {}).get(k, {}).get(v, v)) if k in norm else None
            alts = ([(k, nf)] if nf is not None else []) + ([(k, None)] if k in drop else [])
            if k not in drop:
                # normalization stops at the first value it cannot handle and the repair loop then only drops: whether a value
                # that can only be normalized gets its turn depends on the order of the properties; nothing is demanded then
                return None
            choices.append(alts)
    if len(choices) > 12:
        return None
    out = []
    for combo in itertools.product(*choices):
        props = {}
        for k, v in combo:
            if v is not None:
                props.setdefault(k, set()).add(v)
        ok = all(k in cfg['optional'] or props.get(k) for k in cfg['props']) and \
            all(k in cfg['multi'] or len(v) <= 1 for k, v in props.items())
        if ok:
            out.append({k: sorted(v) for k, v in props.items()})
    return out or None


def drop_repaired(case, et, exp):
    """The event as the configured drop repair leaves it, when that alone makes it valid: every offending property is one whose
    invalid objects may be dropped (and normalization is not configured for it, so that its outcome is not in question), no
    structural fault, and nothing mandatory is lost. None otherwise."""
    norm, drop = effective_repair(case, et)
    cfg = {'type.a': SETUP['ra'], 'type.b': SETUP['rb']}.get(et)
    if cfg is None or not exp['bad'] or exp.get('structural'):
        return None
    if not all(b in drop and b not in norm and b in exp.get('bad_values', {}) for b in exp['bad']):
        return None
    props = {}
    for k, vs in exp['props'].items():
        keep = [v for v in vs if v not in exp['bad_values'].get(k, [])]
        if keep:
            props[k] = keep
        elif k not in cfg['optional']:
            return None
    return props


def classify_all(case, rec):
    """The events a record gives: a list of (status, event type, expectation); empty without a transcoder."""
    status, et, exp = classify(case, rec)
    if status == 'none':
        return []
    tags = exp['props'].get('tags', [])
    if case.get('multi_yield') and len(tags) > 1:
        out = []
        for t in tags:
            rec2 = dict(rec, tags=[t])
            out.append(classify(case, rec2))
        return out
    return [(status, et, exp)]


class C17(Property):
    id = 'C17'
    title = 'Transcoder mediators always emit one valid, complete EDXML stream'
    design_ref = 'DESIGN.md section 10, C17'
    required_theorems = ('mediator_stream_parses', 'mediator_writes_only_accepted', 'ontology_precedes_events', 'invalid_event_never_written',
                         'skipped_or_raised', 'generated_from_named_fields', 'generateProps_snoc', 'fieldValues_spec')
    level_text = ('Lean 4 theorems over the mediator machine (records -> transcoder events -> writer calls, with the ontology '
                  'written whenever it changed before an event is written, invalid events skipped or raised per configuration), '
                  'composed with the writer and parser machines of C02/C14: for every sequence of records and event source '
                  'registrations the children emitted form a stream that the validating parser reads without error, every event '
                  'is preceded by an ontology element defining its type and source, exactly the events the gate accepted (after '
                  'repair) are written, and an invalid event is either skipped (ignore_invalid_events) or makes the call raise '
                  'while nothing is written. Compared with ObjectTranscoderMediator on generated record sequences (known/unknown '
                  'record types, nested/missing/empty/list/bool fields, values needing normalisation, unrepairable values, '
                  'sources added mid-stream, all configuration combinations, file or bytes output), re-parsing the output with a '
                  'validating parser. The way ObjectTranscoder.generate takes object values from a record is modelled as well '
                  '(dotted paths through dictionaries, lists and strings, negative indexes, missing steps, lists giving their '
                  'members, booleans rendered, empty values dropped, several properties per path, later paths replacing earlier '
                  'ones): whatever a generated event holds for a property are the values of a field that the property map names '
                  'for it (generated_from_named_fields, generateProps_snoc, fieldValues_spec); compared with generate() on '
                  'generated records and property maps.')
    level_note = ('Proof is about the model. Which events a record transcoder generates, and whether the gate accepts an event '
                  'before/after repair, are inputs of the machine (C03, C13 decide the latter); records are JSON-like values '
                  '(objects with attributes, field names that are attributes of builtin types, floats and unusual index '
                  'notations are outside the lookup model).')
    technique = 'Lean 4 proof (simulation: mediator machine -> writer machine -> parser machine, by induction over the record sequence; property dictionary of a record by induction over the property map) + differential correspondence'
    parallel = True
    assumptions = ('record transcoders do not raise',)

    def rule(self):
        return ('cases: (sequence of add_event_source / set_event_source / process(record) calls, configuration bits); observed: '
                'outcome of every call, the concatenated output re-parsed by a validating parser (error, events in order, '
                'sources); non-trivial = at least one written and one rejected event; distinct by content')

    def generate(self, rng, tier):
        for _ in range(150 if tier == 'quick' else 4000):
            yield gen_lookup_case(rng)
        for _ in range(40 if tier == 'quick' else 800):
            yield gen_harness_case(rng)
        for _ in range(15 if tier == 'quick' else 300):
            yield gen_harness_conflict(rng)
        for _ in range(12 if tier == 'quick' else 300):
            # one property that normalization repairs next to one that can only be dropped, both repairs configured
            case = gen_case(rng)
            case.update(repair_normalize=True, repair_drop=True, multi_yield=False)
            case.pop('explicit_repair', None)
            rec = rng.choice([
                {'type': 'ra', 'name': rng.choice(['alice', 'bob']), 'sub': {'n': rng.choice(['x', 256, -1])}, 'flag': 'True',
                 'tags': ['t1'], 'items': []},
                {'type': 'rb', 'title': rng.choice(['alice', 'bob']), 'meta': {'when': '2020-01-01T12:00:00+02:00', 'count': rng.choice(['x', 300])}},
                {'type': 'rb', 'title': 'carol', 'meta': {'when': 'yesterday', 'count': rng.choice([' 7', '007'])}}])
            k = rng.randint(0, len(case['ops']))
            case['ops'] = case['ops'][:k] + [['record', rec]] + case['ops'][k:]
            yield case
        for i in range(200 if tier == 'quick' else 5000):
            case = gen_case(rng)
            if i % 8 == 7:
                # a record that yields several events of which an earlier one is invalid and a later one valid, processed
                # after ignore_invalid_events() was called in mid session (then the mediator, not the writer, skips it)
                case.update(multi_yield=True, ignore_invalid=False, repair_drop=False)
                rec = {'type': 'ra', 'name': rng.choice(['alice', 'bob']), 'sub': {'n': rng.choice([0, 7, 255])}, 'flag': True,
                       'tags': rng.choice([['aaaaaa', 't1'], ['t1', 'mmmmmm', 't9'], ['bbbbbb', 'cccccc', 't2']]), 'items': []}
                k = rng.randint(0, len(case['ops']))
                case['ops'] = case['ops'][:k] + [['record', rec]] + case['ops'][k:]
                case['ignore_at'] = rng.randint(0, k)
            yield case

    def observe(self, case):
        if case.get('kind') == 'lookup':
            return run_lookup(case)
        if case.get('kind') == 'harness-conflict':
            return run_harness_conflict(case)
        if case.get('kind') == 'harness':
            return run_harness(case)
        return run_case(case)

    # -- model: abstract the case into mediator machine ops
    def abstract_ops(self, case):
        """Machine ops + for every record op whether its outcome is decided by the inputs we can classify independently
        (an invalid event with automatic repair configured may or may not be repairable: C13 decides, not this machine)."""
        ops, decided = [], []
        idx = 0
        by_exp = {}
        states = self.source_states(case)
        for n, op in enumerate(case['ops']):
            if op[0] == 'add_source':
                ops.append({'k': 'addSource', 'uri': op[1]})
                decided.append(True)
            elif op[0] == 'set_source':
                ops.append({'k': 'setSource', 'uri': op[1]})
                decided.append(True)
            else:
                evs = classify_all(case, op[1])
                defined, cur = states[n]
                mevs, dec = [], True
                for status, et, exp in evs:
                    idx += 1
                    valid = status == 'valid' and cur in defined
                    mevs.append({'idx': idx, 'type': et, 'valid': valid})
                    dec = dec and (valid or cur not in defined or beyond_repair(case, et, exp))
                    by_exp[idx] = (et, exp)
                ops.append({'k': 'record', 'events': mevs, 'n': n})
                decided.append(dec)
        self._by_exp = by_exp
        return ops, decided

    def requests(self, case):
        if case.get('kind') == 'harness-conflict':
            return []
        if case.get('kind') == 'lookup':
            return [{'op': 'lookup', 'record': [[k, v] for k, v in case['record'].items()],
                     'map': [{'selector': e['selector'], 'props': e['props'], 'empty': [''] + list(e['empty'])} for e in case['map']]}]
        if case.get('kind') == 'harness':
            return []
        types = ['type.a', 'type.b'] + (['type.f'] if case['fallback'] else [])
        ops, _ = self.abstract_ops(case)
        req = {'op': 'mediator', 'types': types, 'ignoreInvalid': case['ignore_invalid'], 'sources': ['/src/a/'], 'cur': '/src/a/',
               'ops': [{k: v for k, v in o.items() if k != 'n'} for o in ops]}
        if case.get('ignore_at') is not None:
            req['ignoreFrom'] = case['ignore_at']
        return [req]

    def predict(self, case, replies):
        if case.get('kind') == 'harness-conflict':
            return 'undecided'
        if case.get('kind') == 'lookup':
            props = {}
            for p, vs in replies[0]['props']:
                if vs:
                    props[p] = canon_values(set(json.dumps(v) for v in vs) and {json.dumps(v): v for v in vs}.values())
            return {'outcome': 'ok', 'props': sorted([k, v] for k, v in props.items())}
        if case.get('kind') == 'harness':
            return 'undecided'
        r = replies[0]
        ops, decided = self.abstract_ops(case)
        calls = [('edxml:EDXMLEventValidationError' if v == 'EDXMLEventValidationError' else None) if d else 'undecided'
                 for v, d in zip(r['verdicts'], decided)]
        all_decided = all(decided)
        by_exp = self._by_exp
        events = 'undecided'
        if all_decided:
            events = []
            for it in r['out']:
                if it[0] == 'event':
                    et, exp = by_exp[it[1]]
                    events.append({'type': et, 'source': it[2], 'props': sorted([k, v] for k, v in exp['props'].items())})
        pred = {'calls': calls, 'closed': None, 'parse': None, 'events': events,
                'sources': sorted(set(r['sources'])) if all_decided else 'undecided'}
        if case.get('late_bad_source'):
            # the refused close() leaves the mediator open; the second one writes the repaired source and ends the document
            pred['late'] = 'refused'
            if pred['sources'] != 'undecided':
                pred['sources'] = sorted(set(pred['sources']) | {'/src/late/'})
        return pred

    def fill_undecided(self, case, obs, pred):
        if pred == 'undecided' or case.get('kind') == 'lookup':
            return obs if pred == 'undecided' else pred
        pred['calls'] = [o if p == 'undecided' else p for o, p in zip(obs['calls'], pred['calls'])]
        if pred['events'] == 'undecided':
            pred['events'] = obs['events']
        else:
            # compare on what the model speaks about
            obs_view = [{'type': e['type'], 'source': e['source'], 'props': e['props']} for e in obs['events']]
            if obs_view == pred['events']:
                pred['events'] = obs['events']
        if pred['sources'] == 'undecided':
            pred['sources'] = obs['sources']
        pred['n_bytes'] = obs['n_bytes']
        return pred

    @staticmethod
    def source_states(case):
        """For each op: (set of defined sources, current output source) at the time of the op."""
        defined, cur, out = {'/src/a/'}, '/src/a/', []
        for op in case['ops']:
            if op[0] == 'add_source':
                defined = defined | {op[1]}
            elif op[0] == 'set_source':
                cur = op[1]
            out.append((set(defined), cur))
        return out

    def oracle(self, case, obs):
        if case.get('kind') == 'harness-conflict':
            if 'error' in obs:
                return 'transcoder test harness: %s' % obs['error']
            if obs['first'] != 'conflict':
                return 'two instances of one event version that differ: close() of the test harness reported no merge conflict'
            if obs['second'] != 'accepted':
                return 'after the offending instance was removed, close() of the test harness %s' % obs['second']
            want = {}
            for r in case['records']:
                if r['tag'] == case['offender']:
                    continue
                g = want.setdefault(r['id'], {'tags': set(), 'v': 0})
                g['tags'].add(r['tag'])
                g['v'] = max(g['v'], r['v'])
            expect = sorted([k, sorted(g['tags']), [str(g['v'])]] for k, g in want.items())
            if obs['events'] != expect:
                return ('after the refused close() and the repair, the test harness holds %s; merging the remaining instances gives %s'
                        % (json.dumps(obs['events']), json.dumps(expect)))
            return None
        if case.get('kind') == 'lookup':
            if obs['outcome'] != 'ok':
                return 'ObjectTranscoder.generate: %s for the record %s' % (obs['outcome'], json.dumps(case['record'], ensure_ascii=False)[:300])
            want = ref_props(case)
            if obs['props'] != want:
                return ('the generated event holds %s, the record fields named in the property map give %s (record %s, map %s)' % (
                    json.dumps(obs['props'], ensure_ascii=False)[:300], json.dumps(want, ensure_ascii=False)[:300],
                    json.dumps(case['record'], ensure_ascii=False)[:300], json.dumps(case['map'], ensure_ascii=False)[:300]))
            return None
        if case.get('kind') == 'harness':
            return self.harness_oracle(case, obs)
        if obs['parse'] is not None:
            return 'a validating parser rejects the output of the mediator: %s' % obs['parse']
        if case.get('late_bad_source'):
            if obs.get('late') != 'refused':
                return 'close() with an invalid source definition pending: %s' % obs.get('late')
            if obs['closed'] is not None:
                return 'close() after the source definition was repaired raised %s' % obs['closed']
            if '/src/late/' not in (obs['sources'] or []):
                return 'the source that was repaired after close() had refused it is missing from the output'
        for op, c in zip(case['ops'], obs['calls']):
            if c is not None and c.startswith('raised:') and not (op[0] == 'record' and not case['initial_source']):
                return 'call %s raised %s' % (json.dumps(op, ensure_ascii=False, default=str)[:200], c[7:])
        # expected events: records whose events are valid as generated are written as generated
        want_min = []      # events that must be present (valid as generated, call did not raise)
        states = self.source_states(case)
        for k, ((op, c), (defined, cur)) in enumerate(zip(zip(case['ops'], obs['calls']), states)):
            if op[0] != 'record':
                continue
            ignoring = case['ignore_invalid'] or (case.get('ignore_at') is not None and k >= case['ignore_at'])
            for status, et, exp in classify_all(case, op[1]):
                if status == 'valid' and cur not in defined:
                    status = 'invalid'      # the event refers to a source that no ontology defines
                    exp = dict(exp, bad=['source-uri'])
                if status == 'valid' and c is None:
                    want_min.append({'type': et, 'source': cur, 'props': sorted([k, v] for k, v in exp['props'].items())})
                if status == 'invalid' and cur in defined and not case.get('multi_yield'):
                    fixed = drop_repaired(case, et, exp)
                    variants = [fixed] if fixed is not None else (None if case.get('explicit_repair') else fully_repaired(case, et, exp))
                    if variants:
                        if c is not None:
                            return ('record %s gives an event that the configured repairs (normalize %s, drop %s) make valid, but process() raised %s' % (
                                json.dumps(op[1], ensure_ascii=False, default=str)[:200], *effective_repair(case, et), c))
                        want_min.append({'type': et, 'source': cur, 'any_of': [sorted([k, v] for k, v in f.items()) for f in variants]})
                if status == 'invalid' and c is None and not ignoring and beyond_repair(case, et, exp):
                    return ('record %s gives an invalid event (%s), invalid events are not ignored and the configured repair (normalize %s, '
                            'drop %s) does not cover that, but process() did not raise' % (
                                json.dumps(op[1], ensure_ascii=False, default=str)[:200], exp['bad'], *effective_repair(case, et)))
        got = [{'type': e['type'], 'source': e['source'], 'props': e['props']} for e in obs['events']]
        # every written event is valid (the validating parser accepted it); the valid-as-generated ones appear in order
        it = iter(got)
        def matches(g, w):
            if 'any_of' in w:
                return g['type'] == w['type'] and g['source'] == w['source'] and g['props'] in w['any_of']
            return g == w
        for w in want_min:
            for g in it:
                if matches(g, w):
                    break
            else:
                return 'the event generated from a valid record is missing from the output (or out of order): %s' % json.dumps(w, ensure_ascii=False)[:300]
        return None

    def harness_oracle(self, case, obs):
        h, m = obs['harness'], obs['mediator']
        if isinstance(h, str):
            return 'the transcoder test harness %s on valid records' % h
        if isinstance(m, str):
            return 'the mediator pipeline %s on valid records' % m
        if h != m:
            return ('the test harness holds other events than the mediator output read back and resolved: %s vs %s'
                    % (json.dumps(h, ensure_ascii=False)[:400], json.dumps(m, ensure_ascii=False)[:400]))
        want = harness_expected(case)
        if len(h) != len(want):
            return 'the harness holds %d logical events, the records describe %d' % (len(h), len(want))
        for ev in h:
            props = dict((k, v) for k, v in ev['props'])
            g = want.get(props.get('name', [None])[0])
            if g is None:
                return 'the harness holds an event that no record describes: %s' % json.dumps(ev, ensure_ascii=False)[:300]
            if sorted(props.get('tags', [])) != sorted(g['tags']):
                return 'tags of %s: %r, the records give %r' % (props['name'], props.get('tags'), sorted(g['tags']))
            if sorted(ev['parents']) != sorted(g['parents']):
                return 'parents of %s: %r, the records give %r' % (props['name'], ev['parents'], sorted(g['parents']))
            fas = [f for f in g['fa'] if f is not None]
            got = [v for k, v in ev['foreign']]
            if (got and got[0] not in fas) or (not got and fas and all(f is not None for f in g['fa'])):
                return 'foreign attributes of %s: %r, the records give %r' % (props['name'], ev['foreign'], g['fa'])
        return None

    def neighbours(self, case, rng):
        if case.get('kind') == 'harness-conflict':
            return []
        if case.get('kind') == 'lookup':
            return [gen_lookup_case(rng) for _ in range(40)]
        if case.get('kind') == 'harness':
            return [gen_harness_case(rng) for _ in range(20)]
        return [gen_case(rng) for _ in range(30)]

    def reductions(self, case):
        if case.get('kind') == 'harness-conflict':
            return
        if case.get('kind') == 'lookup':
            for i in range(len(case['map'])):
                if len(case['map']) > 1:
                    yield dict(case, map=case['map'][:i] + case['map'][i + 1:])
            return
        if case.get('kind') == 'harness':
            recs = case['records']
            for i in range(len(recs)):
                if len(recs) > 1:
                    yield dict(case, records=recs[:i] + recs[i + 1:])
            return
        ops = case['ops']
        for i in range(len(ops)):
            if len(ops) > 1:
                yield dict(case, ops=ops[:i] + ops[i + 1:])

    def nontrivial_obs(self, case, obs):
        if case.get('kind') == 'harness-conflict':
            return json.dumps(case, sort_keys=True)
        if case.get('kind') == 'lookup':
            return json.dumps(case, sort_keys=True) if isinstance(obs, dict) and obs.get('props') else None
        if case.get('kind') == 'harness':
            names = [r['name'] for r in case['records']]
            return json.dumps(case, sort_keys=True) if len(names) != len(set(names)) else None
        if not isinstance(obs, dict) or not obs.get('events'):
            return None
        rejected = any(status == 'invalid' for op in case['ops'] if op[0] == 'record' for status, _et, _exp in classify_all(case, op[1]))
        rejected = rejected or any(c is not None for c in obs.get('calls', []))
        return json.dumps(case, sort_keys=True, default=str) if rejected else None

    def sample_view(self, case):
        if case.get('kind') in ('harness', 'lookup', 'harness-conflict'):
            return case
        return {'calls': [op[0] for op in case['ops']], 'ignore_invalid': case['ignore_invalid'], 'fallback': case['fallback']}


PROPERTY = C17()
