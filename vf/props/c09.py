"""C09 - version comparison of ontology definitions is a consistent order."""
import json

from vf.core import Property
from vf import ontgen as G

OPS = ['eq', 'ne', 'lt', 'gt']


def apply_op(op, a, b):
    from edxml.error import EDXMLOntologyValidationError
    try:
        if op == 'eq':
            return bool(a == b)
        if op == 'ne':
            return bool(a != b)
        if op == 'lt':
            return bool(a < b)
        return bool(a > b)
    except EDXMLOntologyValidationError:
        return 'EDXMLOntologyValidationError'
    except Exception as ex:
        return 'foreign:' + type(ex).__name__


# ---- whole ontologies ---------------------------------------------------------------------------------------------

BRICK_OT = dict(G.base_objecttype(), name='brick.ot')
BRICK_C = dict(G.base_concept(), name='brick.c')
_BRICK = []


def register_brick():
    """An ontology brick offering one object type and one concept, registered with the Ontology class once per process (as
    programs that use brick packages do when they are imported)."""
    if _BRICK:
        return
    from edxml.ontology import Ontology, Brick

    class VfBrick(Brick):
        @classmethod
        def generate_object_types(cls, target_ontology):
            yield G.build_objecttype(target_ontology, BRICK_OT)

        @classmethod
        def generate_concepts(cls, target_ontology):
            yield G.build_concept(target_ontology, BRICK_C)
    Ontology.register_brick(VfBrick)
    _BRICK.append(VfBrick)


def run_ontologies(case):
    """Every ordered pair of the ontologies compared with == (twice) and !=; serialization and change counter of every
    ontology before and after."""
    from vf.props import c11
    from lxml import etree
    register_brick()
    onts = []
    for spec, brick in zip(case['onts'], case['brick']):
        try:
            o = c11.build_ontology(spec)
            if brick:
                G.build_objecttype(o, BRICK_OT)
                G.build_concept(o, BRICK_C)
            o.validate()
        except Exception:
            return {'unbuildable': True}
        onts.append(o)
    before = [(etree.tostring(o.generate_xml()), o.get_version()) for o in onts]
    word = {True: 'equal', False: 'different', 'EDXMLOntologyValidationError': 'conflict'}
    first = [[word.get(apply_op('eq', a, b), apply_op('eq', a, b)) for b in onts] for a in onts]
    second = [[word.get(apply_op('eq', a, b), apply_op('eq', a, b)) for b in onts] for a in onts]
    ne = [[apply_op('ne', a, b) for b in onts] for a in onts]
    after = [(etree.tostring(o.generate_xml()), o.get_version()) for o in onts]

    def shared_conflict(a, b):
        # some definition both ontologies hold is in conflict with its counterpart (the element comparison raises)
        for getter in ('get_object_types', 'get_concepts', 'get_event_types', 'get_event_sources'):
            da, db = getattr(a, getter)(), getattr(b, getter)()
            for name in da:
                if name in db and apply_op('eq', da[name], db[name]) == 'EDXMLOntologyValidationError':
                    return '%s %s' % (getter[4:-1].replace('_', ' '), name)
        return None
    hidden = [[i, j, shared_conflict(a, b)] for i, a in enumerate(onts) for j, b in enumerate(onts)
              if first[i][j] != 'conflict' and shared_conflict(a, b)]
    return {'hidden': hidden, 'eq': first, 'again': second == first, 'ne_consistent': all(
        (n == 'EDXMLOntologyValidationError') if e == 'conflict' else (n is (e != 'equal')) for er, nr in zip(first, ne) for e, n in zip(er, nr)),
        'pure': before == after, 'same_xml': [[x[0] == y[0] for y in before] for x in before]}


# ---- the base ontology check of the transcoder test harness (a whole-ontology comparison through another door) ----

BASE_EDITS = ['none', 'ot-description', 'ot-description-newer', 'ot-datatype', 'ot-datatype-newer', 'et-description',
              'et-description-newer', 'prop-merge', 'prop-merge-newer', 'extra-concept', 'extra-objecttype', 'enum-replaced',
              'enum-extended-newer', 'without-source', 'without-unused-objecttype']


def harness_base(edit):
    """(base ontology, transcoder class): the base is the transcoder's own ontology after one edit."""
    from vf.props import c17
    from edxml.transcode.object import ObjectTranscoderTestHarness
    from edxml.ontology import DataType
    T = c17.harness_transcoder()
    h = ObjectTranscoderTestHarness(T(), 'ra')
    h.process_object({'type': 'ra', 'name': 'alice', 'sub': {'n': 1}, 'flag': True, 'tags': [], 'items': []}, close=False)
    h.close()
    from lxml import etree
    from edxml.ontology import Ontology
    doc = etree.fromstring('<edxml xmlns="http://edxml.org/edxml" version="3.0.0"/>')
    doc.append(h.events.ontology.generate_xml())
    base = Ontology.create_from_xml(etree.fromstring(etree.tostring(doc))[0])
    ot = base.get_object_type('o.tag')
    et = base.get_event_type('type.a')
    newer = edit.endswith('-newer')
    if edit.startswith('ot-description'):
        ot.set_description('another description')
    elif edit.startswith('ot-datatype'):
        ot.set_data_type(DataType('string:5:mc:u'))
    elif edit.startswith('et-description'):
        et.set_description('another description')
    elif edit.startswith('prop-merge'):
        et['first'].set_merge_strategy('set' if et['first'].get_merge_strategy() != 'set' else 'any')
        et['first'].make_multivalued()
    elif edit == 'extra-concept':
        base.create_concept('extra.concept')
    elif edit == 'extra-objecttype':
        base.create_object_type('extra.ot')
    elif edit == 'without-source':
        # the base ontology lacks a definition the transcoder's ontology has: comparing must not bring it in
        base.delete_event_source('/test/harness/')
    elif edit == 'without-unused-objecttype':
        base.delete_object_type('o.dt')
    elif edit == 'enum-replaced':
        base.get_object_type('o.bool').set_data_type(DataType('enum:true:falsy'))
    elif edit == 'enum-extended-newer':
        base.get_object_type('o.bool').set_data_type(DataType('string:0:mc:u'))
    if newer:
        (et if edit.startswith(('et-', 'prop-')) else (base.get_object_type('o.bool') if edit.startswith('enum') else ot)).set_version(2)
    return base, T


def run_harness_base(edit):
    from edxml.transcode.object import ObjectTranscoderTestHarness
    from edxml.error import EDXMLOntologyValidationError
    from lxml import etree
    import logging
    logging.disable(logging.CRITICAL)
    try:
        base, T = harness_base(edit)
    except Exception as ex:
        return {'skipped': 'setup:' + type(ex).__name__}
    before = etree.tostring(base.generate_xml())
    # what the comparison operators say about every pair of definitions the two ontologies share
    h0 = ObjectTranscoderTestHarness(T(), 'ra')
    h0.process_object({'type': 'ra', 'name': 'alice', 'sub': {'n': 1}, 'flag': True, 'tags': [], 'items': []}, close=False)
    h0.close()
    gen_o = h0.events.ontology
    incompatible = False
    for getter in ('get_object_types', 'get_concepts', 'get_event_types', 'get_event_sources'):
        a, b = getattr(base, getter)(), getattr(gen_o, getter)()
        for name in set(a) & set(b):
            if isinstance(apply_op('eq', a[name], b[name]), str):
                incompatible = True
    try:
        h = ObjectTranscoderTestHarness(T(), 'ra', base_ontology=base)
        h.process_object({'type': 'ra', 'name': 'alice', 'sub': {'n': 1}, 'flag': True, 'tags': [], 'items': []}, close=False)
        h.close()
        outcome = 'accepted'
    except EDXMLOntologyValidationError:
        outcome = 'rejected'
    except Exception as ex:
        outcome = 'raised:' + type(ex).__name__
    after = etree.tostring(base.generate_xml())
    return {'outcome': outcome, 'pairs_incompatible': incompatible, 'base_untouched': before == after}


def expected_ops(c):
    """Outcome of ==, !=, <, > given the model's comparison result."""
    if c == 'incompat':
        return {op: 'EDXMLOntologyValidationError' for op in OPS}
    return {'eq': c == 'eq', 'ne': c != 'eq', 'lt': c == 'lt', 'gt': c == 'gt'}


def roundtrip(kind, o, e):
    """The element parsed back from the serialised ontology, for root element kinds."""
    from edxml.ontology import Ontology
    from lxml import etree
    if kind not in ('concept', 'source', 'objecttype', 'eventtype'):
        return None
    xml = etree.fromstring(etree.tostring(o.generate_xml()).replace(b'<ontology', b'<ontology xmlns="http://edxml.org/edxml"', 1))
    o2 = Ontology()
    o2.update(xml, validate=False)
    if kind == 'concept':
        return o2.get_concept(e.get_name())
    if kind == 'source':
        return o2.get_event_source(e.get_uri())
    if kind == 'objecttype':
        return o2.get_object_type(e.get_name())
    return o2.get_event_type(e.get_name())


class C09(Property):
    id = 'C09'
    title = 'Version comparison of ontology definitions is a consistent order'
    design_ref = 'DESIGN.md section 10, C09'
    required_theorems = (
        'cmp_refl', 'cmp_antisymm', 'cmp_antisymm_all_kinds', 'ontEq_symm', 'ontEq_refl', 'ontEq_equal_same', 'eq_same_definition_all_kinds', 'upgrade_trans_objecttype',
        'upgrade_trans_flat_kinds', 'upgrade_trans_property',
    )
    level_text = ('Lean 4 theorems over the model of the ten __cmp__ methods (one generic skeleton, per-kind flag '
                  'functions): comparison is reflexive, cmp b a is the flip of cmp a b for every pair of definitions of '
                  'every kind (so older/newer mirror each other, equality is symmetric, incompatibility is reported '
                  'from both sides), definitions that compare equal have equal attributes and sub-elements, and '
                  'accepted upgrades compose. The model is compared with ==, !=, <, > of the real classes in both '
                  'argument orders on pairs and triples drawn from variation lattices of every element kind.')
    level_note = ('Proof is about the model; element validation inside __cmp__ is assumed to pass (generated definitions '
                  'are valid); the Ontology-level comparison answers only equal/different by design and is compared for '
                  '== / != symmetry only; serialisation order of sub-elements follows insertion order and is held fixed.')
    technique = 'Lean 4 proof (generic versioned-comparison scheme, symmetry/transitivity per element kind) + differential correspondence'
    parallel = True
    assumptions = ('both definitions pass their own validate()',)

    def rule(self):
        return ('cases: element kind x triple of definitions from a variation lattice (base, variation, variation of '
                'variation: free/frozen/monotone attribute changes, sub-element additions/removals, version bumps 0..2); '
                'observed: ==, !=, <, > for all 9 ordered pairs incl. exception kind, serialisations before/after, '
                'round-trip equality; non-trivial = at least two distinct definitions; distinct by content')

    def generate(self, rng, tier):
        n = 60 if tier == 'quick' else 1500
        for edit in BASE_EDITS:
            yield {'kind': 'harness-base', 'edit': edit, 'defs': []}
        from vf.props import c11
        for i in range(80 if tier == 'quick' else 2000):
            # whole ontologies derived from a common ancestor (some definitions missing, upgraded or edited incompatibly),
            # some of them holding the definitions that a registered brick offers
            fam = c11.gen_upgrade_chain(rng) if i % 4 == 3 else c11.gen_family(rng)[0]
            if i % 2 == 1:
                # two more object types and a concept in every ontology, each varied on its own (a valid upgrade of one next
                # to an incompatible edit of another: every pair of definitions has to be looked at)
                bases = [['objecttype', dict(G.base_objecttype(), name='o.x1')], ['objecttype', dict(G.base_objecttype(), name='o.x2')],
                         ['concept', dict(G.base_concept(), name='c.x')]]
                for o in fam:
                    o['extra'] = []
                    for kind, b in bases:
                        s = json.loads(json.dumps(b))
                        for _ in range(rng.choice([0, 1, 1, 2])):
                            s = G.vary(rng, kind, s)
                        o['extra'].append([kind, s])
            yield {'kind': 'ontologies', 'onts': fam, 'brick': [rng.random() < 0.5 for _ in fam], 'defs': []}
        for i in range(10 if tier == 'quick' else 200):
            # an object type with a unit whose prefix radix is the default, written out or left out, next to another radix
            a = G.base_objecttype()
            a['dataType'] = 'number:int'
            a['free']['unit-name'], a['free']['unit-symbol'] = 'meter', 'm'
            b = json.loads(json.dumps(a))
            b['free']['prefix-radix'] = 10
            c = json.loads(json.dumps(a))
            c['free']['prefix-radix'] = rng.choice([2, 60, None, 10])
            c['version'] = rng.choice([1, 2])
            yield {'kind': 'objecttype', 'defs': [a, b, c]}
        for i in range(6 if tier == 'quick' else 100):
            # a relation whose confidence is the default, left out (create_relation without a confidence) or written out,
            # next to another confidence; as a definition of its own and inside an event type
            kind = ['relation', 'eventtype'][i % 2]
            a = G.base_of(kind)
            b = json.loads(json.dumps(a))
            c = json.loads(json.dumps(a))
            if kind == 'eventtype':
                for s_ in (a, b, c):
                    s_['relations'] = [G.base_relation('p', 'q')]
                    G.fix_relations(s_)
            ra, rb, rc = [(s_['def'] if kind == 'relation' else s_['relations'][0]) for s_ in (a, b, c)]
            ra['free']['confidence'], rb['free']['confidence'] = None, 10
            rc['free']['confidence'] = rng.choice([None, 10, 3])
            ver = 'etVersion' if kind == 'relation' else 'version'
            c[ver] = c[ver] + rng.choice([0, 1])
            yield {'kind': kind, 'defs': [a, b, c]}
        import zlib
        for i in range(8 if tier == 'quick' else 60):
            # history: an event type that was compared becomes timeful (gains its first datetime property) or timeless (loses
            # it) through the mapping interface of the event type (et[name] = EventProperty(...), del et[name]); it must then
            # compare like a freshly built definition
            a = G.base_of('eventtype')
            dt = G.base_prop('when', 'o.dt')
            dt['optional'] = True
            b = json.loads(json.dumps(a))
            b['props'].append(dt)
            b['version'] = a['version'] + rng.choice([0, 1])
            if i % 2:
                a, b = b, a
                b['version'] = a['version'] + rng.choice([0, 1])
            while zlib.crc32(json.dumps(b, sort_keys=True).encode()) % 2 != 1:
                b['free']['description'] += '.'
            yield {'kind': 'eventtype', 'defs': [b, b, a], 'mutated_from': a}
        for kind in G.KINDS:
            for i in range(n if kind != 'eventtype' else 2 * n):
                a = G.base_of(kind)
                for _ in range(rng.randint(0, 2)):
                    a = G.vary(rng, kind, a)
                b = G.vary(rng, kind, a)
                c = G.vary(rng, kind, b if rng.random() < 0.7 else a)
                yield {'kind': kind, 'defs': [a, b, c]}
            # history: a definition that was compared, then changed through the public mutators,
            # must behave like a freshly built one
            for i in range(n // 2):
                a = G.base_of(kind)
                for _ in range(rng.randint(0, 2)):
                    a = G.vary(rng, kind, a)
                b = G.vary(rng, kind, a)
                yield {'kind': kind, 'defs': [b, b, a], 'mutated_from': a}

    def observe(self, case):
        kind = case['kind']
        if kind == 'harness-base':
            return run_harness_base(case['edit'])
        if kind == 'ontologies':
            return run_ontologies(case)
        from edxml.error import EDXMLOntologyValidationError
        try:
            built = [G.build(kind, s) for s in case['defs']]
        except EDXMLOntologyValidationError:
            # the ontology refuses to hold the generated definition (a prefix radix without a unit, say): no case
            return {'skipped': True}
        for _o, e in built:
            # a generated definition that is not valid by itself (a time span property that is no datetime, say) is no case:
            # comparing validates its operands
            try:
                e.validate()
            except Exception:
                return {'skipped': True}
        if case.get('mutated_from') is not None:
            a = case['mutated_from']
            o, e = G.build(kind, a)
            fresh_o, fresh = G.build(kind, a)
            apply_op('eq', e, fresh)
            apply_op('lt', fresh, e)
            G.xml_of(e)
            # ... and was looked at through its read-only getters (whatever they memoise has to follow the changes below)
            for getter in ('is_timeless', 'get_hashed_properties', 'get_properties', 'get_property_relations', 'get_attachments',
                           'get_version_property_name', 'get_timespan_property_name_start', 'get_unique_properties',
                           'get_mandatory_property_names', 'get_singular_property_names'):
                if hasattr(e, getter):
                    try:
                        getattr(e, getter)()
                    except Exception:
                        pass
            try:
                o.validate()
            except Exception:
                pass
            try:
                G.apply_delta(kind, e, a, case['defs'][0], o)
                built[0] = (o, e)
            except G.Unsupported:
                pass
        elems = [e for _o, e in built]
        before = [G.xml_of(e) for e in elems]
        ops = [[{op: apply_op(op, a, b) for op in OPS} for b in elems] for a in elems]
        after = [G.xml_of(e) for e in elems]
        rt = []
        for (o, e) in built:
            try:
                r = roundtrip(kind, o, e)
                rt.append(None if r is None else [apply_op('eq', e, r), apply_op('eq', r, e)])
            except Exception as ex:
                rt.append('foreign:' + type(ex).__name__)
        return {'ops': ops, 'pure': before == after, 'same_xml': [[x == y for y in before] for x in before],
                'roundtrip': rt}

    def requests(self, case):
        if case['kind'] == 'harness-base':
            return []
        if case['kind'] == 'ontologies':
            from vf.props import c11

            def m_ont(o, brick):
                m = {mkey: ([G.model_def(kind, o[slot])] if o.get(slot) else []) for slot, kind, mkey in c11.SLOTS}
                for kind, s in o.get('extra', []):
                    m[{'objecttype': 'objectTypes', 'concept': 'concepts'}[kind]].append(G.model_def(kind, s))
                if brick:
                    m['objectTypes'] = m['objectTypes'] + [G.model_def('objecttype', BRICK_OT)]
                    m['concepts'] = m['concepts'] + [G.model_def('concept', BRICK_C)]
                return m
            return [{'op': 'onteq', 'onts': [m_ont(o, b) for o, b in zip(case['onts'], case['brick'])]}]
        return [{'op': 'cmp', 'kind': case['kind'], 'defs': [G.model_def(case['kind'], s) for s in case['defs']]}]

    def predict(self, case, replies):
        if case['kind'] == 'harness-base':
            return 'undecided'
        if case['kind'] == 'ontologies':
            eq = replies[0]['eq']
            return {'hidden': [], 'eq': eq, 'again': True, 'ne_consistent': True, 'pure': True, 'same_xml': 'undecided'}
        m = replies[0]['cmp']
        kind = case['kind']
        defs = case['defs']
        xml_key = [json.dumps(G.norm_spec(kind, s)['def'] if 'def' in s else G.norm_spec(kind, s), sort_keys=True) for s in defs]
        root = kind in ('concept', 'source', 'objecttype', 'eventtype')
        return {'ops': [[expected_ops(c) for c in row] for row in m], 'pure': True,
                'same_xml': [[x == y for y in xml_key] for x in xml_key],
                'roundtrip': [[True, True] if root else None for _ in defs]}

    def fill_undecided(self, case, obs, pred):
        if pred == 'undecided' or (isinstance(obs, dict) and (obs.get('unbuildable') or obs.get('skipped'))):
            return obs
        if isinstance(pred, dict) and pred.get('same_xml') == 'undecided':
            pred['same_xml'] = obs.get('same_xml')
        return pred

    def oracle(self, case, obs):
        if case['kind'] == 'harness-base':
            if 'skipped' in obs:
                return None
            what = 'transcoder test harness with a base ontology (edit %s)' % case['edit']
            if obs['outcome'].startswith('raised:'):
                return '%s: close() raised %s' % (what, obs['outcome'][7:])
            if not obs['base_untouched']:
                return '%s: comparing modified the base ontology' % what
            if obs['pairs_incompatible'] and obs['outcome'] != 'rejected':
                return '%s: a pair of definitions is in conflict, but the harness accepted the base ontology' % what
            if not obs['pairs_incompatible'] and obs['outcome'] != 'accepted':
                return '%s: every pair of shared definitions is equal or a valid upgrade, but the harness rejected the base ontology' % what
            return None
        if case['kind'] == 'ontologies':
            if obs.get('unbuildable'):
                return None
            if not obs['pure']:
                return 'comparing ontologies modified an operand (serialisation or change counter changed)'
            if not obs['again']:
                return 'comparing the same ontologies a second time gives another answer'
            if not obs['ne_consistent']:
                return '!= is not the negation of == for a pair of ontologies'
            if obs.get('hidden'):
                i, j, what = obs['hidden'][0]
                return ('ontologies %d and %d: their definitions of %s are in conflict (comparing them raises), but comparing the '
                        'ontologies answers %r' % (i, j, what, obs['eq'][i][j]))
            eq = obs['eq']
            for i in range(len(eq)):
                if eq[i][i] != 'equal':
                    return 'ontology %d does not compare equal to itself: %r' % (i, eq[i][i])
                for j in range(len(eq)):
                    if eq[i][j] != eq[j][i]:
                        return 'ontologies %d and %d: == answers %r from one side and %r from the other' % (i, j, eq[i][j], eq[j][i])
                    if eq[i][j] == 'equal' and not obs['same_xml'][i][j]:
                        return 'ontologies %d and %d compare equal but serialize differently' % (i, j)
            return None
        if obs.get('skipped'):
            return None
        ops = obs['ops']
        n = len(ops)
        if not obs['pure']:
            return 'comparing modified an operand (serialisation changed)'
        for i in range(n):
            if ops[i][i] != {'eq': True, 'ne': False, 'lt': False, 'gt': False}:
                return 'definition %d does not compare equal to itself: %r' % (i, ops[i][i])
            if obs['roundtrip'][i] not in (None, [True, True]):
                return 'definition %d does not equal its own XML round trip: %r' % (i, obs['roundtrip'][i])
        raised = lambda r: any(isinstance(v, str) for v in r.values())
        for i in range(n):
            for j in range(n):
                a, b = ops[i][j], ops[j][i]
                if raised(a) != raised(b):
                    return 'pair (%d,%d) is rejected from one side only: %r vs %r' % (i, j, a, b)
                if raised(a):
                    if not all(isinstance(v, str) for v in a.values()):
                        return 'pair (%d,%d): some operators raise and others do not: %r' % (i, j, a)
                    continue
                if a['eq'] != b['eq'] or a['lt'] != b['gt'] or a['gt'] != b['lt'] or a['ne'] == a['eq']:
                    return 'pair (%d,%d) is not antisymmetric: %r vs %r' % (i, j, a, b)
                if a['eq'] and not obs['same_xml'][i][j]:
                    return 'definitions %d and %d compare equal but serialize differently' % (i, j)
        if case.get('mutated_from') is not None and n >= 2 and case['defs'][0] == case['defs'][1]:
            # definition 0 reached its state through the public mutators, definition 1 was built that way: equal definitions
            # are interchangeable in every comparison
            for j in range(n):
                if ops[0][j] != ops[1][j] or ops[j][0] != ops[j][1]:
                    return ('a definition that was read, compared and then changed through the public interface compares differently '
                            'than a freshly built definition of the same content (against definition %d): %r vs %r' % (j, ops[0][j], ops[1][j]))
        for i in range(n):
            for j in range(n):
                for k in range(n):
                    if ops[i][j].get('lt') is True and ops[j][k].get('lt') is True and ops[i][k].get('lt') is not True:
                        return 'upgrades do not compose: %d<%d and %d<%d but %d<%d is %r' % (i, j, j, k, i, k, ops[i][k])
        return None

    def neighbours(self, case, rng):
        out = []
        if case['kind'] == 'harness-base':
            return [{'kind': 'harness-base', 'edit': e, 'defs': []} for e in BASE_EDITS]
        if case['kind'] == 'ontologies':
            return []
        if case['kind'] == 'objecttype':
            # an extension in several steps: put the definitions in between into the triple (upgrades must compose)
            for a in case['defs']:
                for c in case['defs']:
                    ra, rc = a.get('regexHard'), c.get('regexHard')
                    if ra and rc and rc.startswith(ra + '|') and '|' in rc[len(ra) + 1:]:
                        cut = rc.index('|', len(ra) + 1)
                        m = json.loads(json.dumps(c))
                        m['regexHard'] = rc[:cut]
                        m['version'] = a['version'] + 1
                        c2 = json.loads(json.dumps(c))
                        c2['version'] = max(c['version'], a['version'] + 2)
                        out.append({'kind': 'objecttype', 'defs': [a, m, c2]})
                    da, dc = a.get('dataType', ''), c.get('dataType', '')
                    if da.startswith('enum:') and dc.startswith(da + ':') and ':' in dc[len(da) + 1:]:
                        cut = dc.index(':', len(da) + 1)
                        m = json.loads(json.dumps(c))
                        m['dataType'] = dc[:cut]
                        m['version'] = a['version'] + 1
                        c2 = json.loads(json.dumps(c))
                        c2['version'] = max(c['version'], a['version'] + 2)
                        out.append({'kind': 'objecttype', 'defs': [a, m, c2]})
        for _ in range(40):
            a = case['defs'][0]
            b = G.vary(rng, case['kind'], a)
            out.append({'kind': case['kind'], 'defs': [a, b, G.vary(rng, case['kind'], b)]})
        return out

    def reductions(self, case):
        if len(case['defs']) > 2:
            for i in range(len(case['defs'])):
                c = json.loads(json.dumps(case))
                del c['defs'][i]
                yield c

    def nontrivial(self, case):
        if case['kind'] == 'harness-base':
            return json.dumps(case, sort_keys=True) if case['edit'] != 'none' else None
        if case['kind'] == 'ontologies':
            return json.dumps(case, sort_keys=True)
        keys = {json.dumps(s, sort_keys=True) for s in case['defs']}
        if len(keys) < 2:
            return None
        return json.dumps(case, sort_keys=True)


PROPERTY = C09()
