"""C03 - the validation gate decides exactly EDXML event validity, whatever the history."""
import base64
import binascii
import io
import json
import random
import re
import unicodedata
from decimal import Decimal, InvalidOperation

from vf.core import Property
from vf import gen

EDXML_NS = 'http://edxml.org/edxml'

# ---- the data type grid ----------------------------------------------------------------------------

INT_KINDS = {'tinyint': 8, 'smallint': 16, 'mediumint': 24, 'int': 32, 'bigint': 64}
DT_GRID = (
    ['datetime', 'sequence', 'uuid', 'boolean', 'ip:v4', 'ip:v6', 'geo:point', 'file', 'uri:/', 'uri:.']
    + ['number:%s%s' % (k, s) for k in INT_KINDS for s in ('', ':signed')]
    + ['number:%s%s' % (k, s) for k in ('float', 'double') for s in ('', ':signed')]
    + ['number:decimal:%d:%d%s' % (t, f, s) for t, f in ((5, 2), (3, 0), (1, 0), (10, 3), (2, 1), (19, 4), (8, 7))
       for s in ('', ':signed')]
    + ['number:currency']
    + ['hex:1', 'hex:2', 'hex:4', 'hex:20', 'hex:6:2:-', 'hex:4:2:.', 'hex:4:2::', 'hex:4:4:-', 'hex:3:1:|',
       'hex:4:1:+', 'hex:4:2:x', 'hex:2:1:\\', 'hex:2:1:*', 'hex:2:1:?', 'hex:4:2:(', 'hex:4:2:[', 'hex:2:1:a', 'hex:2:1:^',
       'hex:2:1:$', 'hex:2:1:{', 'hex:4:1:&', 'hex:2:1:#', 'hex:2:1:~', 'hex:2:1:%', 'hex:2:1:!', 'hex:2:1:<',
       'hex:2:1:"', "hex:2:1:'", 'hex:2:1:/', 'hex:2:1:=', 'hex:2:1:@', 'hex:2:1:]', 'hex:2:1:}', 'hex:2:1:)', 'hex:2:1:é']
    + ['string:%d:%s%s' % (n, c, f) for n in (0, 1, 3, 255) for c in ('mc', 'lc', 'uc') for f in ('', ':u', ':r', ':ru')]
    + ['base64:0', 'base64:1', 'base64:3', 'base64:4', 'base64:10']
    + ['enum:a:b', 'enum:yes', 'enum:a:ab:abc', 'enum:A:a', 'enum:true:false:x-y']
)
# anyURI as libxml2 parses it is not modelled: only plain relative references and a few fixed URIs are in the domain
URI_DOMAIN = r'[a-z0-9/][a-z0-9/.-]*|[a-z]+:[a-z0-9/][a-z0-9/.-]*'
REGEXES = [None, None, '[a-z]+', 'a.c', r'\d{3}', '(ab|cd)*', '[A-Z][a-z]*', 'a', '.*b.*', r'[^a]+']


def family(dt):
    return dt.split(':')[0]


# ---- independent statement of the value spaces (the catalogue's verdicts) ------------------------------

def _is_ascii_digits(s):
    return len(s) > 0 and all(c in '0123456789' for c in s)


def spec_verdict(dt, regex, v):
    """True / False where the value space of the EDXML data type decides the value, None where it is
    deliberately left open (see DESIGN.md C03: surrounding whitespace, lexical variants of xs:unsignedLong,
    float range, anyURI)."""
    sp = dt.split(':')
    fam = sp[0]
    if fam in ('uri', 'file'):
        return True if re.fullmatch(URI_DOMAIN, v) else None
    if fam == 'string':
        n, case = int(sp[1]), sp[2]
        uni = len(sp) > 3 and 'u' in sp[3]
        if len(v) < 1 or (n > 0 and len(v) > n):
            return False
        if not uni and any(ord(c) > 255 for c in v):
            return False
        cats = [unicodedata.category(c) for c in v]
        if case == 'lc' and 'Lu' in cats:
            return False
        if case == 'uc' and 'Ll' in cats:
            return False
        if regex is not None and not re.fullmatch(regex, v):
            return False
        return True
    if fam == 'boolean':
        return v in ('true', 'false')
    if fam == 'enum':
        return v in sp[1:]
    if v != v.strip(' \t\n\r') or v == '':
        return None if v != '' else False
    if fam == 'sequence':
        if _is_ascii_digits(v) and str(int(v)) == v:
            return int(v) < 2 ** 64
        if re.fullmatch(r'[+-]?[0-9]+', v):
            return None if int(v) in range(0, 2 ** 64) else False
        return False
    if fam == 'number':
        kind = sp[1]
        signed = sp[-1] == 'signed'
        if kind in INT_KINDS:
            if not re.fullmatch(r'-?[0-9]+', v) or str(int(v)) != v:
                return False
            bits = INT_KINDS[kind]
            if signed:
                lo, hi = -(2 ** (bits - 1)), 2 ** (bits - 1) - 1
                if kind == 'mediumint':
                    lo = -(2 ** 23) + 1
            else:
                lo, hi = 0, 2 ** bits - 1
            return lo <= int(v) <= hi
        if kind in ('float', 'double'):
            m = re.fullmatch(r'([+-]?)(\d+)(\.\d+)?(E[+-](\d+))?', v)
            if not m or not v.isascii():
                return False
            if m.group(5) and int(m.group(5)) > 30:
                return None
            if len(m.group(2)) > 30:
                return None
            neg = m.group(1) == '-' and Decimal(v) != 0
            return signed or not neg
        if kind in ('decimal', 'currency'):
            if kind == 'currency':
                total, frac, signed = 19, 4, True
            else:
                total, frac = int(sp[2]), int(sp[3])
            pat = r'(-?)(0|[1-9][0-9]*)' + (r'\.([0-9]{%d})' % frac if frac else '()')
            m = re.fullmatch(pat, v)
            if not m or not v.isascii():
                return False
            d = Decimal(v)
            if m.group(1) and (d == 0 or not signed):
                return False
            # XML schema counts the digits of the value: trailing fractional zeros do not count
            ip, fp = m.group(2).lstrip('0'), (m.group(3) or '').rstrip('0')
            return max(1, len(ip) + len(fp)) <= total
    if fam == 'hex':
        n = int(sp[1])
        if len(sp) == 2:
            return re.fullmatch('[0-9a-f]{%d}' % (2 * n), v) is not None
        g = int(sp[2])
        sep = sp[3] if sp[3] != '' else ':'
        groups = n // g
        want = sep.join(['x' * (2 * g)] * groups)
        if len(v) != len(want):
            return False
        return all((c == w) if w != 'x' or False else (c in '0123456789abcdef') for c, w in zip(v, want)) \
            if sep not in 'x' else None
    if fam == 'uuid':
        return re.fullmatch('[0-9a-f]{8}-[0-9a-f]{4}-[0-9a-f]{4}-[0-9a-f]{4}-[0-9a-f]{12}', v) is not None
    if fam == 'ip':
        if sp[1] == 'v4':
            parts = v.split('.')
            return len(parts) == 4 and all(_is_ascii_digits(p) and str(int(p)) == p and int(p) < 256 for p in parts)
        parts = v.split(':')
        return len(parts) == 8 and all(re.fullmatch('[0-9a-f]{4}', p) is not None for p in parts)
    if fam == 'geo':
        m = re.fullmatch(r'(-?)(0|[1-9][0-9]*)\.([0-9]{6}),(-?)(0|[1-9][0-9]*)\.([0-9]{6})', v)
        if not m or not v.isascii():
            return False
        lat = Decimal(m.group(2) + '.' + m.group(3))
        lon = Decimal(m.group(5) + '.' + m.group(6))
        if lat > 90 or lon > 180:
            return False
        if lat == 90:
            # the poles have one representation
            return lon == 0 and m.group(4) == ''
        if lon == 180:
            return m.group(4) == ''
        return True
    if fam == 'datetime':
        m = re.fullmatch(r'(\d{4})-(\d\d)-(\d\d)T(\d\d):(\d\d):(\d\d)\.(\d{6})Z', v)
        if not m or not v.isascii():
            return False
        y, mo, d, h, mi, s = (int(m.group(i)) for i in range(1, 7))
        if y < 1583 or not 1 <= mo <= 12 or h > 23 or mi > 59 or s > 59:
            return False
        leap = (y % 4 == 0 and y % 100 != 0) or y % 400 == 0
        dim = [31, 29 if leap else 28, 31, 30, 31, 30, 31, 31, 30, 31, 30, 31][mo - 1]
        return 1 <= d <= dim
    if fam == 'base64':
        n = int(sp[1])
        if not re.fullmatch(r'[A-Za-z0-9+/]*={0,2}', v) or len(v) % 4:
            return False
        try:
            raw = base64.b64decode(v, validate=True)
        except (binascii.Error, ValueError):
            return False
        if base64.b64encode(raw).decode() != v:
            return False   # non-canonical padding bits
        return len(raw) >= 1 and (n == 0 or len(raw) <= n)
    return None


# ---- boundary value catalogue ----------------------------------------------------------------------

def int_values(bits, signed, medium):
    out = set()
    lo, hi = (-(2 ** (bits - 1)), 2 ** (bits - 1) - 1) if signed else (0, 2 ** bits - 1)
    if medium and signed:
        lo += 1
    for x in (lo, hi, lo - 1, hi + 1, lo + 1, hi - 1, 0, 1, -1, 9, 10, 99, 100, hi * 10, 2 ** 64, -(2 ** 63) - 1):
        out.add(str(x))
    out |= {'-0', '+1', '01', '00', '', '1.0', '1e3', '0x10', '١', '1 ', ' 1', '1 2', '--1', '-', '1-', 'a', '1a', '-01'}
    return out


CATALOGUE = {
    'datetime': ['2020-02-29T23:59:59.999999Z', '2021-02-29T00:00:00.000000Z', '1583-01-01T00:00:00.000000Z',
                 '1582-12-31T23:59:59.999999Z', '9999-12-31T23:59:59.999999Z', '10000-01-01T00:00:00.000000Z',
                 '2020-01-01T24:00:00.000000Z', '2020-01-01T23:60:00.000000Z', '2020-01-01T23:59:60.000000Z',
                 '2020-01-01T00:00:00.00000Z', '2020-01-01T00:00:00.0000000Z', '2020-01-01T00:00:00Z',
                 '2020-01-01T00:00:00.000000', '2020-01-01T00:00:00.000000+00:00', '2020-01-01T00:00:00+01:00Z',
                 '2020-01-01 00:00:00.000000Z', '2020-04-31T00:00:00.000000Z', '2020-04-30T00:00:00.000000Z',
                 '1900-02-29T00:00:00.000000Z', '2000-02-29T00:00:00.000000Z', '2020-00-10T00:00:00.000000Z',
                 '2020-13-10T00:00:00.000000Z', '2020-01-00T00:00:00.000000Z', '2020-01-32T00:00:00.000000Z',
                 '2020-1-01T00:00:00.000000Z', '-2020-01-01T00:00:00.000000Z', '2020-01-01T00:00:00,000000Z',
                 '2020-01-01T00:00:00.00000ZZ', '2020-01-01t00:00:00.000000z', '1600-01-01T00:00:00.000000Z',
                 '1599-12-31T00:00:00.000000Z', '1590-06-15T12:30:30.123456Z', '1589-06-15T12:30:30.123456Z',
                 '0999-01-01T00:00:00.000000Z', '2020-01-01T00:00:0a.000000Z', '2020-01-01T00:0a:00.000000Z', ''],
    'sequence': ['0', '1', '18446744073709551615', '18446744073709551616', '-1', '9', '10', '12345678901234567890',
                 '99999999999999999999', 'a', '', '1.0', '1e3', '1 2', '0x1', '١'],
    'uuid': ['01234567-89ab-cdef-0123-456789abcdef', '01234567-89AB-cdef-0123-456789abcdef',
             '0123456789abcdef0123456789abcdef', '01234567-89ab-cdef-0123-456789abcde', '01234567-89ab-cdef-0123-456789abcdeff',
             '01234567-89ab-cdef-0123-456789abcdeg', '01234567x89ab-cdef-0123-456789abcdef', '01234567-89ab-cdef-0123456789abcdef-',
             '', '-' * 36],
    'boolean': ['true', 'false', 'True', 'FALSE', '1', '0', '', 'yes', 'truefalse', 'tru'],
    'ip:v4': ['0.0.0.0', '255.255.255.255', '256.0.0.0', '1.2.3', '1.2.3.4.5', '01.2.3.4', '1.2.3.04', '1.2.3.4', '1a2b3c4',
              '1.2.3.', '.1.2.3', '1..2.3', '192.168.1.1', '199.199.199.199', '200.249.250.255', '1.2.3.256', '1.2.3.300',
              '1.2.3.1000', '10.0.0.00', '1.2.3.-4', '', '1.2.3.a', '1111', '1.2.3.4 ', '127.0.0.1', '100.100.100.100', '99.9.0.10'],
    'ip:v6': ['0000:0000:0000:0000:0000:0000:0000:0000', 'ffff:ffff:ffff:ffff:ffff:ffff:ffff:ffff', '::1',
              'FFFF:ffff:ffff:ffff:ffff:ffff:ffff:ffff', '0000:0000:0000:0000:0000:0000:0000', '0000:0000:0000:0000:0000:0000:0000:0000:0000',
              '0000:0000:0000:0000:0000:0000:0000:000', '0000:0000:0000:0000:0000:0000:0000:00000', '0000:0000:0000:0000:0000:0000:0000:000g',
              '2001:0db8:0000:0000:0000:ff00:0042:8329', '2001:db8::ff00:42:8329', '0000-0000-0000-0000-0000-0000-0000-0000', ''],
    'geo:point': ['0.000000,0.000000', '90.000000,0.000000', '-90.000000,0.000000', '90.000000,1.000000', '90.000001,0.000000',
                  '89.999999,180.000000', '89.999999,-180.000000', '89.999999,179.999999', '-89.999999,-179.999999',
                  '0.000000,180.000001', '0.000000,181.000000', '91.000000,0.000000', '0.00000,0.000000', '0.000000,0.0000000',
                  '0,0', '1.5,2.5', '01.000000,0.000000', '0.000000,001.000000', '52.123456,4.123456', '-0.000000,-0.000000',
                  '90.000000,-0.000000', '90.000000,0.000001', '0.000000;0.000000', '0.000000,0.000000,0.000000', '0.000000',
                  '45x000000,0.000000', '45.000000,90x000000', '-90x000000,0.000000', '-90.000000,0x000000', '100.000000,0.000000',
                  '9.000000,99.000000', '10.000000,100.000000', '89.000000,170.999999', '0.000000,180.000000', '', ','],
    'file': ['a', 'path/to/file.txt', 'c:/x', 'x.y'],
    'uri:/': ['a', 'http://example.com/a/b', 'a/b/c', 'urn:x:y'],
    'uri:.': ['a.b.c', 'a'],
}
FLOAT_VALUES = ['0', '1', '-1', '+1', '1.5', '-1.5', '1E+5', '1E-5', '-1E+5', '1.000000E+000', '-0.000000E+000', '-0', '-0.0',
                '1e5', '1E5', '.5', '5.', 'NaN', 'INF', '-INF', '+INF', 'inf', '', '1.5.5', '1E+', 'E+5', '1E+5.5', '1,5', '0x1p3',
                '-0.000001E+000', '-0.000000E+005', '00', '001.5', '1.5E+05', '١', '٣.٥', '1E+٥', 'a', '--1', '+-1', '1 ', '1 E+5',
                '12345678901234567890', '-12345678901234567890.5E-10', '9.999999E+030']
B64_VALUES = ['YQ==', 'YWE=', 'YWFh', 'YWFhYQ==', 'YR==', 'YWF=', 'YQ', 'YQ=', 'Y', '=', '====', 'YQ===', 'Y Q==', 'YQ==\n', 'Y!==',
              '', 'AAAA', '////', '++++', 'AA==', 'AAA=', 'AAB=', 'AAC=', 'AAE=', 'AQ==', 'AB==', 'AA=A', 'A===', 'YWFhYWFhYWFhYQ==',
              'YWFhYWFhYWFhYWE=', 'YWFhYWE=', 'YWFhY-==', 'YWFhY_==', 'ｙQ==', 'YWJj', 'YWJjZA==', 'YWJjZGU=']
STRING_VALUES = ['a', 'A', 'aB', 'abc', 'ABC', 'abcd', 'ABCD', '', ' ', '  ', ' a ', 'a b', 'a\nb', 'a\tb', 'é', 'É', 'ÿ', 'Ā', 'ā', 'λ', 'Λ',
                 'я', 'Я', '€', '1', '123', '1a', '1A', 'ǅ', 'ß', '\U0001F600', 'a\U0001F600', 'abC', 'acb', 'abb', 'axc', 'a.c', 'abcdab',
                 'cdab', 'abab', 'Abc', 'ab' * 127 + 'a', 'ab' * 128, 'x' * 255, 'x' * 256, 'Ab' + 'c' * 253, '<&>', ']]>', '"\'', 'ǆ', 'Ǆ',
                 'İ', 'ı', 'ǈ', 'ᾈ', 'ⅰ', 'Ⅰ', 'ⓐ', 'Ⓐ', 'ａ', 'Ａ', '𝐀', '𝐚', 'À', 'à', '×', '÷', 'µ']


def catalogue_for(dt):
    sp = dt.split(':')
    fam = sp[0]
    if dt in CATALOGUE:
        return list(CATALOGUE[dt])
    if fam == 'number':
        if sp[1] in INT_KINDS:
            return sorted(int_values(INT_KINDS[sp[1]], sp[-1] == 'signed', sp[1] == 'mediumint'))
        if sp[1] in ('float', 'double'):
            return list(FLOAT_VALUES)
        if sp[1] == 'currency':
            total, frac = 19, 4
        else:
            total, frac = int(sp[2]), int(sp[3])
        out = set()
        ipmax = max(total - frac, 0)
        for ip in ['0', '1', '9', '10', '9' * max(ipmax, 1), '1' + '0' * max(ipmax - 1, 0), '9' * (ipmax + 1), '1' + '0' * ipmax,
                   '9' * (ipmax + 2), '00', '01', '', '12']:
            for fp in ['0' * frac, '9' * frac, '0' * max(frac - 1, 0) + '1' if frac else '', '5' + '0' * max(frac - 1, 0) if frac else '',
                       '0' * (frac + 1), '0' * max(frac - 1, 0), '']:
                for sign in ['', '-', '+']:
                    out.add(sign + ip + ('.' + fp if fp != '' else ''))
                    if fp == '':
                        out.add(sign + ip + '.')
        out |= {'', 'a', '1e2', '1,0', '٣', '1.٣٣', '1 ', ' 1', '--1', '1.0.0', '.', '-.', '-'}
        return sorted(out)
    if fam == 'hex':
        n = int(sp[1])
        if len(sp) == 2:
            base = ('0123456789abcdef' * 8)[:2 * n]
            return [base, base.upper(), base[:-1], base + '0', base[:-1] + 'g', base[:-1] + 'F', '', ' ' + base, base[:-1] + '-',
                    'a' * (2 * n), 'A' * (2 * n), base[:-2], base + '00', '٣' * (2 * n)]
        g = int(sp[2])
        sep = sp[3] if sp[3] != '' else ':'
        groups = n // g
        digits = ('0123456789abcdef' * 8)
        gs = [digits[i * 2 * g:(i + 1) * 2 * g] for i in range(groups)]
        good = sep.join(gs)
        out = [good, good.upper(), ''.join(gs), good + sep, sep + good, good[:-1], good + '0', good[:-1] + 'g', '', sep,
               sep.join(gs[:-1]), sep.join(gs + [gs[0]])]
        for other in ['-', ':', '.', 'X', 'a', '0', '|', ' ', '']:
            if other != sep:
                out.append(other.join(gs))
        if groups > 1:
            out.append(sep.join(gs[:-1]) + sep + sep + gs[-1])
            out.append(gs[0] + (sep + sep).join(gs[1:]) if groups > 2 else gs[0] + sep + sep + gs[1])
            out.append(gs[0][:-1] + sep + gs[0][-1:] + sep.join(gs[1:]))
        return sorted(set(out))
    if fam == 'string':
        return list(STRING_VALUES)
    if fam == 'base64':
        return list(B64_VALUES)
    if fam == 'enum':
        vals = sp[1:]
        return sorted(set(vals + [v.upper() for v in vals] + [v + ' ' for v in vals] + [' ' + v for v in vals]
                          + ['', ':'.join(vals), vals[0] + vals[-1], vals[0][:-1], 'zz', ' ', vals[0] + ':']))
    return ['a']


def in_domain(dt, v):
    """Values the model speaks about: legal XML character data; no surrounding XML whitespace outside the string
    family; for uri/file only plain URI characters."""
    if any((ord(c) < 32 and c not in '\t\n') or 0xD800 <= ord(c) <= 0xDFFF or ord(c) in (0xFFFE, 0xFFFF) for c in v):
        return False
    fam = family(dt)
    if fam in ('string', 'enum', 'boolean'):
        return True
    if fam in ('uri', 'file'):
        return re.fullmatch(URI_DOMAIN, v) is not None
    if v != v.strip(' \t\n\r'):
        return False
    if fam == 'sequence' and re.fullmatch(r'[+-]?[0-9]+', v) and not (v.isdigit() and str(int(v)) == v):
        # xs:unsignedLong lexical variants (sign, zero padding): modelled, see acceptsSequence
        return True
    if dt.startswith('number:float') or dt.startswith('number:double'):
        m = re.fullmatch(r'[+-]?(\d+)(\.\d+)?(E[+-](\d+))?', v)
        if m and ((m.group(4) and int(m.group(4)) > 30) or len(m.group(1)) > 30):
            return False
    return True


def mutate_value(rng, v, alphabet):
    if not v or rng.random() < 0.1:
        return v + rng.choice(alphabet)
    i = rng.randrange(len(v))
    r = rng.random()
    if r < 0.35:
        return v[:i] + rng.choice(alphabet) + v[i + 1:]
    if r < 0.6:
        return v[:i] + v[i + 1:]
    if r < 0.85:
        return v[:i] + rng.choice(alphabet) + v[i:]
    return v[:i] + v[i:].swapcase()


ALPHABET = list('0123456789abcdefABCDEFxXgGzZ.-+:,|TZE= /') + ['é', 'Ā', '٣']
B64ALPHA = 'ABCDEFGHIJKLMNOPQRSTUVWXYZabcdefghijklmnopqrstuvwxyz0123456789+/'


# ---- ontology and event construction ---------------------------------------------------------------

def build_ontology(et, o=None, name='t'):
    from edxml.ontology import Ontology
    if o is None:
        o = Ontology()
        o.create_event_source('/s/')
    t = o.create_event_type(name)
    for i, p in enumerate(et['props']):
        otn = 'o.%s.%s' % (name, p['name'])
        ot = o.create_object_type(otn, data_type=p['dt'])
        if p.get('regex') is not None:
            ot.set_regex_hard(p['regex'])
        pr = t.create_property(p['name'], otn)
        pr.set_optional(p['optional'])
        pr.set_multi_valued(p['multivalued'])
    for a in et.get('atts', []):
        at = t.create_attachment(a['name'])
        if a['base64']:
            at.set_encoding_base64()
    return o


def extract_def(o, name):
    """The gate-relevant part of the current definition of an event type, read through public getters."""
    t = o.get_event_type(name)
    if t is None:
        return None
    props = []
    for pn, p in t.get_properties().items():
        ot = o.get_object_type(p.get_object_type_name())
        props.append({'name': pn, 'dt': ot.get_data_type().get(), 'regex': ot.get_regex_hard(),
                      'optional': bool(p.is_optional()), 'multivalued': bool(p.is_multi_valued())})
    atts = [{'name': an, 'base64': bool(a.is_base64_string())} for an, a in t.get_attachments().items()]
    return {'props': props, 'atts': atts}


def document(o_xml_list_and_events):
    """Serialise [('ont', ontology) | ('event', spec)] items into an EDXML document by hand (no SDK writer)."""
    from lxml import etree
    root = etree.Element('{%s}edxml' % EDXML_NS, nsmap={None: EDXML_NS}, version='3.0.0')
    for kind, x in o_xml_list_and_events:
        if kind == 'ont':
            root.append(etree.fromstring(etree.tostring(x.generate_xml())))
        else:
            ev = gen.build_parsed_event(x)
            root.append(etree.fromstring(etree.tostring(ev)))
    return etree.tostring(root)


def parser_verdicts(doc, n_events):
    """Feed a document to a validating pull parser; verdict per event: accepted events are delivered; the first
    rejected one raises EDXMLEventValidationError (later events are then undecided -> None)."""
    from edxml import EDXMLPullParser
    from edxml.error import EDXMLEventValidationError

    seen = []

    class P(EDXMLPullParser):
        def _parsed_event(self, event):
            seen.append(True)

    p = P()
    try:
        p.parse(io.BytesIO(doc))
        return seen + [None] * (n_events - len(seen))
    except EDXMLEventValidationError:
        return seen + [False] + [None] * (n_events - len(seen) - 1)
    except Exception as ex:
        return seen + ['err:' + type(ex).__name__] + [None] * (n_events - len(seen) - 1)


SORT_FAULTS = ['none', 'attachment-without-id', 'empty-object', 'empty-attachment', 'two-empty-objects']
SORT_ET = {'atts': [{'base64': False, 'name': 'a0'}],
           'props': [{'dt': 'string:0:mc:u', 'multivalued': True, 'name': 'p0', 'optional': False, 'regex': None},
                     {'dt': 'string:0:mc:u', 'multivalued': False, 'name': 'p1', 'optional': False, 'regex': None}]}


def sortgate_verdicts(xfault):
    """Verdict of a validating writer on a parsed event with an XML level defect, without and with sort=True."""
    from lxml import etree
    from edxml import EDXMLWriter
    from edxml.error import EDXMLEventValidationError
    ns = '{http://edxml.org/edxml}'
    out = {}
    for sort in (False, True):
        o = build_ontology(SORT_ET)
        e = gen.build_event({'type': 't', 'source': '/s/', 'props': [['p0', ['x', 'b']], ['p1', ['y']]],
                             'atts': [['a0', [['id1', 'text'], ['id0', 'more']]]]}, 'parsed')
        props, atts = e.find(ns + 'properties'), e.find(ns + 'attachments')
        if xfault == 'attachment-without-id':
            del atts[0].attrib['id']
        elif xfault == 'empty-object':
            etree.SubElement(props, ns + 'p0')
        elif xfault == 'two-empty-objects':
            etree.SubElement(props, ns + 'p0')
            etree.SubElement(props, ns + 'p0')
        elif xfault == 'empty-attachment':
            atts[0].text = None
        try:
            w = EDXMLWriter(io.BytesIO())
            w.add_ontology(o)
            w.add_event(e, sort=sort)
            w.close()
            v = 'accepted'
        except EDXMLEventValidationError:
            v = 'EDXMLEventValidationError'
        except Exception as ex:
            v = 'foreign:' + type(ex).__name__
        out['sorted' if sort else 'plain'] = v
    return out


def writer_verdict(o, ev, rep, sort=False):
    from edxml import EDXMLWriter
    from edxml.error import EDXMLEventValidationError
    try:
        e = gen.build_event(ev, rep)
    except Exception:
        return None
    try:
        buf = io.BytesIO()
        w = EDXMLWriter(buf)
        w.add_ontology(o)
        if sort:
            w.add_event(e, sort=True)      # the less used way: components sorted into normal form order
        else:
            w.add_event(e)
        w.close()
        return True
    except EDXMLEventValidationError:
        return False
    except Exception as ex:
        return 'err:' + type(ex).__name__


def point_verdicts(o, ev, points=None):
    """Verdict of every observation point x representation on one event. None = the representation cannot hold
    the event (its constructor refuses it)."""
    from edxml.event_validator import EventValidator
    out = {}
    for rep in ('plain', 'element', 'parsed'):
        try:
            e = gen.build_event(ev, rep)
        except Exception:
            out[rep + ':build'] = None
            continue
        try:
            out[rep + ':validator'] = bool(EventValidator(o).is_valid(e))
        except Exception as ex:
            out[rep + ':validator'] = 'err:' + type(ex).__name__
        try:
            out[rep + ':event'] = bool(e.is_valid(o))
        except Exception as ex:
            out[rep + ':event'] = 'err:' + type(ex).__name__
        out[rep + ':writer'] = writer_verdict(o, ev, rep)
        out[rep + ':writer-sorted'] = writer_verdict(o, ev, rep, sort=True)
    try:
        out['parser'] = parser_verdicts(document([('ont', o), ('event', ev)]), 1)[0]
    except Exception as ex:
        out['parser'] = 'doc:' + type(ex).__name__
    return out


def summarise(points):
    """(verdict, list of dissenting points). The verdict is the validator's on the plain event."""
    vals = {k: v for k, v in points.items() if v is not None}
    if not vals:
        return None, []
    ref = vals.get('plain:validator', next(iter(vals.values())))
    return ref, sorted('%s=%s' % (k, v) for k, v in vals.items() if v != ref)


def str_info(et, ev):
    """Character-class facts and hard-regex verdicts the model takes as input for string objects."""
    rows = []
    if et is None:
        return rows
    for pn, objs in ev['props']:
        p = next((p for p in et['props'] if p['name'] == pn), None)
        if p is None or family(p['dt']) != 'string':
            continue
        for v in objs:
            cats = [unicodedata.category(c) for c in v]
            rx = None
            if p.get('regex') is not None:
                rx = re.fullmatch(p['regex'], v) is not None
            rows.append([pn, v, 'Lu' in cats, 'Ll' in cats, all(ord(c) < 256 for c in v), rx])
    return rows


def model_et(et):
    return {'props': [{'name': p['name'], 'dt': p['dt'], 'optional': p['optional'], 'multivalued': p['multivalued']}
                      for p in et['props']], 'atts': [dict(a) for a in et.get('atts', [])]}


# ---- structural cases ------------------------------------------------------------------------------

GOOD_VALUE = {
    'string:0:mc:u': ['x', 'y', 'z'], 'number:tinyint': ['1', '2', '3'], 'boolean': ['true', 'false'],
    'datetime': ['2020-01-01T00:00:00.000000Z', '2021-01-01T00:00:00.000000Z'], 'ip:v4': ['1.2.3.4', '4.3.2.1'],
    'enum:a:b': ['a', 'b'], 'hex:2': ['00ff', 'abcd'], 'number:decimal:5:2': ['1.00', '2.50'], 'uuid':
    ['01234567-89ab-cdef-0123-456789abcdef', '11234567-89ab-cdef-0123-456789abcdef'],
}
BAD_VALUE = {
    'string:0:mc:u': '', 'number:tinyint': '256', 'boolean': 'True', 'datetime': '2020-01-01T00:00:00Z', 'ip:v4': '1.2.3',
    'enum:a:b': 'c', 'hex:2': '00FF', 'number:decimal:5:2': '1.0', 'uuid': 'x',
}


STRUCT_REGEXES = [None, None, '[xy]', 'x|y|z', '[a-y]+', 'z']


def good_values(p):
    pool = GOOD_VALUE[p['dt']]
    if p.get('regex') is not None:
        pool = [v for v in pool if re.fullmatch(p['regex'], v)]
    return pool


def gen_event_type(rng):
    dts = list(GOOD_VALUE) + ['string:0:mc:u'] * 3
    props = []
    for i in range(rng.randint(1, 4)):
        dt = rng.choice(dts)
        props.append({'name': 'p%d' % i, 'dt': dt, 'regex': rng.choice(STRUCT_REGEXES) if dt.startswith('string') else None,
                      'optional': rng.random() < 0.5, 'multivalued': rng.random() < 0.5})
    atts = [{'name': 'a%d' % i, 'base64': rng.random() < 0.5} for i in range(rng.randint(0, 2))]
    return {'props': props, 'atts': atts}


def valid_event(rng, et, name='t'):
    props = []
    for p in et['props']:
        pool = good_values(p)
        if (p['optional'] and rng.random() < 0.4) or not pool:
            continue
        k = rng.randint(1, len(pool)) if p['multivalued'] else 1
        props.append([p['name'], rng.sample(pool, k)])
    ev = {'type': name, 'source': '/s/', 'props': props}
    atts = []
    for a in et.get('atts', []):
        if rng.random() < 0.6:
            n = rng.randint(1, 2)
            atts.append([a['name'], [['id%d' % i, rng.choice(['YQ==', 'YWFhYQ==', 'YWJj']) if a['base64'] else rng.choice(['text', 'x', ' y '])]
                                     for i in range(n)]])
    if atts:
        ev['atts'] = atts
    if rng.random() < 0.3:
        ev['parents'] = sorted(rng.sample(['%040x' % i for i in (1, 2, 0xabcdef)], rng.randint(1, 2)))
    if rng.random() < 0.3:
        ev['foreign'] = [['{http://some/ns}attr', 'v']]
    return ev


FAULTS = ['none', 'undeclared-property', 'missing-mandatory', 'repeat-single', 'bad-object', 'undeclared-attachment',
          'empty-attachment', 'bad-base64', 'noncanonical-base64', 'empty-attachment-id', 'long-attachment-id', 'short-parent',
          'uppercase-parent', 'nonhex-parent', 'parent-separator', 'foreign-no-namespace', 'foreign-edxml-namespace', 'unknown-type',
          'no-properties', 'optional-absent', 'all-multivalued-full', 'attachment-id-40', 'regex-mismatch']


def apply_fault(rng, et, ev, fault):
    """Returns the mutated event or None when the fault does not apply to this event type."""
    ev = json.loads(json.dumps(ev))
    props = {p['name']: p for p in et['props']}
    if fault == 'none':
        return ev
    if fault == 'undeclared-property':
        ev['props'].append(['zz', ['1']])
        return ev
    if fault == 'missing-mandatory':
        m = [p for p in et['props'] if not p['optional']]
        if not m:
            return None
        gone = rng.choice(m)['name']
        ev['props'] = [pv for pv in ev['props'] if pv[0] != gone]
        return ev
    if fault == 'repeat-single':
        s = [p for p in et['props'] if not p['multivalued'] and len(good_values(p)) > 1]
        if not s:
            return None
        p = rng.choice(s)
        ev['props'] = [pv for pv in ev['props'] if pv[0] != p['name']] + [[p['name'], good_values(p)[:2]]]
        return ev
    if fault == 'bad-object':
        pv = rng.choice(ev['props']) if ev['props'] else None
        if pv is None:
            return None
        pv[1][rng.randrange(len(pv[1]))] = BAD_VALUE[props[pv[0]]['dt']]
        pv[1][:] = sorted(set(pv[1]))
        return ev
    if fault == 'regex-mismatch':
        cands = [p for p in et['props'] if p.get('regex') and [v for v in GOOD_VALUE[p['dt']] if not re.fullmatch(p['regex'], v)]]
        if not cands:
            return None
        p = rng.choice(cands)
        bad = rng.choice([v for v in GOOD_VALUE[p['dt']] if not re.fullmatch(p['regex'], v)])
        ev['props'] = [pv for pv in ev['props'] if pv[0] != p['name']] + [[p['name'], [bad]]]
        return ev
    if fault == 'undeclared-attachment':
        ev.setdefault('atts', []).append(['zz', [['i', 'x']]])
        return ev
    if fault in ('empty-attachment', 'bad-base64', 'noncanonical-base64', 'empty-attachment-id', 'long-attachment-id', 'attachment-id-40'):
        want64 = fault in ('bad-base64', 'noncanonical-base64')
        cands = [a for a in et.get('atts', []) if a['base64'] or not want64]
        if not cands:
            return None
        a = rng.choice(cands)
        good = 'YWJj' if a['base64'] else 'text'
        val = {'empty-attachment': '', 'bad-base64': 'YW!j', 'noncanonical-base64': 'YR=='}.get(fault, good)
        aid = {'empty-attachment-id': '', 'long-attachment-id': 'i' * 41, 'attachment-id-40': 'i' * 40}.get(fault, 'id')
        ev['atts'] = [x for x in ev.get('atts', []) if x[0] != a['name']] + [[a['name'], [[aid, val]]]]
        return ev
    if fault == 'short-parent':
        ev['parents'] = ['0' * 39]
        return ev
    if fault == 'uppercase-parent':
        ev['parents'] = ['A' * 40]
        return ev
    if fault == 'nonhex-parent':
        ev['parents'] = ['g' * 40]
        return ev
    if fault == 'parent-separator':
        ev['parents'] = ['0' * 40 + ';' + '1' * 40]
        return ev
    if fault == 'foreign-no-namespace':
        ev['foreign'] = [['attr', 'v']]
        return ev
    if fault == 'foreign-edxml-namespace':
        ev['foreign'] = [['{%s}attr' % EDXML_NS, 'v']]
        return ev
    if fault == 'unknown-type':
        ev['type'] = 'unknown.type'
        return ev
    if fault == 'no-properties':
        ev['props'] = []
        return ev
    if fault == 'optional-absent':
        opt = [p['name'] for p in et['props'] if p['optional']]
        ev['props'] = [pv for pv in ev['props'] if pv[0] not in opt]
        return ev
    if fault == 'all-multivalued-full':
        for p in et['props']:
            if p['multivalued']:
                ev['props'] = [pv for pv in ev['props'] if pv[0] != p['name']] + [[p['name'], list(good_values(p))]]
        return ev
    return None


def struct_oracle(et, ev, known_type=True):
    """Independent statement of structural validity + value spaces (None = not decided)."""
    if not known_type:
        return False
    props = {p['name']: p for p in et['props']}
    for pn, objs in ev['props']:
        if pn not in props:
            return False
        for v in objs:
            sv = spec_verdict(props[pn]['dt'], props[pn].get('regex'), v)
            if sv is None:
                return None
            if not sv:
                return False
    have = gen.props_dict(ev)
    for p in et['props']:
        n = len(set(have.get(p['name'], [])))
        if not p['optional'] and n < 1:
            return False
        if not p['multivalued'] and n > 1:
            return False
    atts = {a['name']: a for a in et.get('atts', [])}
    for an, items in ev.get('atts', []):
        if an not in atts:
            return False
        for aid, val in items:
            if not 1 <= len(aid) <= 40:
                return False
            if atts[an]['base64']:
                sv = spec_verdict('base64:0', None, val)
                if not sv:
                    return False
            elif val == '':
                return False
    for par in ev.get('parents', []):
        if not re.fullmatch('[0-9a-f]{40}', par):
            return False
    for k, _v in ev.get('foreign', []):
        if not k.startswith('{') or k.startswith('{%s}' % EDXML_NS):
            return False
    return True


# ---- histories -------------------------------------------------------------------------------------

def gen_history(rng, length):
    """Abstract history over event types 't' and 'u': list of steps.
    ['define', name, et]            create the event type from scratch (replacing an existing one)
    ['upgrade', name, how, seed]    change the definition in place through public mutators
    ['clear', pad]                  Ontology.clear(); pad: afterwards mutate until the counter reaches a value at
                                    which the validator was used before (the counter restarts from zero)
    ['validate', rep, event]        event generated from the definition as last defined (may be stale: fine)
    ['validate-generated', rep, name, seed]  event generated at run time from the current definition"""
    steps = []
    et = gen_event_type(rng)
    steps.append(['define', 't', et])
    cur = {'t': et}
    for _ in range(length):
        r = rng.random()
        if r < 0.35:
            name = rng.choice(sorted(cur))
            ev = valid_event(rng, cur[name], name)
            fault = rng.choice(['none', 'none', 'missing-mandatory', 'repeat-single', 'bad-object', 'undeclared-property', 'optional-absent'])
            steps.append(['validate', rng.choice(['plain', 'element', 'parsed']), apply_fault(rng, cur[name], ev, fault) or ev])
        elif r < 0.5:
            steps.append(['validate-generated', rng.choice(['plain', 'element', 'parsed']), rng.choice(sorted(cur)), rng.randint(0, 10 ** 6)])
        elif r < 0.8:
            how = rng.choice(['toggle-optional', 'toggle-multivalued', 'add-property', 'remove-property', 'change-datatype',
                              'add-attachment', 'touch', 'set-regex'])
            name = rng.choice(sorted(cur))
            steps.append(['upgrade', name, how, rng.randint(0, 10 ** 6)])
            steps.append(['validate-generated', rng.choice(['plain', 'element', 'parsed']), name, rng.randint(0, 10 ** 6)])
        elif r < 0.92:
            steps.append(['clear', rng.random() < 0.7])
            if rng.random() < 0.8:
                et = gen_event_type(rng)
                steps.append(['define', 't', et])
                cur = {'t': et}
            steps.append(['validate-generated', rng.choice(['plain', 'element', 'parsed']), 't', rng.randint(0, 10 ** 6)])
        else:
            et2 = gen_event_type(rng)
            steps.append(['define', 'u', et2])
            cur['u'] = et2
    return steps


class C03(Property):
    id = 'C03'
    title = 'The validation gate decides exactly EDXML event validity, whatever the history'
    design_ref = 'DESIGN.md section 10, C03'
    required_theorems = (
        'acceptsInt_iff', 'unsigned_pattern_iff', 'signed_pattern_iff', 'accepts_boolean_iff', 'accepts_enum_iff',
        'accepts_hex_iff', 'accepts_hex_grouped_iff', 'hexTail_iff', 'octet_iff', 'accepts_ipv4_iff', 'accepts_ipv6_iff', 'accepts_uuid_iff', 'accepts_base64_iff', 'gate_iff', 'propOk_iff', 'cardOk_iff',
        'attOk_iff', 'validator_history_independent', 'validator_eq_fresh', 'cache_never_consulted', 'runHist_eq_spec',
    )
    level_text = ('Lean 4 theorems over the model of the gate (the value space recognisers generated by '
                  'DataType.generate_relaxng, the event structure generated by EventType.generate_relax_ng, and the '
                  'EventValidator schema caches): the integer families accept exactly the canonical decimal rendering of the '
                  'integers in range; boolean, enum and plain hex accept exactly their literal value spaces; the gate accepts '
                  'an event iff every conjunct of structural validity holds and every object is in its value space; and for '
                  'every history of ontology mutations (incl. clear) and validations the long-lived validator answers what a '
                  'fresh validator answers on the current ontology. Compared with the code at all four observation points and '
                  'three representations over the data type grid, a directed boundary catalogue with independently stated '
                  'verdicts, single-fault mutants of valid events, and validate/upgrade/clear/validate histories.')
    level_note = ('Proof is about the model. libxml2 (RelaxNG + XML Schema datatypes) is modelled, not verified: the '
                  'recognisers are validated against it on every run; Unicode general categories and the verdict of a hard '
                  'regular expression are inputs to the model; surrounding whitespace, float range and anyURI syntax are '
                  'outside the modelled domain.')
    technique = 'Lean 4 proof (recogniser = declarative value space; gate conjunct decomposition; cache state machine refinement to a memoryless spec) + differential correspondence'
    parallel = True
    assumptions = ('object values are strings of legal XML characters', 'event sources are defined in the ontology',
                   'the objects of one property are distinct')

    def rule(self):
        return ('cases: value (data type x hard regex x values: every observation point and representation), struct '
                '(event type, valid event, one fault), history (define/upgrade/clear/validate steps with one long-lived '
                'validator, a writer session and the parser of the written stream); non-trivial = value / history cases in '
                'which accepted and rejected verdicts both occur, struct cases with a verdict; distinct by content')

    # -- generation
    def generate(self, rng, tier):
        quick = tier == 'quick'
        grid = list(DT_GRID)
        for dt in grid:
            cat = [v for v in catalogue_for(dt) if in_domain(dt, v)]
            rxs = [None]
            if family(dt) == 'string':
                rxs = [None] + rng.sample(REGEXES[2:], 1 if quick else 4)
            for rx in rxs:
                vals = list(cat)
                # neighbours of catalogue values
                extra = set()
                for _ in range(10 if quick else 120):
                    m = mutate_value(rng, rng.choice(cat) if cat else 'a', ALPHABET)
                    if in_domain(dt, m):
                        extra.add(m)
                vals += sorted(extra - set(vals))
                size = 40
                for i in range(0, len(vals), size):
                    yield {'kind': 'value', 'dt': dt, 'regex': rx, 'values': vals[i:i + size],
                           'full': (i == 0 and rx is None) or not quick}
        # base64: the model's codec against the standard one, and canonical / non-canonical notations against the real gate
        for i in range(6 if quick else 120):
            m = rng.choice([0, 0, 1, 3, 4, 7])
            bs = [[rng.randrange(256) for _ in range(rng.choice([1, 2, 3, 4, 5, 6, 7, 8, 9, 30]))] for _ in range(8)]
            import base64 as _b64
            strings = []
            for b in bs:
                enc = _b64.b64encode(bytes(b)).decode()
                strings.append(enc)
                how = rng.randrange(6)
                if how == 0:
                    strings.append(enc.rstrip('='))                       # padding left out
                elif how == 1:
                    strings.append(enc + '=')                             # one padding character too many
                elif how == 2:
                    body = enc.rstrip('=')
                    k = B64ALPHA.index(body[-1])
                    strings.append(body[:-1] + B64ALPHA[(k + 1) % 64] + enc[len(body):])   # other low bits in the last symbol
                elif how == 3:
                    j = rng.randrange(len(enc))
                    strings.append(enc[:j] + rng.choice([' ', '\n', '-', '_', '*']) + enc[j:])
                elif how == 4:
                    strings.append(enc[:4] + enc)                          # longer
                else:
                    strings.append(enc[:-4] if len(enc) > 4 else '====')
            yield {'kind': 'b64codec', 'max': m, 'bytes': bs, 'strings': [x for x in strings if in_domain('base64:%d' % m, x)]}
        n = 150 if quick else 3000
        for i in range(n):
            et = gen_event_type(rng)
            ev = valid_event(rng, et)
            fault = FAULTS[i % len(FAULTS)]
            yield {'kind': 'struct', 'et': et, 'base': ev, 'fault': fault, 'seed': rng.randint(0, 10 ** 6)}
        for i in range(60 if quick else 1500):
            yield {'kind': 'history', 'seed': rng.randint(0, 10 ** 9), 'length': rng.randint(2, 14)}
        # the writer asked to sort the components of a parsed event that is damaged on the XML level: the same verdict as
        # without sorting, and never anything but an EDXML error
        for xf in SORT_FAULTS:
            yield {'kind': 'sortgate', 'xfault': xf}

    # -- running histories on the real code
    def run_history(self, case):
        """Returns (model ops, observed verdicts, fresh verdicts, oracle verdicts)."""
        from edxml.ontology import Ontology
        from edxml.event_validator import EventValidator
        rng = random.Random(case['seed'])
        steps = gen_history(rng, case['length'])
        o = Ontology()
        o.create_event_source('/s/')
        v = EventValidator(o)
        ops, observed, fresh, oracle, labels = [], [], [], [], []
        serial = [0]
        pending_pad = [False]
        used_at = []

        def sync(names):
            for name in names:
                d = extract_def(o, name)
                if d is None:
                    ops.append({'k': 'remove', 'name': name})
                else:
                    ops.append({'k': 'define', 'name': name, 'et': model_et(d)})

        def do_validate(rep, ev):
            if pending_pad[0] and used_at:
                # the counter restarted from zero: bring it back to a value at which the validator was used before
                k = 0
                while o.get_version() < max(used_at) and k < 200:
                    k += 1
                    serial[0] += 1
                    o.create_concept('pad.c%d' % serial[0])
                    ops.append({'k': 'touch'})
            pending_pad[0] = False
            used_at.append(o.get_version())
            d = extract_def(o, ev['type'])
            try:
                e = gen.build_event(ev, rep)
            except Exception:
                return
            try:
                got = bool(v.is_valid(e))
            except Exception as ex:
                got = 'err:' + type(ex).__name__
            try:
                fr = bool(EventValidator(o).is_valid(gen.build_event(ev, rep)))
            except Exception as ex:
                fr = 'err:' + type(ex).__name__
            observed.append(got)
            fresh.append(fr)
            oracle.append(struct_oracle(d, ev) if d is not None else False)
            ops.append({'k': 'validate', 'ns': rep == 'parsed', 'event': ev, 'info': str_info(d, ev)})
            labels.append('validate %s %s' % (rep, json.dumps(ev, sort_keys=True)))

        for st in steps:
            if st[0] == 'define':
                name, et = st[1], st[2]
                if o.get_event_type(name) is not None:
                    o.delete_event_type(name)
                    for otn in [n for n in o.get_object_types() if n.startswith('o.%s.' % name)]:
                        o.delete_object_type(otn)
                build_ontology(et, o, name)
                sync([name])
            elif st[0] == 'clear':
                o.clear()
                o.create_event_source('/s/')
                ops.append({'k': 'clear'})
                ops.append({'k': 'touch'})
                pending_pad[0] = st[1]
            elif st[0] == 'upgrade':
                name, how, sd = st[1], st[2], st[3]
                r2 = random.Random(sd)
                t = o.get_event_type(name)
                if t is None:
                    continue
                props = list(t.get_properties().values())
                try:
                    if how == 'toggle-optional' and props:
                        p = r2.choice(props)
                        p.set_optional(not p.is_optional())
                    elif how == 'toggle-multivalued' and props:
                        p = r2.choice(props)
                        p.set_multi_valued(not p.is_multi_valued())
                    elif how == 'add-property':
                        serial[0] += 1
                        dt = r2.choice(list(GOOD_VALUE))
                        otn = 'o.%s.n%d' % (name, serial[0])
                        o.create_object_type(otn, data_type=dt)
                        pr = t.create_property('n%d' % serial[0], otn)
                        pr.set_optional(r2.random() < 0.5)
                        pr.set_multi_valued(r2.random() < 0.5)
                    elif how == 'remove-property' and len(props) > 1:
                        t.remove_property(r2.choice(props).get_name())
                    elif how == 'change-datatype' and props:
                        p = r2.choice(props)
                        o.get_object_type(p.get_object_type_name()).set_data_type(
                            __import__('edxml').ontology.DataType(r2.choice(list(GOOD_VALUE))))
                    elif how == 'add-attachment':
                        serial[0] += 1
                        a = t.create_attachment('x%d' % serial[0])
                        if r2.random() < 0.5:
                            a.set_encoding_base64()
                    elif how == 'set-regex' and props:
                        strs = [p for p in props if o.get_object_type(p.get_object_type_name()).get_data_type().get().startswith('string')]
                        if strs:
                            o.get_object_type(r2.choice(strs).get_object_type_name()).set_regex_hard(r2.choice(['[a-y]+', 'x|y']))
                    else:
                        o.create_concept('c%d' % r2.randint(0, 99)) if o.get_concept('c1') is None else t.set_description('d%d' % sd)
                except Exception:
                    pass
                ops.append({'k': 'touch'})
                sync([name])
            elif st[0] == 'validate':
                do_validate(st[1], st[2])
            elif st[0] == 'validate-generated':
                rep, name, sd = st[1], st[2], st[3]
                d = extract_def(o, name)
                if d is None:
                    do_validate(rep, {'type': name, 'source': '/s/', 'props': [['p0', ['x']]]})
                    continue
                r2 = random.Random(sd)
                d2 = dict(d, props=[p for p in d['props'] if p['dt'] in GOOD_VALUE])
                ev = valid_event(r2, d2, name)
                fault = r2.choice(['none', 'none', 'missing-mandatory', 'repeat-single', 'bad-object', 'optional-absent'])
                ev = apply_fault(r2, d2, ev, fault) or ev
                do_validate(rep, ev)
        return ops, observed, fresh, oracle, labels

    # -- observation
    def observe(self, case):
        if case['kind'] == 'sortgate':
            return sortgate_verdicts(case['xfault'])
        if case['kind'] == 'b64codec':
            import base64
            dt = 'base64:%d' % case['max']
            verdicts = self.observe({'kind': 'value', 'dt': dt, 'regex': None, 'values': case['strings'], 'full': False})['verdicts']
            dec = []
            for x, ok in zip(case['strings'], verdicts):
                try:
                    # what the SDK itself decodes accepted values with
                    dec.append(list(base64.decodebytes(x.encode())) if ok else None)
                except Exception as ex:
                    dec.append('err:' + type(ex).__name__)
            # the decoding is only asked of values the type without a length limit accepts
            free = self.observe({'kind': 'value', 'dt': 'base64:0', 'regex': None, 'values': case['strings'], 'full': False})['verdicts']
            return {'enc': [base64.b64encode(bytes(b)).decode() for b in case['bytes']], 'accepted': verdicts,
                    'dec': [list(base64.decodebytes(x.encode())) if ok else None for x, ok in zip(case['strings'], free)]}
        if case['kind'] == 'value':
            et = {'props': [{'name': 'p', 'dt': case['dt'], 'regex': case['regex'], 'optional': False, 'multivalued': False}]}
            o = build_ontology(et)
            from edxml.event_validator import EventValidator
            verdicts, dissent = [], []
            for v in case['values']:
                ev = {'type': 't', 'source': '/s/', 'props': [['p', [v]]]}
                if case.get('full', True):
                    ref, diss = summarise(point_verdicts(o, ev))
                else:
                    try:
                        ref = bool(EventValidator(o).is_valid(gen.build_event(ev, 'parsed')))
                    except Exception as ex:
                        ref = 'err:' + type(ex).__name__
                    diss = []
                verdicts.append(ref)
                if diss:
                    dissent.append([v, diss])
            return {'verdicts': verdicts, 'dissent': dissent}
        if case['kind'] == 'struct':
            ev = apply_fault(random.Random(case['seed']), case['et'], case['base'], case['fault'])
            if ev is None:
                return {'verdict': None, 'dissent': []}
            o = build_ontology(case['et'])
            ref, diss = summarise(point_verdicts(o, ev))
            return {'verdict': ref, 'dissent': diss}
        ops, observed, fresh, oracle, labels = self.run_history(case)
        return {'verdicts': observed, 'fresh_differs': [i for i, (a, b) in enumerate(zip(observed, fresh)) if a != b]}

    # -- model
    def requests(self, case):
        if case['kind'] == 'sortgate':
            return []
        if case['kind'] == 'b64codec':
            return [{'op': 'b64', 'bytes': case['bytes'], 'strings': case['strings'], 'maxLen': case['max']}]
        if case['kind'] == 'value':
            et = {'props': [{'name': 'p', 'dt': case['dt'], 'regex': case['regex'], 'optional': False, 'multivalued': False}]}
            hist = [{'k': 'define', 'name': 't', 'et': model_et(et)}]
            for v in case['values']:
                ev = {'type': 't', 'source': '/s/', 'props': [['p', [v]]]}
                hist.append({'k': 'validate', 'ns': False, 'event': ev, 'info': str_info(et, ev)})
            return [{'op': 'gate', 'hist': hist}]
        if case['kind'] == 'struct':
            ev = apply_fault(random.Random(case['seed']), case['et'], case['base'], case['fault'])
            if ev is None:
                return []
            return [{'op': 'gate', 'hist': [{'k': 'define', 'name': 't', 'et': model_et(case['et'])},
                                            {'k': 'validate', 'ns': False, 'event': ev, 'info': str_info(case['et'], ev)}]}]
        ops = self.run_history(case)[0]
        return [{'op': 'gate', 'hist': ops}]

    def predict(self, case, replies):
        if case['kind'] == 'sortgate':
            # an event is a set of components: sorting them is no operation of the model, the gate decides as before
            want = 'accepted' if case['xfault'] == 'none' else 'EDXMLEventValidationError'
            return {'plain': want, 'sorted': want}
        if case['kind'] == 'b64codec':
            r = replies[0]
            return {'enc': r['enc'], 'accepted': r['accepted'], 'dec': r['dec']}
        if case['kind'] == 'value':
            return {'verdicts': replies[0]['verdicts'], 'dissent': []}
        if case['kind'] == 'struct':
            if not replies:
                return {'verdict': None, 'dissent': []}
            return {'verdict': replies[0]['verdicts'][0], 'dissent': []}
        return {'verdicts': replies[0]['verdicts'], 'fresh_differs': []}

    # -- independent oracle
    def oracle(self, case, obs):
        if case['kind'] == 'sortgate':
            what = 'validating writer, parsed event with XML level defect %s' % case['xfault']
            for k in ('plain', 'sorted'):
                if str(obs[k]).startswith('foreign:'):
                    return '%s, add_event(event%s) raised %s' % (what, ', sort=True' if k == 'sorted' else '', obs[k][8:])
            if obs['plain'] != obs['sorted']:
                return '%s: add_event(event) is %s, add_event(event, sort=True) is %s' % (what, obs['plain'], obs['sorted'])
            if case['xfault'] == 'none' and obs['plain'] != 'accepted':
                return '%s: a valid event is refused' % what
            return None
        if case['kind'] == 'b64codec':
            import base64
            import binascii
            for x, got in zip(case['strings'], obs['accepted']):
                try:
                    raw = base64.b64decode(x.encode('ascii'), validate=True)
                    want = len(raw) >= 1 and base64.b64encode(raw).decode() == x and (case['max'] == 0 or len(raw) <= case['max'])
                except (binascii.Error, ValueError, UnicodeEncodeError):
                    want = False
                if got != want:
                    return 'base64:%d, value %r: the gate %s it, but it %s the canonical notation of 1..%s octets' % (
                        case['max'], x, 'accepts' if got else 'rejects', 'is' if want else 'is not', case['max'] or 'any number of')
            return None
        if case['kind'] == 'value':
            if obs['dissent']:
                v, diss = obs['dissent'][0]
                return 'data type %s, value %r: observation points disagree with EventValidator on the plain event: %s' % (
                    case['dt'], v, ', '.join(diss))
            for v, got in zip(case['values'], obs['verdicts']):
                want = spec_verdict(case['dt'], case['regex'], v)
                if want is not None and got != want:
                    return 'data type %s%s: value %r is %s but the gate %s it' % (
                        case['dt'], ' (regex %s)' % case['regex'] if case['regex'] else '', v,
                        'in the value space' if want else 'outside the value space',
                        'accepts' if got is True else ('rejects' if got is False else 'answers %s on' % got))
            return None
        if case['kind'] == 'struct':
            if obs['verdict'] is None:
                return None
            if obs['dissent']:
                return 'fault %s: observation points disagree: %s' % (case['fault'], ', '.join(obs['dissent']))
            ev = apply_fault(random.Random(case['seed']), case['et'], case['base'], case['fault'])
            want = struct_oracle(case['et'], ev, known_type=ev['type'] == 't')
            if want is not None and obs['verdict'] != want:
                return 'fault %s: the event is %s but the gate says %s' % (case['fault'], 'valid' if want else 'invalid', obs['verdict'])
            return None
        ops, observed, fresh, oracle, labels = self.run_history(case)
        for i, (got, fr, want) in enumerate(zip(observed, fresh, oracle)):
            if got != fr:
                return ('validation %d (%s): the long-lived validator answers %s, a fresh validator on the same ontology %s'
                        % (i, labels[i][:200], got, fr))
            if want is not None and got != want:
                return 'validation %d (%s): the event is %s but the validator says %s' % (
                    i, labels[i][:200], 'valid' if want else 'invalid', got)
        return None

    def neighbours(self, case, rng):
        if case['kind'] in ('b64codec', 'sortgate'):
            return []
        if case['kind'] == 'value':
            vals = []
            for v in case['values']:
                vals += [mutate_value(rng, v, ALPHABET) for _ in range(3)]
            vals = sorted({v for v in vals if in_domain(case['dt'], v)})
            return [dict(case, values=vals[i:i + 40], full=True) for i in range(0, len(vals), 40)]
        if case['kind'] == 'history':
            return [{'kind': 'history', 'seed': rng.randint(0, 10 ** 9), 'length': case['length']} for _ in range(60)]
        return [dict(case, seed=rng.randint(0, 10 ** 6), fault=f) for f in FAULTS]

    def reductions(self, case):
        if case['kind'] == 'sortgate':
            return
        if case['kind'] == 'b64codec':
            for i in range(len(case['strings'])):
                if len(case['strings']) > 1:
                    yield dict(case, strings=case['strings'][:i] + case['strings'][i + 1:])
            return
        if case['kind'] == 'value':
            vs = case['values']
            if len(vs) > 1:
                yield dict(case, values=vs[:len(vs) // 2])
                yield dict(case, values=vs[len(vs) // 2:])
                for i in range(len(vs)):
                    yield dict(case, values=vs[:i] + vs[i + 1:])
        elif case['kind'] == 'history':
            n = case['length']
            while n > 1:
                n -= 1
                yield dict(case, length=n)

    def nontrivial_obs(self, case, obs):
        vs = obs.get('verdicts', obs.get('accepted')) if isinstance(obs, dict) else None
        if vs is None:
            vs = [obs.get('verdict')] if isinstance(obs, dict) else []
        flat = [v for v in vs if isinstance(v, bool)]
        if case['kind'] == 'sortgate':
            return json.dumps(case, sort_keys=True)
        if case['kind'] == 'struct':
            return json.dumps(case, sort_keys=True) if flat else None
        return json.dumps(case, sort_keys=True) if (True in flat and False in flat) else None

    def sample_view(self, case):
        if case['kind'] == 'value':
            return {'kind': 'value', 'dt': case['dt'], 'regex': case['regex'], 'values': case['values'][:8]}
        return case


PROPERTY = C03()
