"""C18 - EventCollection equivalence is a true semantic equivalence relation."""
import json
from collections import OrderedDict

from vf.core import Property
from vf import gen
from vf.props import c04
from vf.props.c01 import spec_hash


class Conflict(Exception):
    pass


def py_merge(et, events):
    """Reference merge written from the property statement (independent of SDK and Lean model)."""
    vp = et['vp']
    order = sorted(events, key=lambda e: c04.version_of(et, e)) if vp else list(events)
    if vp:
        for i, a in enumerate(events):
            for b in events[i + 1:]:
                if c04.version_of(et, a) == c04.version_of(et, b) and any(
                        c04.objects(a, p['name']) != c04.objects(b, p['name']) for p in et['props']):
                    raise Conflict()
    props = []
    for p in et['props']:
        name, merge, fam = p['name'], p['merge'], p['fam']
        acc = [v for e in order for v in c04.objects(e, name)]
        if merge == 'add':
            out = sorted(set(acc))
        elif merge in ('min', 'max'):
            if not acc:
                out = []
            else:
                keyed = [(c04.num_key(fam, v), i) for i, v in enumerate(acc)]
                best = min(keyed, key=lambda t: t[0]) if merge == 'min' else max(keyed, key=lambda t: (t[0], -t[1]))
                out = [acc[best[1]]]
        elif merge == 'replace':
            out = c04.objects(order[-1], name)
        else:
            ne = [c04.objects(e, name) for e in order if c04.objects(e, name)]
            out = ne[0] if ne else []
        if out:
            props.append([name, out])
    first = order[0]
    return {'type': first['type'], 'source': first['source'], 'props': sorted(props),
            'attIds': sorted([n, sorted(set(i for i, _v in items))] for n, items in first.get('atts', []) if items),
            'parents': sorted(set(h for e in events for h in e.get('parents', [])))}


def py_view(e):
    names = sorted(set(n for n, _ in e['props']))
    return {'type': e['type'], 'source': e['source'],
            'props': [[n, c04.objects(e, n)] for n in names if c04.objects(e, n)],
            'attIds': sorted([n, sorted(set(i for i, _v in items))] for n, items in e.get('atts', []) if items),
            'parents': sorted(set(e.get('parents', [])))}


def py_resolve(et, events):
    hashed = [p['name'] for p in et['props'] if p['merge'] == 'match']
    groups = OrderedDict()
    for e in events:
        pairs = [(n, v) for n, vs in e['props'] for v in vs]
        groups.setdefault(spec_hash(e['source'], e['type'], hashed, pairs, 'sha1', 'hex'), []).append(e)
    return {h: (py_view(g[0]) if len(g) == 1 else py_merge(et, g)) for h, g in groups.items()}


def truth(et, a, b, ont_eq):
    if not ont_eq:
        return False
    return py_resolve(et, a) == py_resolve(et, b)


class C18(Property):
    id = 'C18'
    title = 'EventCollection equivalence is a true semantic equivalence relation'
    design_ref = 'DESIGN.md section 10, C18'
    required_theorems = (
        'equiv_refl', 'equiv_symm', 'equiv_trans', 'equiv_true_iff', 'equiv_resolved', 'equiv_perm',
        'equiv_false_of_missing_event', 'eventEq_equivalence', 'equivFull_symm', 'equivFull_false_of_ontology',
    )
    level_text = ('Lean 4 theorems over the model of EventCollection.is_equivalent_of (ontology comparison, collision '
                  'resolution of both sides, hash-by-hash comparison in both directions): it is reflexive, symmetric and '
                  'transitive, holds between a collection and its collision-resolved form and between permutations '
                  '(order-free strategies), is true exactly when both sides have the same logical events with equal '
                  'objects, attachment identifiers and parents, and false when a logical event exists on one side only '
                  'or the ontologies differ. Compared with the code on generated collections, all single-difference '
                  'mutants and both argument orders.')
    level_note = ('Proof is about the model; the ontology comparison is the C09 model (equivFull_symm composes the two; the harness passes its verdict as a bit), merging is the C04/C05 model, '
                  'the sticky hash is the C01 model; attachment values are ignored by event equality by design.')
    technique = 'Lean 4 proof (equivalence-relation laws via canonical event views, per-hash refinement) + differential correspondence'
    parallel = True
    assumptions = ('events are valid for the shared ontology', 'colliding events carry the same attachments')

    def rule(self):
        return ('cases: (event type, collection a, collection b derived from a by one of: identity, permutation, '
                'collision-resolved form, duplicate an event, change/add/remove one object, change an attachment id, '
                'change a parent, add or remove an event, different ontology); observed: is_equivalent_of(a,b), (b,a), '
                '(a,a) incl. exceptions; non-trivial = a contains a colliding group; distinct by content')

    def gen_collection(self, rng, et):
        groups = []
        for _ in range(rng.randint(1, 3)):
            g = c04.gen_group(rng, et, rng.choice([1, 1, 2, 3]))
            # colliding events share attachments and agree on order-dependent strategies
            atts = g[0].get('atts')
            anyset = {p['name']: c04.objects(g[0], p['name']) for p in et['props'] if p['merge'] in ('any', 'set')}
            for e in g:
                e.pop('atts', None)
                if atts:
                    e['atts'] = json.loads(json.dumps(atts))
                e['props'] = [pv for pv in e['props'] if pv[0] not in anyset] + \
                             [[n, list(o)] for n, o in anyset.items() if o]
            groups.append(g)
        events = [e for g in groups for e in g]
        # events of different groups may collide as well: same treatment per logical event
        first = {}
        for e in events:
            key = json.dumps([e['type'], e['source'], sorted((p['name'], sorted(c04.objects(e, p['name'])))
                                                              for p in et['props'] if p['merge'] == 'match')])
            f = first.setdefault(key, e)
            if f is not e:
                anyset = {p['name']: c04.objects(f, p['name']) for p in et['props'] if p['merge'] in ('any', 'set')}
                e.pop('atts', None)
                if f.get('atts'):
                    e['atts'] = json.loads(json.dumps(f['atts']))
                e['props'] = [pv for pv in e['props'] if pv[0] not in anyset] + \
                             [[n, list(o)] for n, o in anyset.items() if o]
        rng.shuffle(events)
        return events

    def generate(self, rng, tier):
        n = 220 if tier == 'quick' else 8000
        kinds = ['same', 'perm', 'resolved', 'dup', 'mut-object', 'mut-object', 'add-object', 'mut-attid',
                 'mut-parent', 'add-event', 'remove-event', 'ontology']
        for i in range(n):
            et = c04.gen_event_type(rng, with_version=rng.random() < 0.3)
            for p in et['props']:
                if p['merge'] == 'add':
                    p['multi'] = True
            a = self.gen_collection(rng, et)
            kind = kinds[i % len(kinds)]
            b = json.loads(json.dumps(a))
            ont_eq = True
            if kind == 'perm':
                rng.shuffle(b)
                for e in b:
                    rng.shuffle(e['props'])
            elif kind == 'resolved':
                try:
                    res = py_resolve(et, a)
                except Conflict:
                    continue
                b = [{'type': v['type'], 'source': v['source'], 'props': v['props'], 'parents': v['parents'],
                      'atts': [[n, [[i, 'text'] for i in ids]] for n, ids in v['attIds']]} for v in res.values()]
            elif kind == 'dup':
                b.append(json.loads(json.dumps(rng.choice(b))))
            elif kind in ('mut-object', 'add-object'):
                e = rng.choice(b)
                cands = [p for p in et['props'] if p['name'] != et['vp']]
                p = rng.choice(cands)
                pool = c04.FAMILIES[p['fam']][2]
                cur = c04.objects(e, p['name'])
                new = rng.choice(pool)
                e['props'] = [pv for pv in e['props'] if pv[0] != p['name']]
                if kind == 'add-object' and p['multi']:
                    e['props'].append([p['name'], sorted(set(cur + [new]))])
                else:
                    e['props'].append([p['name'], [new]])
            elif kind == 'mut-attid':
                e = rng.choice(b)
                e['atts'] = [['att', [['other-id', 'text']]]]
            elif kind == 'mut-parent':
                e = rng.choice(b)
                e['parents'] = ['%040x' % rng.randint(5, 9)]
            elif kind == 'add-event':
                extra = c04.gen_group(rng, et, 1)[0]
                b.append(extra)
            elif kind == 'remove-event':
                if len(b) > 1:
                    del b[rng.randrange(len(b))]
            elif kind == 'ontology':
                ont_eq = False
            if kind == 'ontology' and rng.random() < 0.4:
                # two collections without events whose ontologies differ
                a, b = [], []
            case = {'et': et, 'a': a, 'b': b, 'ont_eq': ont_eq, 'kind': kind,
                    'repr': rng.choice(['plain', 'plain', 'element', 'parsed'])}
            if i % 6 == 1:
                # after the comparisons, the collection is compared with one whose ontology is in conflict with its own (the
                # same version of the event type, described differently), twice: the refusal must not wear off
                case['conflict_probe'] = True
            if i % 4 == 0 and ont_eq:
                # the collection object is reused: compared, changed in place (same length), compared again
                a2 = json.loads(json.dumps(a))
                j = rng.randrange(len(a2))
                how = rng.choice(['setitem', 'setitem', 'slice', 'reverse', 'iadd', 'insert', 'pop', 'del', 'remove'])
                extra = c04.gen_group(rng, et, 1)[0]
                if how in ('setitem', 'slice'):
                    if rng.random() < 0.5:
                        a2[j] = extra
                    else:
                        a2[j]['parents'] = ['%040x' % rng.randint(10, 20)]
                elif how == 'reverse':
                    a2.reverse()
                elif how == 'iadd':
                    a2 = a2 + [extra]
                elif how == 'insert':
                    a2 = [extra] + a2
                elif how == 'pop':
                    a2 = a2[:-1]
                else:
                    a2 = a2[1:]
                case['a2'] = a2
                # which list operation takes the collection there (item assignment, slice assignment, reverse(), +=, insert(),
                # pop(), del, remove())
                case['a2_how'] = how
            yield case

    def observe(self, case):
        import edxml
        from edxml.error import EDXMLMergeConflictError
        o, t = c04.build_ontology(case['et'])
        o2, _ = c04.build_ontology(case['et'])
        if not case['ont_eq']:
            o2.create_object_type('extra')
        a = edxml.EventCollection([gen.build_event(e, case['repr']) for e in case['a']], o)
        b = edxml.EventCollection([gen.build_event(e, case['repr']) for e in case['b']], o2)

        from edxml.error import EDXMLOntologyValidationError

        def run(x, y):
            try:
                return {'ok': bool(x.is_equivalent_of(y))}
            except EDXMLMergeConflictError:
                return {'err': 'EDXMLMergeConflictError'}
            except EDXMLOntologyValidationError:
                return {'err': 'EDXMLOntologyValidationError'}
            except Exception as ex:
                return {'err': 'foreign:' + type(ex).__name__}
        res = {'ab': run(a, b), 'ba': run(b, a), 'aa': run(a, a)}
        if case.get('conflict_probe'):
            o3, t3 = c04.build_ontology(case['et'])
            t3.set_description('described differently')
            d = edxml.EventCollection([gen.build_event(e, case['repr']) for e in case['a']], o3)
            res['conflict'] = [run(a, d), run(a, d), run(d, a)]
        if case.get('a2') is not None:
            try:
                a.resolve_collisions()
            except Exception:
                pass
            how = case.get('a2_how', 'setitem')
            if how == 'setitem':
                for j, e in enumerate(case['a2']):
                    if e != case['a'][j]:
                        a[j] = gen.build_event(e, case['repr'])
            elif how == 'slice':
                a[:] = [gen.build_event(e, case['repr']) for e in case['a2']]
            elif how == 'reverse':
                a.reverse()
            elif how == 'iadd':
                a += [gen.build_event(case['a2'][-1], case['repr'])]
            elif how == 'insert':
                a.insert(0, gen.build_event(case['a2'][0], case['repr']))
            elif how == 'pop':
                a.pop()
            elif how == 'del':
                del a[0]
            else:
                a.remove(a[0])
            res['a2b'] = run(a, b)
            res['ba2'] = run(b, a)
        return res

    def requests(self, case):
        base = {'op': 'equiv', 'specs': c04.specs_of(case['et']), 'vp': case['et']['vp']}
        reqs = [dict(base, a=case['a'], b=case['b'], ontEq=case['ont_eq']),
                dict(base, a=case['b'], b=case['a'], ontEq=case['ont_eq']),
                dict(base, a=case['a'], b=case['a'], ontEq=True)]
        if case.get('a2') is not None:
            reqs += [dict(base, a=case['a2'], b=case['b'], ontEq=True), dict(base, a=case['b'], b=case['a2'], ontEq=True)]
        return reqs

    def predict(self, case, replies):
        res = {'ab': replies[0], 'ba': replies[1], 'aa': replies[2]}
        if case.get('conflict_probe'):
            # the ontology comparison comes first and raises (C09: a conflict is rejected from both sides, every time)
            res['conflict'] = [{'err': 'EDXMLOntologyValidationError'}] * 3
        if case.get('a2') is not None:
            res['a2b'], res['ba2'] = replies[3], replies[4]
        return res

    def oracle(self, case, obs):
        et = case['et']
        try:
            want = truth(et, case['a'], case['b'], case['ont_eq'])
            conflict = False
        except Conflict:
            conflict = True
        if case.get('conflict_probe') and obs.get('conflict') != [{'err': 'EDXMLOntologyValidationError'}] * 3:
            return ('comparing with a collection whose ontology is in conflict with one\'s own (twice, then from the other side) gives %r: '
                    'never equivalent, and the refusal must not wear off' % (obs.get('conflict'),))
        for k in ('ab', 'ba'):
            r = obs[k]
            if conflict:
                if case['ont_eq'] and r != {'err': 'EDXMLMergeConflictError'}:
                    return '%s: %r although the input holds a merge conflict' % (k, r)
                continue
            if 'err' in r:
                return 'is_equivalent_of (%s) raised %s' % (k, r['err'])
            if r['ok'] != want:
                return 'is_equivalent_of (%s, mutation %s) is %s but the logical events are %s' % (
                    k, case['kind'], r['ok'], 'the same' if want else 'different')
        if case.get('a2') is not None:
            try:
                want2 = truth(et, case['a2'], case['b'], True)
                for k in ('a2b', 'ba2'):
                    r = obs[k]
                    if 'err' in r:
                        return 'is_equivalent_of (%s, after changing the collection in place) raised %s' % (k, r['err'])
                    if r['ok'] != want2:
                        return ('after replacing an event of the collection in place, is_equivalent_of (%s) is %s but the '
                                'logical events are %s' % (k, r['ok'], 'the same' if want2 else 'different'))
            except Conflict:
                pass
        if case['kind'] in ('same', 'perm', 'resolved', 'dup') and not conflict and not want:
            return 'reference oracle inconsistent'  # generator guarantees equivalence for these kinds
        try:
            py_resolve(et, case['a'])
            if obs['aa'] != {'ok': True}:
                return 'collection is not equivalent to itself: %r' % (obs['aa'],)
        except Conflict:
            pass
        return None

    def neighbours(self, case, rng):
        return []

    def reductions(self, case):
        for side in ('a', 'b'):
            for i in range(len(case[side])):
                if len(case[side]) > 1:
                    c = json.loads(json.dumps(case))
                    del c[side][i]
                    c['kind'] = 'shrunk'
                    yield c

    def nontrivial(self, case):
        try:
            groups = py_resolve(case['et'], case['a'])
        except Conflict:
            return json.dumps(case, sort_keys=True)
        if len(groups) == len(case['a']):
            return None
        return json.dumps(case, sort_keys=True)

    def sample_view(self, case):
        return {'kind': case['kind'], 'strategies': [(p['name'], p['fam'], p['merge']) for p in case['et']['props']],
                'a': case['a'], 'b': case['b'], 'ont_eq': case['ont_eq']}


PROPERTY = C18()
