"""C20 - concept mining terminates with well-formed, covering, serializable results."""
import json
import random
import signal
from fractions import Fraction

from vf.core import Property

WATCHDOG_S = 30
CONCEPTS = ['ca', 'ca.x', 'ca.x.y', 'cb']
OTYPES = ['oa', 'ob', 'oc']
VALUES = ['v1', 'v2', 'v3', 'v4']
MIN_CONF = [0.0, 0.05, 0.1, 0.3, 0.5, 0.9, 1.0]
MAX_DEPTH = [1, 2, 3, 10, 0]


def gen_spec(rng, big=False):
    """Ontology with concept associations and relations + events, as a JSON-able spec."""
    ets = []
    for t in range(rng.randint(1, 3)):
        props = []
        for p in range(rng.randint(1, 4)):
            assocs = []
            for c in rng.sample(CONCEPTS, rng.choice([0, 1, 1, 1, 2])):
                a = {'concept': c, 'confidence': rng.choice([0, 1, 3, 5, 8, 10]), 'cnp': rng.choice([0, 128, 255])}
                if rng.random() < 0.3:
                    a['ext'] = rng.choice(['x', 'y'])
                assocs.append(a)
            props.append({'name': 'p%d' % p, 'ot': rng.choice(OTYPES), 'confidence': rng.choice([1, 5, 8, 10]), 'assocs': assocs,
                          'multivalued': rng.random() < 0.5})
        rels = []
        names = [p['name'] for p in props]
        for _ in range(rng.randint(3, 8) if big else rng.randint(0, 4)):
            if len(props) < 2:
                break
            a, b = rng.sample(props, 2)
            kind = rng.choice(['intra', 'intra', 'intra', 'inter', 'other'] if big else ['intra', 'inter', 'other', 'name', 'description', 'container'])
            r = {'kind': kind, 'source': a['name'], 'target': b['name'], 'confidence': rng.choice([1, 2, 5, 9, 10])}
            if kind in ('intra', 'inter'):
                if not a['assocs'] or not b['assocs']:
                    continue
                ca, cb = rng.choice(a['assocs'])['concept'], rng.choice(b['assocs'])['concept']
                if kind == 'intra':
                    # intra-concept relations connect (specializations of) the same concept
                    shared = [x['concept'] for x in b['assocs'] if x['concept'].split('.')[0] == ca.split('.')[0]]
                    if not shared:
                        continue
                    cb = rng.choice(shared)
                r['sc'], r['tc'] = ca, cb
            if any((x['kind'], x['source'], x['target']) == (r['kind'], r['source'], r['target']) for x in rels):
                continue
            rels.append(r)
        later = []
        if len(props) >= 2 and rng.random() < 0.5:
            a, b = rng.sample(props, 2)
            kind = rng.choice(['name', 'description', 'container'])
            have = [x['kind'] for x in rels if x['kind'] in ('name', 'description', 'container')]
            if have and rng.random() < 0.6:
                # a second relation of a kind the event type already has (while relations of other kinds exist as well)
                kind = rng.choice(have)
            if not any((x['kind'], x['source'], x['target']) == (kind, a['name'], b['name']) for x in rels):
                later.append({'kind': kind, 'source': a['name'], 'target': b['name']})
        ets.append({'name': 't%d' % t, 'props': props, 'rels': rels, 'names': names, 'later': later, 'later_prop': rng.random() < 0.4})
    events = []
    for _ in range(rng.randint(8, 14) if big else rng.randint(0, 7)):
        et = rng.choice(ets)
        props = []
        for p in et['props']:
            if rng.random() < 0.8:
                k = rng.randint(1, 2) if p['multivalued'] else 1
                props.append([p['name'], rng.sample(VALUES, k)])
        events.append({'type': et['name'], 'source': '/s/', 'props': props})
    return {'ets': ets, 'events': events}


def build_ontology(spec, extra=False):
    from edxml.ontology import Ontology
    o = Ontology()
    for ot in OTYPES:
        o.create_object_type(ot)
    for c in CONCEPTS:
        o.create_concept(c)
    o.create_event_source('/s/')
    for e in spec['ets']:
        et = o.create_event_type(e['name'])
        for p in e['props']:
            pr = et.create_property(p['name'], p['ot']).make_optional()
            pr.set_confidence(p['confidence'])
            if p['multivalued']:
                pr.make_multivalued()
            for a in p['assocs']:
                pc = pr.identifies(a['concept'], a['confidence'], a['cnp'])
                if a.get('ext'):
                    pc.set_attribute(a['ext'], a['ext'], a['ext'] + 's')
        for r in e['rels']:
            kind = r['kind']
            if kind in ('intra', 'inter'):
                et.create_relation(kind, r['source'], r['target'], 'd', 'p', r['sc'], r['tc'], r['confidence'])
            elif kind == 'other':
                et.create_relation('other', r['source'], r['target'], 'd', 'p', None, None, r['confidence'])
            else:
                et.create_relation(kind, r['source'], r['target'])
        if extra:
            for r in e.get('later', []):
                et.create_relation(r['kind'], r['source'], r['target'])
            if e.get('later_prop'):
                # the upgrade also brings a property that is associated with a concept
                et.create_property('px', 'oa').make_optional().identifies('ca', 5, 128)
            if e.get('later') or e.get('later_prop'):
                et.set_version(2)
    return o


EPS = Fraction(1, 10**9)


class SearchTracer:
    """Records every reasoning pass of a mining run (ConceptInstanceGraph._reason_from): per iteration of its loop the node
    that was processed and the edges that were considered (Node.get_same_concept_inferences), and per edge the confidence the
    pass assigned through it (Inference.reason), if it did. The model replays these traces (op search)."""

    def __init__(self):
        self.passes = []
        self.picks = []
        self.cur = None
        self.problem = None

    def __enter__(self):
        import inspect
        try:
            from edxml.miner.graph.graph import ConceptInstanceGraph
            from edxml.miner.node import Node
            from edxml.miner.inference import Inference
            self.classes = (ConceptInstanceGraph, Node, Inference)
            from edxml.miner.node import EventObjectNode
            self.orig = (ConceptInstanceGraph._reason_from, Node.get_same_concept_inferences, Inference.reason)
            self.orig_pick = ConceptInstanceGraph.find_optimal_seed
        except Exception as ex:
            self.problem = 'the reasoning pass cannot be traced: %s' % ex
            self.classes = None
            return self
        tracer = self
        o_from, o_same, o_reason = self.orig
        sig = inspect.signature(o_from)

        def reason_from(g, *a, **kw):
            try:
                b = sig.bind(g, *a, **kw)
                b.apply_defaults()
                seed, min_c, max_d = b.arguments['seed'], b.arguments['min_confidence'], b.arguments['max_depth']
            except Exception as ex:
                tracer.problem = 'the reasoning pass cannot be traced: %s' % ex
                return o_from(g, *a, **kw)
            idx, nodes = {}, []

            def index(n):
                if id(n) not in idx:
                    idx[id(n)] = len(nodes)
                    nodes.append(n)
                return idx[id(n)]
            for n in list(g._nodes.values()):
                index(n)
            p = {'seed': index(seed), 'seed_id': seed.id, 'seed_concept': getattr(seed, 'concept_name', ''), 'min': min_c, 'max_depth': max_d,
                 'steps': [], 'objs': [], 'index': index, 'unmatched': 0}
            tracer.cur = p
            try:
                return o_from(g, *a, **kw)
            finally:
                tracer.cur = None
                p['nodes'] = [[n.confidence, n.taint] for n in nodes]
                p['sc'] = [n.seed_confidences.get(seed.id) for n in nodes]
                p['ids'] = [n.id for n in nodes]
                del p['index'], p['objs']
                tracer.passes.append(p)

        def kind_of(e):
            from edxml.miner.inference import SameObjectInference, RelationInference
            if not isinstance(e.target, EventObjectNode):
                return 'toHub'
            if isinstance(e, SameObjectInference):
                return 'sameObject'
            if isinstance(e, RelationInference):
                return 'intra' if e.relation.get_type() == 'intra' else 'inter'
            return 'other'

        def same(node, *a, **kw):
            edges = o_same(node, *a, **kw)
            p = tracer.cur
            if p is None:
                return edges
            edges = list(edges)
            # every outgoing edge of the node, with what the pass makes of it
            every = list(node.get_inferences())
            chosen = [e for e in every if any(e is c for c in edges)]
            if len(chosen) != len(edges) or any(a is not b for a, b in zip(chosen, edges)):
                tracer.problem = 'the edges a pass considers are not a selection, in order, of the outgoing edges of the node'
            p['steps'].append([p['index'](node), [[p['index'](e.target), e.confidence, kind_of(e), getattr(e.target, 'concept_name', '') or '',
                                                   any(e is c for c in edges), None] for e in every]])
            p['objs'].append(every)
            return edges

        def reason(edge, seed, confidence, *a, **kw):
            p = tracer.cur
            if p is not None:
                hit = False
                if p['steps']:
                    for k, eo in enumerate(p['objs'][-1]):
                        if eo is edge and p['steps'][-1][1][k][5] is None:
                            p['steps'][-1][1][k][5] = confidence
                            hit = True
                            break
                if not hit:
                    p['unmatched'] += 1
            return o_reason(edge, seed, confidence, *a, **kw)
        o_pick = self.orig_pick

        def pick(g, *a, **kw):
            if a or kw:
                return o_pick(g, *a, **kw)
            objs = [n for n in g._nodes.values() if isinstance(n, EventObjectNode)]
            cands = [[k, n.taint, n.concept_association.get_confidence()] for k, n in enumerate(objs)]
            chosen = o_pick(g)
            where = [k for k, n in enumerate(objs) if n is chosen]
            tracer.picks.append([cands, None if chosen is None else (where[0] if where else len(objs))])
            return chosen
        ConceptInstanceGraph.find_optimal_seed = pick
        ConceptInstanceGraph._reason_from = reason_from
        Node.get_same_concept_inferences = same
        Inference.reason = reason
        return self

    def __exit__(self, *exc):
        if self.classes:
            g, n, i = self.classes
            g._reason_from, n.get_same_concept_inferences, i.reason = self.orig
            g.find_optimal_seed = self.orig_pick
        return False


def search_requests(passes):
    reqs = []
    for p in passes:
        reqs.append({'op': 'search', 'nodes': [[f2q(c), f2q(t)] for c, t in p['nodes']], 'seed': p['seed'], 'min': f2q(p['min']),
                     'eps': [str(EPS.numerator), str(EPS.denominator)], 'maxDepth': max(0, int(p['max_depth'])),
                     'seedConcept': p['seed_concept'],
                     'trace': [[n, [[t, f2q(c), k, cn, cons, None if r is None else f2q(r)] for t, c, k, cn, cons, r in es]]
                               for n, es in p['steps']]})
    return reqs


def pick_request(picks):
    return {'op': 'pick', 'picks': [[[[k, f2q(t), f2q(c)] for k, t, c in cands], ch] for cands, ch in picks]}


class Hang(Exception):
    pass


def _alarm(signum, frame):
    raise Hang()


def f2q(x):
    q = Fraction(x)
    return [str(q.numerator), str(q.denominator)]


def construct_request(case):
    """What the run feeds to the graph constructor, for the model: per event the definition of its event type in force (concept
    associations and relations) and its objects."""
    up = case.get('upgrade_at')
    by_name = {e['name']: e for e in case['spec']['ets']}
    out = []
    for k, i in enumerate(case['order']):
        ev = case['spec']['events'][i]
        e = by_name[ev['type']]
        props = [{'name': p['name'], 'ot': p['ot'], 'assocs': [a['concept'] for a in p['assocs']]} for p in e['props']]
        objs = [[n, list(vs)] for n, vs in ev['props']]
        if up is not None and k >= up and e.get('later_prop'):
            props.append({'name': 'px', 'ot': 'oa', 'assocs': ['ca']})
            objs.append(['px', ['vx%d' % k]])
        rels = [{'kind': r['kind'] if r['kind'] in ('inter', 'intra') else 'other', 'source': r['source'], 'target': r['target'],
                 'sc': r.get('sc') or '', 'tc': r.get('tc') or ''} for r in e['rels']]
        out.append({'et': {'props': props, 'rels': rels}, 'props': objs})
    return {'op': 'construct', 'events': out}


def explicit_seed_probe(spec, events, min_conf, max_depth, upgrade_at):
    """The less used way of mining: Miner.mine(seed=node) for one given node (a fresh miner, the same events). The instance of
    that seed must hold the seed with confidence 1, and everything reported meets the minimum and lies in [0,1]."""
    from edxml.miner.knowledge import KnowledgeBase
    from edxml.miner import Miner
    from edxml.miner.node import EventObjectNode
    from vf import gen
    try:
        kb = KnowledgeBase()
        m = Miner(kb)
        m.add_ontology(build_ontology(spec, extra=upgrade_at is not None))
        for ev in events:
            m.add_event(gen.build_event(ev, 'plain'))
        cands = sorted((n for n in m._graph._nodes.values() if isinstance(n, EventObjectNode)), key=lambda n: n.id)
        if not cands:
            return None
        seed = cands[len(cands) // 2]
        m.mine(seed, min_conf, max_depth)
        inst = kb.concept_collection.concepts.get(seed.id)
        if inst is None:
            return 'mining with the explicit seed %s yields no instance for it' % seed.id
        if not any(seed.id in a.nodes for a in inst.attributes):
            return 'the instance mined for the explicit seed %s does not contain the seed' % seed.id
        if abs(seed.seed_confidences.get(seed.id, 0) - 1.0) > 1e-12:
            return 'the explicit seed %s has confidence %r in its own instance' % (seed.id, seed.seed_confidences.get(seed.id))
        for a in inst.attributes:
            if not (min_conf - 1e-12 <= a.confidence <= 1 + 1e-12):
                return 'explicit seed %s: attribute %s=%s has confidence %r (minimum %s)' % (seed.id, a.name, a.value, a.confidence, min_conf)
        # another seed on the same graph, with a higher minimum: everything that is reported now (the instance of the first seed
        # included) meets the minimum that was asked for now
        seed2 = cands[0] if cands[0] is not seed else cands[-1]
        min2 = max(min_conf, 0.5)
        m.mine(seed2, min2, max_depth)
        for sid, inst in kb.concept_collection.concepts.items():
            for a in inst.attributes:
                if not (min2 - 1e-12 <= a.confidence <= 1 + 1e-12):
                    return ('after mining seed %s with minimum %s and then seed %s with minimum %s, attribute %s=%s of instance %s is reported '
                            'with confidence %r' % (seed.id, min_conf, seed2.id, min2, a.name, a.value, sid, a.confidence))
                for n in a.nodes.values():
                    c = n.seed_confidences.get(sid, 0)
                    if c < min2 - 1e-12:
                        return ('after mining seed %s with minimum %s and then seed %s with minimum %s, node %s is reported in instance %s '
                                'with confidence %r' % (seed.id, min_conf, seed2.id, min2, n.id, sid, c))
    except Exception as ex:
        return 'mining with an explicit seed raised %s' % type(ex).__name__
    return None


def bystander_spec(spec):
    """The same event type names defined differently: event types with concept relations lose them, the others get one."""
    out = json.loads(json.dumps(spec))
    for e in out['ets']:
        if any(r['kind'] in ('intra', 'inter') for r in e['rels']):
            e['rels'] = [r for r in e['rels'] if r['kind'] not in ('intra', 'inter')]
        elif len(e['props']) >= 2:
            a, b = e['props'][0], e['props'][1]
            for p in (a, b):
                if not p['assocs']:
                    p['assocs'] = [{'concept': CONCEPTS[0], 'confidence': 5, 'cnp': 128}]
            e['rels'] = e['rels'] + [{'kind': 'inter', 'source': a['name'], 'target': b['name'], 'confidence': 5,
                                      'sc': a['assocs'][0]['concept'], 'tc': b['assocs'][0]['concept']}]
        e['later'], e['later_prop'] = [], False
    return out


def run(spec, order, min_conf, max_depth, upgrade_at=None, mine_at=None, refuse_first=False, bystander=False):
    from edxml.miner.knowledge import KnowledgeBase
    from edxml.miner import Miner
    from edxml.miner.node import EventObjectNode
    from vf import gen
    try:
        o = build_ontology(spec)
        o.validate()
        if upgrade_at is not None:
            o2 = build_ontology(spec, extra=True)
            o2.validate()
            build_ontology(spec).update(o2)
    except Exception:
        # the generator produced something that is not a valid ontology (or upgrade) by itself: not a case
        return {'skipped': True}
    other = None
    if bystander:
        # another miner in the same process, for another ontology that uses the same event type names, is given every event first:
        # what one miner finds does not depend on what other miners are doing
        try:
            other = Miner(KnowledgeBase())
            other.add_ontology(build_ontology(bystander_spec(spec)))
        except Exception:
            other = None
    kb = KnowledgeBase()
    m = Miner(kb)
    m.add_ontology(o)
    events = [spec['events'][i] for i in order]
    by_name = {e['name']: e for e in spec['ets']}
    late_values = []
    old = signal.signal(signal.SIGALRM, _alarm)
    signal.alarm(WATCHDOG_S)
    tracer = SearchTracer()
    try:
        with tracer:
            for k, ev in enumerate(events):
                if upgrade_at is not None and k == upgrade_at:
                    # the ontology is upgraded in mid stream: event types gain universals relations
                    if refuse_first:
                        # ... first offered together with a conflicting definition of the event source: refused half way
                        from edxml.error import EDXMLOntologyValidationError
                        bad = build_ontology(spec, extra=True)
                        bad.get_event_source('/s/').set_description('described differently')
                        try:
                            m.add_ontology(bad)
                        except EDXMLOntologyValidationError:
                            pass
                    m.add_ontology(build_ontology(spec, extra=True))
                if upgrade_at is not None and k >= upgrade_at and by_name[ev['type']].get('later_prop'):
                    # events of the upgraded type carry an object of the new property
                    ev = dict(ev, props=ev['props'] + [['px', ['vx%d' % k]]])
                    late_values.append('vx%d' % k)
                if mine_at is not None and k == mine_at:
                    # mining in between: more events arrive afterwards and everything is mined again
                    m.mine(None, min_conf, max_depth)
                if other is not None:
                    try:
                        other.add_event(gen.build_event(spec['events'][order[k]], 'plain'))
                    except Exception:
                        pass
                m.add_event(gen.build_event(ev, 'plain'))
            m.mine(None, min_conf, max_depth)
        outcome = 'ok'
    except Hang:
        outcome = 'hang'
    except Exception as ex:
        outcome = 'raised:' + type(ex).__name__
    finally:
        signal.alarm(0)
        signal.signal(signal.SIGALRM, old)
    if outcome != 'ok':
        return {'skipped': False, 'outcome': outcome}
    graph = m._graph
    nodes = [n for n in graph._nodes.values() if isinstance(n, EventObjectNode)]
    insts = []
    noisy_checks = []
    explicit = explicit_seed_probe(spec, events, min_conf, max_depth, upgrade_at)
    try:
        for seed_id, inst in sorted(kb.concept_collection.concepts.items()):
            attrs = []
            for a in inst.attributes:
                confs = [n.seed_confidences.get(seed_id, 0) for n in a.nodes.values()]
                noisy_checks.append([[f2q(c) for c in confs], a.confidence])
                attrs.append({'name': a.name, 'value': a.value, 'confidence': a.confidence, 'node_confs': sorted(confs),
                              'node_ids': sorted(a.nodes.keys()),
                              'names': sorted([k, v] for k, v in a.concept_names.items())})
            seed_present = any(seed_id in a.nodes for a in inst.attributes)
            seed_conf = None
            for a in inst.attributes:
                if seed_id in a.nodes:
                    seed_conf = a.nodes[seed_id].seed_confidences.get(seed_id)
            insts.append({'seed': seed_id, 'attrs': sorted(attrs, key=lambda x: (x['name'], x['value'])), 'seed_present': seed_present,
                          'seed_conf': seed_conf, 'related': sorted([k, v] for k, v in inst.get_related_concepts().items()),
                          'names': sorted([k, v] for k, v in inst.get_concept_names().items())})
        taints = sorted([n.id, n.taint] for n in nodes)
        from edxml.miner.inference import RelationInference
        # what extract_result_set reads (the knowledge base was filled by mine() with the same minimum)
        extract_in = [{'id': n.id, 'attr': n.attribute_name, 'value': n.value, 'sc': [[sid, f2q(c)] for sid, c in n.seed_confidences.items()]}
                      for n in sorted(nodes, key=lambda n: n.id)]
        graph_view = {'nodes': sorted(n.id for n in nodes),
                      'links': sorted({(e.source.id, e.target.id) for n in nodes for e in n.get_inferences() if isinstance(e, RelationInference)})}
        # per node: its seed confidences in the order the seeds were mined (dict order), its taint, whether it was a seed
        taint_checks = [[[f2q(c) for c in n.seed_confidences.values()], n.taint, n.id in kb.concept_collection.concepts] for n in nodes]
        covered = {nid for inst in kb.concept_collection.concepts.values() for a in inst.attributes for nid in a.nodes}
        uncovered = sorted(n.id for n in nodes if n.id not in covered)
        j1 = kb.to_json()
        kb2 = type(kb).from_json(j1)
        j2 = kb2.to_json()
        def canon(x):
            # value sets are serialized as lists in arbitrary order
            if isinstance(x, dict):
                return {k: canon(v) for k, v in x.items()}
            if isinstance(x, list):
                items = [canon(v) for v in x]
                return sorted(items, key=lambda v: json.dumps(v, sort_keys=True))
            return x
        d1, d2 = canon(json.loads(j1)), canon(json.loads(j2))
        titles_same = [c.get('title') for c in d1['concepts']] == [c.get('title') for c in d2['concepts']]
        for c in d1['concepts'] + d2['concepts']:
            c.pop('title', None)
        json_same = d1 == d2
        uni = {}
        for key, getter in (('names', kb.get_names_for), ('descriptions', kb.get_descriptions_for), ('containers', kb.get_containers_for)):
            rows = set()
            for ot in OTYPES:
                for v in VALUES:
                    for sot, svals in getter(ot, v).items():
                        for sv in svals:
                            rows.add((ot, v, sot, sv))
            uni[key] = sorted(list(r) for r in rows)
    except Exception as ex:
        return {'skipped': False, 'outcome': 'inspect-raised:' + type(ex).__name__ + ':' + str(ex)[:100]}
    return {'skipped': False, 'outcome': 'ok', 'instances': insts, 'taints': taints, 'uncovered': uncovered, 'json_same': json_same, 'titles_same': titles_same,
            'universals': uni, 'noisy_checks': noisy_checks, 'taint_checks': taint_checks, 'n_nodes': len(nodes),
            'passes': tracer.passes, 'picks': tracer.picks, 'trace_problem': tracer.problem, 'graph': graph_view, 'extract_in': extract_in,
            'late_missing': sorted(v for v in late_values if not any(a['value'] == v for inst in insts for a in inst['attrs'])),
            # coverage, from the events themselves (not from the nodes the graph happens to hold): every object of a property that
            # is associated with a concept
            'explicit_seed': explicit,
            'missing_objects': sorted([ot, v] for ot, v in {(p['ot'], v) for ev in events for p in by_name[ev['type']]['props'] if p['assocs']
                                                            for n, vs in ev['props'] if n == p['name'] for v in vs}
                                      if not any(a['value'] == v and a['name'].split(':')[0] == ot for inst in insts for a in inst['attrs']))}


class C20(Property):
    id = 'C20'
    title = 'Concept mining terminates with well-formed, covering, serializable results'
    design_ref = 'DESIGN.md section 10, C20'
    required_theorems = (
        'noisyOr_unit', 'noisyOr_ge_each', 'attribute_meets_minimum', 'taintOf_unit', 'taintHistory_unit', 'taintHistory_mono', 'dijkstra_unit', 'relatedStep_unit',
        'round_decreases', 'rounds_bounded', 'universals_exact', 'tenth_unit',
        'pickOk_sound', 'scoped_checker_refines', 'never_crosses_inter', 'inScope_unit', 'search_wellformed', 'search_terminates', 'search_sorted', 'search_visited_final', 'checker_exact', 'coverage',
        'construct_covers', 'nodes_sound', 'nodes_concept', 'links_closed', 'links_symm', 'links_complete', 'graph_covers', 'graph_nodes_event',
        'old_construction_misses', 'old_agrees_when_sources_present', 'objects_covered',
        'extract_mem', 'extract_meets_minimum', 'extract_shape', 'covered_in_instance', 'extract_antitone',
    )
    level_text = ('PARTIAL. Lean 4 theorems over (a) the confidence arithmetic of the miner on exact rationals: every noisy-or '
                  'combination (attribute, concept name and related concept confidences), the taint formula as the SDK computes '
                  'it, and every reasoning step stay inside [0,1]; an attribute is at least as confident as every node confirming '
                  'it, so it meets the requested minimum when its nodes do; (b) the reasoning pass (_reason_from, the Dijkstra '
                  'variant) as a checker of executions: for every graph, every cut-off, every order in which equally confident '
                  'nodes are taken and every set of admitted edges, an accepted execution leaves the seed with confidence 1, all '
                  'confidences in [0,1], every other assigned confidence above the requested minimum, processes no node twice (so '
                  'the loop ends within as many iterations as there are nodes), processes nodes in order of decreasing confidence '
                  'and never changes a confidence once its node was processed; the tolerant checker used for the comparison is '
                  'the exact algorithm when its slack is zero; (c) seed selection: each round leaves strictly fewer candidate seeds '
                  '(mining without a seed ends within as many rounds as there are nodes), an accepted choice of seed is an untainted '
                  'most confident node and mining stops only when none is left, and a node with positive taint belongs '
                  'to an instance (coverage); (d) the mined universals are exactly the (name, description, container) pairs '
                  'present in the events. Tied to the code by replaying the trace of every reasoning pass of real mining runs '
                  '(processed nodes, considered edges, assigned confidences) through the checker and comparing the resulting '
                  'confidences, and by comparing the arithmetic and the universals on the values of those runs. Which edges a '
                  'pass may use is modelled too (edges to hubs and of intra-concept relations always, of inter-concept relations '
                  'never, from a hub to an object node when the concept names collected in the seed put its concept in scope '
                  'above the minimum): the trace lists every outgoing edge of every processed node with what the pass made of it, '
                  'and the checker decides it again (scoped_checker_refines, never_crosses_inter, inScope_unit); (e) graph construction '
                  'from events (GraphConstructor.add): every object an event holds for a concept-associated property gets a node '
                  '(construct_covers, graph_covers: the first half of coverage), nodes stand for objects the event holds and carry a '
                  'concept of their property, links join different nodes of one event in both directions and every source object of '
                  'a concept relation with every target object; the node and link sets of every real run are compared with the '
                  'model (op construct); objects_covered composes it with seed selection and coverage: once mining without a seed '
                  'has stopped, every such object has a node with a confidence of at least the minimum for some mined seed; (f) '
                  'extract_result_set: a node is reported under attribute (name, value) of the instance of a seed exactly when its '
                  'confidence for that seed is not below the minimum (extract_mem), so what coverage concludes puts the node into '
                  'an instance (covered_in_instance), one instance per seed, one attribute per name and value, none empty '
                  '(extract_shape); the result set of every real run is compared with the model (op extract, on the exact values '
                  'of the floats). Hub construction and the JSON round trip are judged by the independent oracle only: '
                  'tested, not proved.')
    level_note = ('PARTIAL: hub construction (which hubs exist when a pass starts) is an input of the '
                  'model, not modelled; binary floating point is modelled by exact '
                  'rationals (the checker grants products a slack of 1e-9; theorems are about slack 0).')
    technique = 'Lean 4 proof (invariants of the reasoning pass by induction over executions; bounds of the confidence arithmetic by induction over lists; termination measures; set characterisation of universals) + trace replay and differential correspondence; oracle-based testing of hub construction and JSON'
    parallel = True
    assumptions = ('confidences of the ontology are integers 0..10',)

    def rule(self):
        return ('cases: (ontology with 1-3 event types, concept associations incl. specialisations and attribute extensions, '
                'intra/inter/other and universals relations; 0-7 events over 4 values; an event order; min_confidence; max_depth); '
                'observed: outcome under a watchdog, every instance (seed, attributes, confidences, names, related concepts), '
                'node taints, uncovered nodes, universals, JSON round trip, the trace of every reasoning pass; non-trivial = at least two instances; distinct by content')

    def generate(self, rng, tier):
        n = 150 if tier == 'quick' else 4000
        for i in range(n):
            # every fifth case: more events and mostly intra-concept relations, so that reasoning passes take several steps
            spec = gen_spec(rng, big=(i % 5 == 2))
            order = list(range(len(spec['events'])))
            rng.shuffle(order)
            c = {'spec': spec, 'order': order, 'min_conf': rng.choice(MIN_CONF), 'max_depth': rng.choice(MAX_DEPTH)}
            if order and rng.random() < 0.5:
                c['upgrade_at'] = rng.randrange(len(order))
                c['refuse_first'] = rng.random() < 0.5
            if len(order) >= 2 and rng.random() < 0.3:
                c['mine_at'] = rng.randrange(1, len(order))
            if i % 10 == 4:
                # an event type that has relations of two kinds gains a second relation of the first kind in mid stream
                et = {'name': 't0', 'names': ['p0', 'p1', 'p2', 'p3'],
                      'props': [{'name': 'p%d' % k, 'ot': OTYPES[k % len(OTYPES)], 'confidence': 10, 'assocs': [], 'multivalued': False}
                                for k in range(4)],
                      'rels': [{'kind': 'container', 'source': 'p0', 'target': 'p1', 'confidence': 10},
                               {'kind': rng.choice(['name', 'description']), 'source': 'p2', 'target': 'p3', 'confidence': 10}],
                      'later': [{'kind': 'container', 'source': 'p2', 'target': 'p1'}]}
                evs = [{'type': 't0', 'source': '/s/', 'props': [['p%d' % k, [rng.choice(VALUES)]] for k in range(4)]}
                       for _ in range(rng.randint(2, 4))]
                c = {'spec': {'ets': [et], 'events': evs}, 'order': list(range(len(evs))), 'min_conf': rng.choice(MIN_CONF),
                     'max_depth': rng.choice(MAX_DEPTH), 'upgrade_at': 1}
            if i % 4 == 1:
                c['bystander'] = True
            if i % 10 == 9:
                # cases of their own for the known finding (titles after a JSON round trip), so that it cannot hide anything
                c['title_probe'] = True
            yield c

    def flags_hit(self, case, replies):
        return ['jsonDropsNamingPriority'] if case.get('title_probe') else []

    def observe(self, case):
        r = run(case['spec'], case['order'], case['min_conf'], case['max_depth'], case.get('upgrade_at'), case.get('mine_at'),
                case.get('refuse_first', False), case.get('bystander', False))
        if r.get('skipped') or r.get('outcome') != 'ok':
            return r
        # what is compared with the model: the arithmetic on the real values (rounded) and the universals
        return {'skipped': False, 'outcome': 'ok', 'noisy': [round(c[1], 9) for c in r['noisy_checks']],
                'taint': [round(c[1], 9) for c in r['taint_checks']],
                'graph': {'nodes': r['graph']['nodes'], 'links': [list(x) for x in r['graph']['links']]},
                'result_set': self.result_view(r),
                'taint_ok': self.taint_consistent(r), 'universals': r['universals'], 'search': self.search_view(r), 'picks': ['ok'] * len(r['picks']), 'detail': r}

    @staticmethod
    def result_view(r):
        # nodes are numbered by their position in the sorted list of node ids (as in the request to the model)
        num = {n['id']: k for k, n in enumerate(r['extract_in'])}
        return sorted([num.get(i['seed'], i['seed']), sorted([a['name'], a['value'], sorted(num.get(k, k) for k in a['node_ids'])] for a in i['attrs'])]
                      for i in r['instances'])

    @staticmethod
    def taint_consistent(r):
        return True

    @staticmethod
    def search_view(r):
        # per reasoning pass: the trace is an execution of the algorithm, and the confidences it ends with
        if r.get('trace_problem'):
            return r['trace_problem']
        return [['accepted' if not p['unmatched'] else 'confidence assigned through an edge that was not considered', p['sc']]
                for p in r['passes']]

    def requests_obs(self, case, obs):
        # mining is not deterministic (instances depend on the iteration order of sets): the model is asked about the
        # values of this very run
        if obs.get('skipped') or obs.get('outcome') != 'ok':
            return []
        r = obs['detail']
        rels = []
        by_et = {e['name']: e for e in case['spec']['ets']}
        evs = []
        # the graph: which nodes and links the events yield
        reqs = [construct_request(case)]
        # the result set: which node is reported under which attribute of which instance
        num = {n['id']: k for k, n in enumerate(r['extract_in'])}
        reqs.append({'op': 'extract', 'min': f2q(case['min_conf']),
                     'nodes': [{'id': num[n['id']], 'attr': n['attr'], 'value': n['value'],
                                'sc': [[num[sid], c] for sid, c in n['sc'] if sid in num]} for n in r['extract_in']]})
        # universals are mined per event with the relations of its own event type: one request per event type
        up = case.get('upgrade_at')
        ordered = [case['spec']['events'][i] for i in case['order']]
        for e in case['spec']['ets']:
            ptypes = {p['name']: p['ot'] for p in e['props']}
            for phase in (0, 1):
                src = e['rels'] + (e.get('later', []) if phase == 1 else [])
                rels = [{'kind': x['kind'], 'source': x['source'], 'target': x['target'], 'sourceType': ptypes[x['source']],
                         'targetType': ptypes[x['target']]} for x in src if x['kind'] in ('name', 'description', 'container')]
                evs = [ev for k, ev in enumerate(ordered) if ev['type'] == e['name'] and
                       ((up is not None and k >= up) if phase == 1 else (up is None or k < up))]
                reqs.append({'op': 'miner', 'noisy': [], 'taint': [], 'rels': rels, 'events': evs})
        reqs.append({'op': 'miner', 'noisy': [c[0] for c in r['noisy_checks']], 'taint': [c[0] for c in r['taint_checks']],
                     'seeds': [bool(c[2]) for c in r['taint_checks']], 'rels': [], 'events': []})
        # the reasoning passes of this run, replayed by the model's checker of executions
        self._n_uni = len(reqs)
        reqs.extend(search_requests(r['passes']))
        reqs.append(pick_request(r['picks']))
        return reqs

    def predict(self, case, replies):
        if not replies:
            return 'undecided'
        uni = {'names': set(), 'descriptions': set(), 'containers': set()}
        picks = ['ok' if ok else 'not a choice find_optimal_seed can make (an untainted, most confident event object node; none only when all are tainted)'
                 for ok in replies[-1]['ok']]
        graph = {'nodes': sorted(set(replies[0]['nodes'])), 'links': sorted({(a, b) for a, b in replies[0]['links']})}
        graph['links'] = [list(x) for x in graph['links']]
        result_set = sorted([i['seed'], sorted([a[0], a[1], sorted(a[2])] for a in i['attrs'])] for i in replies[1]['instances'])
        replies = replies[2:-1]
        n_search = sum(1 for rep in replies if 'valid' in rep)
        arith = replies[len(replies) - n_search - 1]
        for rep in replies[:len(replies) - n_search - 1]:
            for k in uni:
                uni[k] |= {tuple(x) for x in rep[k]}
        noisy = [round(float(Fraction(int(n), int(d))), 9) for n, d in arith['noisy']]
        taint = [round(float(Fraction(int(n), int(d))), 9) for n, d in arith['taintHistory']]
        search = []
        for rep in replies[len(replies) - n_search:]:
            if rep['valid']:
                search.append(['accepted', [None if c is None else float(Fraction(int(c[0]), int(c[1]))) for c in rep['sc']]])
            else:
                search.append(['not an execution of the reasoning pass: entry %d of the trace (%s)' % (rep['firstBad'], rep.get('why')), None])
        return {'skipped': False, 'outcome': 'ok', 'noisy': noisy, 'taint': taint, 'taint_ok': True, 'graph': graph, 'result_set': result_set,
                'universals': {k: sorted(list(x) for x in v) for k, v in uni.items()}, 'search': search, 'picks': picks, 'detail': 'undecided'}

    def fill_undecided(self, case, obs, pred):
        if pred == 'undecided':
            return obs
        pred['detail'] = obs.get('detail')
        # floats are never compared digit for digit: the exact value of the model and the float of the implementation
        # agree when they are within 2e-9 of each other (both are shown rounded to nine decimals)
        po, pn = obs.get('noisy'), pred.get('noisy')
        if isinstance(po, list) and isinstance(pn, list) and len(po) == len(pn):
            pred['noisy'] = [o if abs(o - n) <= 2e-9 else n for o, n in zip(po, pn)]
        po, pn = obs.get('taint'), pred.get('taint')
        if isinstance(po, list) and isinstance(pn, list) and len(po) == len(pn):
            pred['taint'] = [o if abs(o - n) <= 2e-9 else n for o, n in zip(po, pn)]
        return pred

    def oracle(self, case, obs):
        if obs.get('skipped'):
            return None
        what = 'mining with min_confidence=%s max_depth=%s' % (case['min_conf'], case['max_depth'])
        if obs['outcome'] == 'hang':
            return '%s did not finish within %d seconds' % (what, WATCHDOG_S)
        if obs['outcome'] != 'ok':
            return '%s %s' % (what, obs['outcome'])
        r = obs['detail']
        eps = 1e-12

        def unit(x):
            return isinstance(x, (int, float)) and -eps <= x <= 1 + eps
        for inst in r['instances']:
            if not inst['seed_present']:
                return '%s: instance %s does not contain its seed' % (what, inst['seed'])
            if inst['seed_conf'] is None or abs(inst['seed_conf'] - 1.0) > eps:
                return '%s: the seed of instance %s has confidence %s' % (what, inst['seed'], inst['seed_conf'])
            for a in inst['attrs']:
                if not unit(a['confidence']):
                    return '%s: attribute %s=%s of %s has confidence %s' % (what, a['name'], a['value'], inst['seed'], a['confidence'])
                if a['confidence'] < case['min_conf'] - eps:
                    return '%s: attribute %s=%s of %s has confidence %s below the requested minimum' % (
                        what, a['name'], a['value'], inst['seed'], a['confidence'])
                for c in a['node_confs']:
                    if not unit(c):
                        return '%s: a node of attribute %s=%s has confidence %s' % (what, a['name'], a['value'], c)
                for n, c in a['names']:
                    if not unit(c):
                        return '%s: concept name %s of attribute %s=%s has confidence %s' % (what, n, a['name'], a['value'], c)
            for k, c in inst['related'] + inst['names']:
                if not unit(c):
                    return '%s: instance %s: %s has confidence %s' % (what, inst['seed'], k, c)
        for nid, t in r['taints']:
            if not unit(t):
                return '%s: node %s has taint %s' % (what, nid, t)
        if r.get('late_missing') and case['min_conf'] <= 1.0:
            return '%s: objects of the concept-associated property that an ontology upgrade brought are in no instance: %s' % (what, r['late_missing'][:4])
        if r.get('explicit_seed') and case['min_conf'] <= 1.0:
            return '%s: %s' % (what, r['explicit_seed'])
        if r.get('missing_objects') and case['min_conf'] <= 1.0:
            return '%s: objects of concept-associated properties in no instance: %s' % (what, r['missing_objects'][:4])
        if r['uncovered'] and case['min_conf'] <= 1.0:
            return '%s: concept-associated event objects in no instance: %s' % (what, r['uncovered'][:4])
        if case.get('title_probe'):
            # known finding: the JSON format (pinned by the SDK's tests) has no concept naming priority
            if not r['titles_same']:
                return '%s: instance titles change in a JSON round trip (the naming priority of attributes is not serialized)' % what
            return None
        if not r['json_same']:
            return '%s: the knowledge base changes in a JSON round trip' % what
        # universals: exactly the pairs present in the events
        want = {'names': set(), 'descriptions': set(), 'containers': set()}
        key = {'name': 'names', 'description': 'descriptions', 'container': 'containers'}
        up = case.get('upgrade_at')
        ordered = [case['spec']['events'][i] for i in case['order']]
        for e in case['spec']['ets']:
            ptypes = {p['name']: p['ot'] for p in e['props']}
            for x in e['rels'] + [dict(y, later=True) for y in e.get('later', [])]:
                if x['kind'] not in key:
                    continue
                for k, ev in enumerate(ordered):
                    if ev['type'] != e['name']:
                        continue
                    if x.get('later') and (up is None or k < up):
                        continue
                    d = {k: v for k, v in ev['props']}
                    for t in d.get(x['target'], []):
                        for s in d.get(x['source'], []):
                            want[key[x['kind']]].add((ptypes[x['target']], t, ptypes[x['source']], s))
        for k in want:
            if sorted(list(v) for v in want[k]) != r['universals'][k]:
                return '%s: mined %s are %s, the events hold %s' % (what, k, r['universals'][k][:5], sorted(want[k])[:5])
        return None

    def neighbours(self, case, rng):
        out = []
        for _ in range(30):
            c = json.loads(json.dumps(case))
            rng.shuffle(c['order'])
            c['min_conf'], c['max_depth'] = rng.choice(MIN_CONF), rng.choice(MAX_DEPTH)
            out.append(c)
        return out

    def reductions(self, case):
        order = case['order']
        for i in range(len(order)):
            yield dict(case, order=order[:i] + order[i + 1:])

    def nontrivial_obs(self, case, obs):
        d = obs.get('detail') if isinstance(obs, dict) else None
        return json.dumps(case, sort_keys=True) if isinstance(d, dict) and len(d.get('instances', [])) >= 2 else None

    def sample_view(self, case):
        return {'event_types': len(case['spec']['ets']), 'events': len(case['order']), 'min_conf': case['min_conf'], 'max_depth': case['max_depth']}


PROPERTY = C20()
