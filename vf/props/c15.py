"""C15 - damaged or hostile input fails safely with an EDXML error."""
import glob
import io
import json
import os
import random
import re
import signal

from vf.core import Property
from vf import parsing as P
from vf.props import c14

NS = 'http://edxml.org/edxml'
WATCHDOG_S = 20

BYTE_FAULTS = ['flip-bit', 'delete-range', 'insert-bytes', 'duplicate-range', 'truncate', 'splice', 'replace-byte', 'swap-ranges']
TOKEN_FAULTS = ['delete-event-attribute', 'bad-object-value', 'delete-attribute', 'empty-attribute', 'retype-attribute', 'rename-element', 'remove-child', 'duplicate-child',
                'wrong-version', 'undefined-reference', 'remove-namespace', 'text-into-element', 'huge-number', 'negative-number',
                'move-element', 'entity-reference', 'entity-reference', 'cdata-section', 'comment-inside', 'pi-inside',
                'redefine-ontology', 'redefine-ontology']


_CORPUS = []


def corpus_docs():
    """Single-file valid documents of the EDXML test corpus."""
    if not _CORPUS:
        try:
            import edxml_test_corpus
            root = os.path.join(os.path.dirname(edxml_test_corpus.__file__), 'tests', '3', '3.0', '3.0.0', 'valid')
            for d in sorted(glob.glob(os.path.join(root, '*'))):
                files = sorted(glob.glob(os.path.join(d, 'input*.edxml')))
                if len(files) == 1:
                    with open(files[0], 'rb') as f:
                        _CORPUS.append([os.path.basename(d), f.read()])
        except Exception:
            pass
    return _CORPUS


def generated_doc(rng):
    items = P.gen_items(rng, rng.randint(1, 6), faults=False)
    data, _ = P.build_document(items, '3.0.0')
    return data


def typed_doc(rng, maxlen=None, et_seed=None):
    """A document over an event type with many data types and attachments (the C03 generators)."""
    from vf.props import c03
    from edxml import EDXMLWriter
    from vf import gen
    et = c03.gen_event_type(rng if et_seed is None else random.Random(et_seed))
    if maxlen is not None:
        et['props'].append({'name': 'len', 'dt': 'string:%d:mc:u' % maxlen, 'regex': None, 'optional': True, 'multivalued': False})
    if not et['atts']:
        et['atts'] = [{'name': 'a0', 'base64': False}]
    o = c03.build_ontology(et)
    buf = io.BytesIO()
    w = EDXMLWriter(buf, validate=False)
    w.add_ontology(o)
    for _ in range(rng.randint(1, 4)):
        ev = c03.valid_event(rng, dict(et, props=[p for p in et['props'] if p['dt'] in c03.GOOD_VALUE]))
        ev.setdefault('atts', [[et['atts'][0]['name'], [['id0', 'YWJj' if et['atts'][0]['base64'] else 'text']]]])
        if maxlen is not None:
            ev['props'].append(['len', ['x' * rng.randint(1, 5)]])
        w.add_event(gen.build_event(ev, 'plain'))
    w.close()
    return buf.getvalue()


def seed_doc(case):
    if case['doc'][0] == 'typed':
        return typed_doc(random.Random(case['doc'][1]))
    if case['doc'][0] == 'corpus':
        docs = corpus_docs()
        return docs[case['doc'][1] % len(docs)][1]
    return generated_doc(random.Random(case['doc'][1]))


def mutate_bytes(rng, data, fault, other):
    n = len(data)
    if n < 4:
        return data
    i = rng.randrange(n)
    j = min(n, i + rng.randint(1, 40))
    if fault == 'flip-bit':
        b = bytearray(data)
        b[i] ^= 1 << rng.randrange(8)
        return bytes(b)
    if fault == 'replace-byte':
        b = bytearray(data)
        b[i] = rng.choice(b'<>&"\'/= \x00\xff:{}[]')
        return bytes(b)
    if fault == 'delete-range':
        return data[:i] + data[j:]
    if fault == 'insert-bytes':
        junk = bytes(rng.choice(b'<>&"\'/= abcxyz019\n\xc3\xa9\x00') for _ in range(rng.randint(1, 12)))
        return data[:i] + junk + data[i:]
    if fault == 'duplicate-range':
        return data[:j] + data[i:j] + data[j:]
    if fault == 'truncate':
        return data[:i]
    if fault == 'splice':
        k = rng.randrange(len(other))
        return data[:i] + other[k:]
    if fault == 'swap-ranges':
        a, b = sorted([i, rng.randrange(n)])
        m = (a + b) // 2
        return data[:a] + data[m:b] + data[a:m] + data[b:]
    return data


def mutate_tokens(rng, data, fault):
    from lxml import etree
    try:
        root = etree.fromstring(data)
    except Exception:
        return data
    els = [e for e in root.iter() if isinstance(e.tag, str)]
    if fault in ('entity-reference', 'cdata-section', 'comment-inside', 'pi-inside'):
        # XML constructs that are not elements or plain text, somewhere inside an event or an ontology element
        inside = [x for x in els if any(local_name(a.tag) in ('event', 'ontology') for a in [x] + list(x.iterancestors()))]
        if not inside:
            return data
        x = rng.choice(inside)
        mark = 'M%dK' % rng.randint(10 ** 6, 10 ** 7)
        where = rng.choice(['text', 'text', 'tail', 'child'])
        if where == 'text' or (where == 'tail' and x.getparent() is None):
            x.text = (x.text or '') [:1] + mark + (x.text or '')[1:]
        elif where == 'tail':
            x.tail = mark + (x.tail or '')
        else:
            x.insert(0, etree.Element('MARK' + mark))
            mark = '<MARK%s/>' % mark
        out = etree.tostring(root).decode('utf-8')
        construct = {'entity-reference': rng.choice(['&foo;', '&foo;', 'a&foo;c', '&big;', '&undefined;']),
                     'cdata-section': rng.choice(['<![CDATA[x]]>', '<![CDATA[<p>a</p>]]>', '<![CDATA[]]>']),
                     'comment-inside': '<!-- c -->', 'pi-inside': '<?pi x?>'}[fault]
        out = out.replace(mark, construct, 1)
        if fault == 'entity-reference':
            # the entities are declared in the document, or the document points at an external subset (which is never read:
            # the reference stays in the tree undeclared), or declares something else
            out = rng.choice(['<!DOCTYPE edxml [<!ENTITY foo "bar"><!ENTITY big "&foo;&foo;&foo;">]>',
                              '<!DOCTYPE edxml [<!ENTITY foo "bar"><!ENTITY big "&foo;&foo;&foo;">]>',
                              '<!DOCTYPE edxml SYSTEM "edxml.dtd">', '<!DOCTYPE edxml PUBLIC "-//x//y//EN" "edxml.dtd">',
                              '<!DOCTYPE edxml SYSTEM "edxml.dtd" [<!ELEMENT edxml ANY>]>']) + out
        return out.encode('utf-8')
    if fault == 'redefine-ontology':
        # the definitions arrive a second time, one of them without one of its attributes (or with another value), under a
        # higher, lower or the same version: an upgrade, a stale copy, or a conflict
        import copy
        onts = [x for x in els if local_name(x.tag) == 'ontology']
        if not onts:
            return data
        o = rng.choice(onts)
        c = copy.deepcopy(o)
        versioned = [x for x in c.iter() if isinstance(x.tag, str) and x.get('version') is not None]
        if versioned:
            optional = ('regex-hard', 'regex-soft', 'xref', 'unit-name', 'unit-symbol', 'fuzzy-matching', 'prefix-radix', 'compress',
                        'date-acquired', 'merge', 'similar', 'timespan-start', 'timespan-end', 'event-version', 'sequence')
            with_optional = [x for x in versioned if any(k in x.attrib for k in optional)]
            top = rng.choice(with_optional) if with_optional and rng.random() < 0.6 else rng.choice(versioned)
            cands = [x for x in top.iter() if isinstance(x.tag, str) and len(x.attrib)]
            x = rng.choice(cands)
            keys = [k for k in sorted(x.attrib) if k not in ('name', 'uri', 'version')] or sorted(x.attrib)
            k = rng.choice(keys)
            if top in with_optional and rng.random() < 0.7:
                # an attribute the schema does not require, of the definition itself
                x = top
                k = rng.choice([k for k in sorted(x.attrib) if k in optional])
            if rng.random() < 0.7:
                del x.attrib[k]
            else:
                x.set(k, rng.choice(['', 'x', 'a|b', 'true', '7']))
            try:
                v = int(top.get('version'))
                top.set('version', str(max(0, v + rng.choice([1, 1, 0, -1]))))
            except (ValueError, TypeError):
                pass     # the fault removed or garbled the version itself
        if rng.random() < 0.5:
            o.addnext(c)
        else:
            o.addprevious(c)
        return etree.tostring(root)
    with_attr = [e for e in els if len(e.attrib)]
    e = rng.choice(els)
    if fault == 'delete-event-attribute':
        inside = [x for x in with_attr if any(local_name(a.tag) == 'event' for a in [x] + list(x.iterancestors()))]
        if inside:
            x = rng.choice(inside)
            del x.attrib[rng.choice(sorted(x.attrib))]
        return etree.tostring(root)
    if fault == 'bad-object-value':
        objs = [x for x in els if x.getparent() is not None and local_name(x.getparent().tag) in ('properties', 'attachments')]
        if objs:
            rng.choice(objs).text = rng.choice(['.50', '-.50', '', 'NaN', '1e400', '-', '٣', 'x' * 70000, ' ', '0x10', '1_0', 'true ', '--1',
                                               '9' * 400, '=', 'é', '2020-13-45T99:99:99.000000Z', '::', '1.2.3.4.5', '...'])
        return etree.tostring(root)
    if fault in ('delete-attribute', 'empty-attribute', 'retype-attribute', 'huge-number', 'negative-number', 'undefined-reference') and with_attr:
        e = rng.choice(with_attr)
        k = rng.choice(sorted(e.attrib))
        if fault == 'delete-attribute':
            del e.attrib[k]
        elif fault == 'empty-attribute':
            e.set(k, '')
        elif fault == 'retype-attribute':
            e.set(k, rng.choice(['x', 'true', '1.5', '-', ' ', 'None', '٣', 'a' * 300, '1e3', '0x10', 'yes']))
        elif fault == 'huge-number':
            e.set(k, '9' * 40)
        elif fault == 'negative-number':
            e.set(k, '-1')
        else:
            refs = [x for x in with_attr if any(a in x.attrib for a in ('object-type', 'event-type', 'source-uri', 'source', 'target', 'name',
                                                                          'source-concept', 'target-concept', 'property-map'))]
            if refs:
                x = rng.choice(refs)
                a = rng.choice([a for a in ('object-type', 'event-type', 'source-uri', 'source', 'target', 'name', 'source-concept',
                                            'target-concept', 'property-map') if a in x.attrib])
                x.set(a, rng.choice(['undefined.thing', 'zz', '/zz/', 'p:zz', 'zz:p']))
    elif fault == 'rename-element':
        e.tag = rng.choice(['{%s}event' % NS, '{%s}ontology' % NS, '{%s}properties' % NS, '{%s}bogus' % NS, 'bogus', '{http://other/}event',
                            '{%s}property' % NS, '{%s}edxml' % NS])
    elif fault == 'remove-child' and e.getparent() is not None:
        e.getparent().remove(e)
    elif fault == 'duplicate-child' and e.getparent() is not None:
        import copy
        e.getparent().insert(e.getparent().index(e), copy.deepcopy(e))
    elif fault == 'move-element' and e.getparent() is not None:
        target = rng.choice(els)
        if target is not e and e not in list(target.iterancestors()) and target not in list(e.iter()):
            e.getparent().remove(e)
            target.append(e)
    elif fault == 'wrong-version':
        root.set('version', rng.choice(['2.0.0', '3.1.0', '', '3', '3.0.0.0', 'x', 'a.b.c', '3.x.0', '-3.0.0', '3.0.x']))
    elif fault == 'remove-namespace':
        data2 = etree.tostring(root).replace(b' xmlns="%s"' % NS.encode(), b'', 1)
        return data2
    elif fault == 'text-into-element':
        e.text = rng.choice(['text', '<', ' \n ', 'é', ']]>'])
    return etree.tostring(root)


def local_name(tag):
    return tag.split('}', 1)[1] if isinstance(tag, str) and tag.startswith('{') else tag


class Hang(Exception):
    pass


def _alarm(signum, frame):
    raise Hang()


def run(data, mode, cuts, validate=True):
    """Parse with a watchdog. Returns the outcome and what the callbacks saw before it."""
    from edxml import EDXMLPullParser, EDXMLPushParser
    from edxml.error import EDXMLError
    from edxml.event_validator import EventValidator
    delivered = {'events': 0, 'ontologies': 0, 'invalid': []}
    base = EDXMLPullParser if mode == 'pull' else EDXMLPushParser

    class Prs(base):
        def _parsed_event(self, event):
            delivered['events'] += 1
            # what is delivered is what the document holds: the full character content of every object element
            try:
                props = event.get_properties()
                for child in event.find('{%s}properties' % NS):
                    if isinstance(child.tag, str):
                        full = ''.join(child.itertext())
                        if full not in {str(v) for v in props.get(local_name(child.tag), [])}:
                            delivered['invalid'].append([delivered['events'], 'object %r delivered as %r' % (
                                full[:40], sorted(str(v) for v in props.get(local_name(child.tag), []))[:3])])
            except Exception as ex:
                delivered['invalid'].append([delivered['events'], 'content:' + type(ex).__name__])
            if validate:
                # the gate, asked again by a validator without history
                try:
                    ok = EventValidator(self.get_ontology()).is_valid(event)
                except Exception as ex:
                    ok = 'err:' + type(ex).__name__
                if ok is not True:
                    delivered['invalid'].append([delivered['events'], ok])

        def _parsed_ontology(self, ontology):
            super()._parsed_ontology(ontology)
            delivered['ontologies'] += 1
            try:
                ontology.validate()
            except Exception as ex:
                delivered['invalid'].append(['ontology', type(ex).__name__])

    old = signal.signal(signal.SIGALRM, _alarm)
    signal.alarm(WATCHDOG_S)
    outcome = 'ok'
    try:
        p = Prs(validate=validate)
        if mode == 'pull':
            p.parse(io.BytesIO(data))
        else:
            pos = 0
            for c in list(cuts) + [len(data)]:
                if c > pos:
                    p.feed(data[pos:c])
                    pos = c
            p.close()
    except Hang:
        outcome = 'hang'
    except EDXMLError as ex:
        outcome = 'edxml:' + type(ex).__name__
    except Exception as ex:  # noqa
        outcome = 'foreign:' + type(ex).__name__
    finally:
        signal.alarm(0)
        signal.signal(signal.SIGALRM, old)
    return {'outcome': outcome, 'events': delivered['events'], 'ontologies': delivered['ontologies'], 'invalid': delivered['invalid']}


def partial_upgrade_doc(rng):
    """A document whose second ontology element first upgrades an event type (a new property of an object type that is new in
    the same element, or a changed attribute) and then fails on another definition (same version, defined differently, or an
    invalid definition); events of the upgraded type follow."""
    from edxml.ontology import Ontology
    from lxml import etree

    def base(level):
        o = Ontology()
        o.create_object_type('oa', data_type='string:0:mc:u')
        o.create_event_source('/s/')
        for name in ('ta', 'tb', 'tc'):
            et = o.create_event_type(name)
            et.create_property('p', 'oa')
        if level:
            up = o.get_event_type(rng.choice(['ta', 'tb']))
            how = rng.choice(['property', 'property', 'attachment', 'description'])
            if how == 'property':
                o.create_object_type('onew', data_type=rng.choice(['number:int', 'string:4:mc:u', 'boolean']))
                up.create_property('extra', 'onew').make_optional()
            elif how == 'attachment':
                up.create_attachment('late')
            else:
                up.set_description('revised')
            up.set_version(2)
            # ... and a definition that cannot be merged
            bad = o.get_event_type('tc')
            rng.choice([lambda: bad.set_description('conflicting'), lambda: bad['p'].make_optional(),
                        lambda: o.get_object_type('oa').set_description('conflicting')])()
        return o
    parts = [b'<edxml xmlns="http://edxml.org/edxml" version="3.0.0">', etree.tostring(base(0).generate_xml())]
    ev = lambda t, v: ('<event event-type="%s" source-uri="/s/"><properties><p>%s</p></properties></event>' % (t, v)).encode()  # noqa: E731
    for i in range(rng.randint(0, 2)):
        parts.append(ev(rng.choice(['ta', 'tb', 'tc']), 'a%d' % i))
    parts.append(etree.tostring(base(1).generate_xml()))
    for i in range(rng.randint(1, 4)):
        parts.append(ev(rng.choice(['ta', 'tb', 'tc']), 'b%d' % i))
    parts.append(b'</edxml>')
    return b''.join(parts)


def run_resume(data, cuts):
    """A push parser whose owner catches EDXML errors and keeps feeding the rest of the input: whatever happens afterwards must
    stay inside the EDXML error family."""
    from edxml import EDXMLPushParser
    from edxml.error import EDXMLError, EDXMLEventValidationError, EDXMLOntologyValidationError

    class Prs(EDXMLPushParser):
        def _parsed_event(self, event):
            pass
    p = Prs(validate=True)
    outcome, refused = 'ok', 0
    old = signal.signal(signal.SIGALRM, _alarm)
    signal.alarm(WATCHDOG_S)
    try:
        pos = 0
        for c in list(cuts) + [len(data)]:
            if c <= pos:
                continue
            try:
                p.feed(data[pos:c])
            except (EDXMLEventValidationError, EDXMLOntologyValidationError):
                # an event or an ontology element was refused: the XML stream itself is intact, the owner feeds on
                refused += 1
                if refused > 20:
                    break
            except EDXMLError:
                # the input is not XML any more (or not EDXML at all): there is nothing to go on with
                break
            pos = c
        try:
            p.close()
        except EDXMLError:
            refused += 1
    except Hang:
        outcome = 'hang'
    except Exception as ex:  # noqa
        outcome = 'foreign:' + type(ex).__name__
    finally:
        signal.alarm(0)
        signal.signal(signal.SIGALRM, old)
    return {'outcome': outcome, 'refused': refused}


def run_many(docs, mode, clear=False):
    """Several documents through ONE parser instance (close() makes a parser reusable)."""
    from edxml import EDXMLPullParser, EDXMLPushParser
    from edxml.error import EDXMLError
    from edxml.event_validator import EventValidator
    delivered = {'events': 0, 'ontologies': 0, 'invalid': []}
    base = EDXMLPullParser if mode == 'pull' else EDXMLPushParser

    class Prs(base):
        def _parsed_event(self, event):
            delivered['events'] += 1
            try:
                ok = EventValidator(self.get_ontology()).is_valid(event)
            except Exception as ex:
                ok = 'err:' + type(ex).__name__
            if ok is not True:
                delivered['invalid'].append([delivered['events'], ok])

    outcome = 'ok'
    p = Prs(validate=True)
    old = signal.signal(signal.SIGALRM, _alarm)
    signal.alarm(WATCHDOG_S)
    try:
        for k, data in enumerate(docs):
            if clear and k:
                # the application empties the parser's ontology before it gives the parser the next document
                p.get_ontology().clear()
            if mode == 'pull':
                p.parse(io.BytesIO(data))
            else:
                p.feed(data)
            p.close()
    except Hang:
        outcome = 'hang'
    except EDXMLError as ex:
        outcome = 'edxml:' + type(ex).__name__
    except Exception as ex:  # noqa
        outcome = 'foreign:' + type(ex).__name__
    finally:
        signal.alarm(0)
        signal.signal(signal.SIGALRM, old)
    return {'outcome': outcome, 'events': delivered['events'], 'ontologies': 0, 'invalid': delivered['invalid']}


class C15(Property):
    id = 'C15'
    title = 'Damaged or hostile input fails safely with an EDXML error'
    design_ref = 'DESIGN.md section 10, C15'
    required_theorems = ('rejected_never_delivered', 'rejected_never_delivered_doc', 'stops_at_first_error', 'gate_rejection_raises',
                         'pstep_logOk', 'rejected_ontology_not_delivered')
    level = 'proof'
    level_text = ('PARTIAL. Lean 4 theorems over the parser state machine (the C14 model): for every document and wherever parsing ends, '
                  'every event that reached a handler is an event item that the validation gate accepted (with validation on), an '
                  'ontology element that the gate rejects reaches no callback and leaves the parser\'s ontology alone, '
                  'and processing stops at the first rejected element, so nothing after it has any influence. The machine is '
                  'compared with the pull and push parsers on documents with token-level faults. That no exception outside the '
                  'EDXML error family escapes and that parsing terminates for arbitrary bytes is runtime behaviour (lxml, Python '
                  'exceptions) no model exhibits: it is decided by mutation fuzzing only (byte-level and attribute-level '
                  'faults, entity references, CDATA sections, comments and processing instructions inside events and ontologies, '
                  'on corpus and generated documents, every outcome classified, delivered object values compared with the '
                  'character content of their elements, watchdog), which supports but does not '
                  'prove it.')
    level_note = ('PARTIAL: the theorem covers "no rejected event is delivered before the error" for the token-level machine; '
                  '"only EDXML errors, no hang, for any byte string" is tested (fuzzing), not proved.')
    technique = 'Lean 4 proof over the parser state machine (delivery invariant by induction over the document) + differential correspondence; mutation fuzzing for the error family and termination'
    parallel = True
    assumptions = ('handlers do not raise',)

    def rule(self):
        return ('cases: (a) documents built from abstract items with faults (invalid ontology elements, unknown types/sources, '
                'gate-rejected events) parsed by pull/push parsers, compared with the state machine; (b) corpus / generated '
                'documents with one to three byte-level or attribute-level faults, parsed by the pull parser and by the push '
                'parser under a random chunking, with a watchdog; observed: outcome class, number of callbacks before it, '
                'delivered events that a history-free validator rejects; non-trivial = a document that is not '
                'accepted by one of the parsers; distinct by content')

    def generate(self, rng, tier):
        n_items = 60 if tier == 'quick' else 1500
        for _ in range(n_items):
            items = P.gen_items(rng, rng.randint(0, 10), faults=True)
            yield {'kind': 'items', 'c14': {'items': items, 'regs': P.gen_regs(rng), 'overridden': True, 'validate': True,
                                            'mode': rng.choice(['pull', 'push']), 'cutseed': rng.randint(0, 10 ** 6), 'version': '3.0.0'}}
        for _ in range(40 if tier == 'quick' else 600):
            yield {'kind': 'reuse', 'maxlens': [rng.choice([10, 3, 5, 1]) for _ in range(rng.randint(2, 3))], 'seed': rng.randint(0, 10 ** 9),
                   'clear': rng.random() < 0.5}
        for _ in range(40 if tier == 'quick' else 1000):
            # an ontology element that is refused after part of it was merged; the owner of the push parser catches the error
            # and feeds the events that follow
            yield {'kind': 'partial-upgrade', 'seed': rng.randint(0, 10 ** 9)}
        for _ in range(60 if tier == 'quick' else 1500):
            # definitions that arrive a second time in another form
            yield {'kind': 'fuzz', 'doc': ['typed', rng.randint(0, 10 ** 6)], 'faults': ['redefine-ontology'], 'seed': rng.randint(0, 10 ** 9)}
        n = 500 if tier == 'quick' else 20000
        n_corpus = max(1, len(corpus_docs()))
        for i in range(n):
            r = rng.random()
            doc = ['corpus', rng.randrange(n_corpus)] if (corpus_docs() and r < 0.45) else \
                (['typed', rng.randint(0, 10 ** 6)] if r < 0.8 else ['gen', rng.randint(0, 10 ** 6)])
            k = rng.choice([1, 1, 1, 2, 3])
            faults = [rng.choice(BYTE_FAULTS + TOKEN_FAULTS) if rng.random() < 0.5 else (BYTE_FAULTS + TOKEN_FAULTS)[(i + j) % (len(BYTE_FAULTS) + len(TOKEN_FAULTS))]
                      for j in range(k)]
            yield {'kind': 'fuzz', 'doc': doc, 'faults': faults, 'seed': rng.randint(0, 10 ** 9)}

    def reuse_docs(self, case):
        rng = random.Random(case['seed'])
        # the same event type in every document, except for the maximum length of one string property
        return [typed_doc(random.Random(case['seed'] + i), maxlen=m, et_seed=case['seed']) for i, m in enumerate(case['maxlens'])]

    def mutated(self, case):
        rng = random.Random(case['seed'])
        data = seed_doc(case)
        other = generated_doc(random.Random(case['seed'] + 1))
        for f in case['faults']:
            data = mutate_bytes(rng, data, f, other) if f in BYTE_FAULTS else mutate_tokens(rng, data, f)
        cuts = sorted(rng.sample(range(1, max(2, len(data))), min(max(0, len(data) - 1), rng.randint(0, 8)))) if len(data) > 2 else []
        return data, cuts

    def observe(self, case):
        if case['kind'] == 'items':
            o = c14.PROPERTY.observe(case['c14'])
            return {'err': o['err'], 'delivered': [c for c in o['log'] if c[0] in ('h', 'fb')],
                    'ontologies': [c for c in o['log'] if c[0] == 'ont']}
        if case['kind'] == 'partial-upgrade':
            data = partial_upgrade_doc(random.Random(case['seed']))
            ends = [m.end() for m in re.finditer(rb'</event>|</ontology>', data)]
            r = {'outcome': run_resume(data, ends)['outcome'], 'events': 0, 'ontologies': 0, 'invalid': []}
            return {'pull': r, 'push': r}
        if case['kind'] == 'reuse':
            # (a push parser cannot be fed a second document: its XML parser is not renewed by close())
            r = run_many(self.reuse_docs(case), 'pull', case.get('clear', False))
            return {'pull': r, 'push': r}
        data, cuts = self.mutated(case)
        obs = {'pull': run(data, 'pull', []), 'push': run(data, 'push', cuts)}
        if case['seed'] % 3 == 0:
            # parsers that do not validate must fail as safely (what they deliver is not judged)
            nv = run(data, 'pull' if case['seed'] % 2 else 'push', [] if case['seed'] % 2 else cuts, validate=False)
            obs['novalidate'] = {'outcome': nv['outcome']}
        if case['seed'] % 3 == 1:
            # the owner of a push parser catches the EDXML error and keeps feeding (element by element)
            ends = [m.end() for m in re.finditer(rb'</event>|</ontology>', data)]
            obs['resume'] = {'outcome': run_resume(data, ends)['outcome']}
        return obs

    def requests(self, case):
        if case['kind'] == 'items':
            return c14.PROPERTY.requests(case['c14'])
        return []

    def predict(self, case, replies):
        if case['kind'] == 'items':
            v = c14.PROPERTY.predict(case['c14'], replies)
            return {'err': v['err'], 'delivered': [c for c in v['log'] if c[0] in ('h', 'fb')],
                    'ontologies': [c for c in v['log'] if c[0] == 'ont']}
        return 'undecided'

    def fill_undecided(self, case, obs, pred):
        return obs if pred == 'undecided' else pred

    def oracle(self, case, obs):
        if case['kind'] == 'items':
            if obs['err'] is not None and str(obs['err']).startswith('foreign:'):
                return 'parsing raised %s, which is not an EDXML error' % obs['err'][8:]
            by_idx = {it['idx']: it for it in case['c14']['items'] if it['k'] == 'event'}
            for c in obs['delivered']:
                if not by_idx[c[-1]]['gate']:
                    return 'event %d is rejected by the validation gate but was delivered to a callback' % c[-1]
            # an ontology callback is due for every ontology element that was accepted, and for no other
            accepted = 0
            for it in case['c14']['items']:
                if it['k'] == 'ont':
                    if not it['valid']:
                        break
                    accepted += 1
            if len(obs.get('ontologies', [])) > accepted:
                return ('%d ontology callbacks for %d accepted ontology elements: an ontology element that the validation gate '
                        'rejects reached a callback before the error' % (len(obs['ontologies']), accepted))
            return None
        nv = obs.get('novalidate')
        if nv is not None:
            if nv['outcome'] == 'hang':
                return 'a parser created with validate=False, document %s with faults %s: no result after %d seconds' % (case['doc'], case['faults'], WATCHDOG_S)
            if nv['outcome'].startswith('foreign:'):
                return 'a parser created with validate=False, document %s with faults %s: raised %s, which is not an EDXML error' % (
                    case['doc'], case['faults'], nv['outcome'][8:])
        rs = obs.get('resume')
        if rs is not None:
            if rs['outcome'] == 'hang':
                return 'a push parser that is fed on after an EDXML error, document %s with faults %s: no result after %d seconds' % (
                    case['doc'], case['faults'], WATCHDOG_S)
            if rs['outcome'].startswith('foreign:'):
                return 'a push parser that is fed on after an EDXML error, document %s with faults %s: raised %s, which is not an EDXML error' % (
                    case['doc'], case['faults'], rs['outcome'][8:])
        for mode in ('pull', 'push'):
            r = obs[mode]
            what = ('%s parser, document %s with faults %s' % (mode, case['doc'], case['faults'])) if case['kind'] == 'fuzz' else \
                'a push parser that is fed on after an ontology element was refused half way' if case['kind'] == 'partial-upgrade' else \
                ('one %s parser instance fed documents with string lengths %s%s' % (mode, case['maxlens'], ', its ontology cleared in between' if case.get('clear') else ''))
            if r['outcome'] == 'hang':
                return '%s: no result after %d seconds' % (what, WATCHDOG_S)
            if r['outcome'].startswith('foreign:'):
                return '%s: raised %s, which is not an EDXML error' % (what, r['outcome'][8:])
            if r['invalid']:
                return '%s: a callback received something the validation gate rejects: %s' % (what, r['invalid'][:3])
        # Note: the push parser does not notice that a document is incomplete (close() does not close the XML parser), so
        # a truncated document may "succeed" there while the pull parser reports invalid XML. The property allows either.
        if case['kind'] in ('reuse', 'partial-upgrade'):
            return None
        a, b = obs['pull'], obs['push']
        if b['events'] > a['events'] and a['outcome'] == 'ok':
            return 'the push parser delivered %d events of document %s with faults %s, the pull parser accepts it with %d' % (
                b['events'], case['doc'], case['faults'], a['events'])
        return None

    def neighbours(self, case, rng):
        if case['kind'] in ('items', 'reuse', 'partial-upgrade'):
            return []
        return [dict(case, seed=rng.randint(0, 10 ** 9)) for _ in range(40)]

    def reductions(self, case):
        if case['kind'] == 'fuzz' and len(case['faults']) > 1:
            for i in range(len(case['faults'])):
                yield dict(case, faults=case['faults'][:i] + case['faults'][i + 1:])

    def nontrivial_obs(self, case, obs):
        if not isinstance(obs, dict):
            return None
        if case['kind'] == 'items':
            rejected = obs.get('err') is not None
        else:
            rejected = obs['pull']['outcome'] != 'ok' or obs['push']['outcome'] != 'ok'
        return json.dumps(case, sort_keys=True) if rejected else None

    def sample_view(self, case):
        if case['kind'] == 'items':
            return {'kind': 'items', 'n': len(case['c14']['items'])}
        return case


PROPERTY = C15()
