"""C11 - ontology update yields the element-wise newest definitions and nothing else."""
import copy
import json
from lxml import etree

from vf.core import Property
from vf import ontgen as G

SLOTS = [('ot', 'objecttype', 'objectTypes'), ('concept', 'concept', 'concepts'),
         ('et', 'eventtype', 'eventTypes'), ('source', 'source', 'sources')]
NS = 'http://edxml.org/edxml'


def build_ontology(spec):
    o = G.new_ontology()
    if spec.get('ot'):
        G.build_objecttype(o, spec['ot'])
    if spec.get('concept'):
        G.build_concept(o, spec['concept'])
    if spec.get('source'):
        G.build_source(o, spec['source'])
    if spec.get('et'):
        G.build_eventtype(o, spec['et'])
    for kind, s in spec.get('extra', []):
        # further definitions of a kind the ontology already has (whole-ontology comparisons walk all of them)
        {'objecttype': G.build_objecttype, 'concept': G.build_concept}[kind](o, s)
    return o


def as_element(o):
    ed = etree.Element('{%s}edxml' % NS, nsmap={None: NS})
    ed.append(o.generate_xml())
    return etree.fromstring(etree.tostring(ed))[0]


def canon(e):
    """Element XML with children sorted by their key attributes (insertion order is immaterial)."""
    x = copy.deepcopy(e)

    def key(c):
        return (c.tag, c.get('name', ''), c.get('uri', ''), c.get('source', ''), c.get('target', ''), c.get('type', ''))

    def walk(n):
        for c in n:
            walk(c)
        n[:] = sorted(n, key=key)
    walk(x)
    return etree.tostring(x).decode()


def element_of(o, slot):
    if slot == 'ot':
        return o.get_object_type('ot')
    if slot == 'concept':
        return o.get_concept('c.v')
    if slot == 'source':
        return o.get_event_source('/a/')
    return o.get_event_type('t')


def view(o):
    out = {}
    for slot, _k, _m in SLOTS:
        e = element_of(o, slot)
        out[slot] = None if e is None else canon(e.generate_xml())
    return out


def full(o):
    return canon(o.generate_xml())


def gen_family(rng):
    """Ontologies derived from a common ancestor by upgrades, additions and (sometimes) invalid edits."""
    base = {'ot': G.base_objecttype(), 'concept': dict(G.base_concept(), name='c.v'), 'source': G.base_source(),
            'et': G.base_eventtype()}
    family = []
    chain = rng.random() < 0.4
    prev = base
    for _ in range(3):
        o = {}
        for slot, kind, _m in SLOTS:
            if rng.random() < (0.1 if chain else 0.2):
                o[slot] = None
                continue
            # a chain: every ontology is derived from the one before (successive upgrades); otherwise from the ancestor
            s = copy.deepcopy((prev.get(slot) or base[slot]) if chain else base[slot])
            for _ in range(rng.choice([0, 1, 1, 2] if chain else [0, 0, 1, 1, 2])):
                s = G.vary(rng, kind, s)
            o[slot] = s
        family.append(o)
        prev = {slot: o.get(slot) or prev.get(slot) for slot, _k, _m in SLOTS}
    return family, chain


def valid_upgrade(rng, slot, spec):
    """A definition that validly upgrades spec: one compatible change, version + 1."""
    s = copy.deepcopy(spec)
    s['version'] += 1
    if slot != 'et':
        s['free']['description'] = s['free']['description'] + ' (rev %d)' % s['version']
        return s
    names = [p['name'] for p in s['props']]
    options = ['story', 'summary']
    if len(s['relations']) < 2 and 'p' in names and 'q' in names:
        options += ['relation', 'relation']
    if len(s['attachments']) < 2:
        options.append('attachment')
    if [n for n in ('r', 's', 'w') if n not in names]:
        options.append('property')
    if not s.get('parent') and 'p' in names:
        # the event type becomes a child of another event type
        options += ['parent', 'parent']
    what = rng.choice(options)
    if what in ('story', 'summary'):
        s['free'][what] = s['free'][what] + ' (rev %d)' % s['version']
    elif what == 'relation':
        s['relations'].append(G.base_relation('p', 'q') if not s['relations'] else G.base_relation('q', 'p'))
        G.fix_relations(s)
    elif what == 'parent':
        s['parent'] = G.base_parent()
    elif what == 'attachment':
        have = [a['name'] for a in s['attachments']]
        s['attachments'].append(G.base_attachment([n for n in ('att', 'att2') if n not in have][0]))
    else:
        prop = G.base_prop([n for n in ('r', 's', 'w') if n not in names][0], 'o.str')
        prop['optional'] = True
        s['props'].append(prop)
    return s


def gen_upgrade_chain(rng):
    """Three ontologies, each a valid upgrade of the one before in every element it holds."""
    cur = {'ot': G.base_objecttype(), 'concept': dict(G.base_concept(), name='c.v'), 'source': G.base_source(),
           'et': G.base_eventtype()}
    family = []
    for k in range(3):
        if k:
            for slot, _kind, _m in SLOTS:
                if slot == 'et' or rng.random() < 0.5:
                    cur[slot] = valid_upgrade(rng, slot, cur[slot])
        family.append({slot: copy.deepcopy(cur[slot]) if (slot == 'et' or rng.random() < 0.8) else None for slot, _k, _m in SLOTS})
    return family


def gen_partial_refusal(rng):
    """A holds an event type and a source; B brings an object type that A lacks, a valid upgrade of the event type that starts
    using it, and a definition of the source that is in conflict with A's (same version, described differently): the update is
    refused after the object type and the event type were merged."""
    et = G.base_eventtype()
    src = G.base_source()
    a = {'ot': None, 'concept': dict(G.base_concept(), name='c.v'), 'source': src, 'et': et}
    et2 = copy.deepcopy(et)
    prop = G.base_prop('w', 'ot.new')
    prop['optional'] = True
    et2['props'].append(prop)
    et2['version'] += 1
    src2 = copy.deepcopy(src)
    src2['free']['description'] = 'described differently'
    b = {'ot': dict(G.base_objecttype(), name='ot.new', dataType=rng.choice(['string:0:mc:u', 'number:int', 'boolean'])),
         'concept': dict(G.base_concept(), name='c.v'), 'source': src2, 'et': et2}
    return [a, b, copy.deepcopy(a)]


def health(o):
    """An ontology that refused an update goes on being used: it validates, equals itself and its validator works."""
    from edxml.error import EDXMLValidationError
    from edxml.event_validator import EventValidator
    from edxml.event import EDXMLEvent
    try:
        o.validate()
    except EDXMLValidationError as ex:
        return 'it does not validate any more (%s)' % str(ex)[:120]
    except Exception as ex:
        return 'validate() raises ' + type(ex).__name__
    try:
        if not (o == o):
            return 'it does not equal itself'
    except Exception as ex:
        return 'comparing it with itself raises ' + type(ex).__name__
    try:
        o.generate_xml()
        if o.get_event_type('t') is not None:
            EventValidator(o).is_valid(EDXMLEvent({'p': ['x']}, 't', '/a/'))
    except Exception as ex:
        return 'serializing it or validating an event with it raises ' + type(ex).__name__
    return True


class C11(Property):
    id = 'C11'
    title = 'Ontology update yields the element-wise newest definitions and nothing else'
    design_ref = 'DESIGN.md section 10, C11'
    required_theorems = (
        'update_contains_all', 'update_elementwise_newest', 'update_idempotent', 'update_commutes',
        'update_versions_monotone', 'update_fails_iff_incompatible',
    )
    level_text = ('Lean 4 theorems over the model of Ontology.update / element.update(): the updated ontology contains '
                  'every element of either ontology, each equal to the newer of its two definitions; updating A with B and '
                  'B with A give the same definitions; repeating the update changes nothing; element versions never '
                  'decrease over any sequence of updates; and the update fails exactly when some pair of definitions is '
                  'incompatible. Compared with the code on families of ontologies derived from a common ancestor, both '
                  'update paths (Ontology instance and lxml element), all orders, and with later mutations of either side '
                  '(the other side must not change).')
    level_note = ('Proof is about the pure model (definitions as values); that the two ontologies share no objects after an '
                  'update (independence) is an aliasing property of the Python objects and is established by the '
                  'correspondence run only; ontology-wide validation after the update is assumed to pass.')
    technique = 'Lean 4 proof (keyed-list update algebra over the comparison scheme) + differential correspondence'
    parallel = True
    assumptions = ('each ontology is valid by itself',)

    def rule(self):
        return ('cases: three ontologies derived from a common ancestor (object type, concept, source, event type with '
                'sub-elements; valid upgrades, additions, omissions, invalid edits), an update order (permutation), an '
                'update path per step (Ontology instance or lxml element); observed: resulting definitions per element or '
                'the error, the argument ontology before/after, a second identical update, deletion from A followed by another update '
                'from the same B, later mutation of either side; '
                'non-trivial = at least one element differs between two of the ontologies; distinct by content')

    def generate(self, rng, tier):
        n = 150 if tier == 'quick' else 5000
        for i in range(n):
            if i % 10 == 3:
                # an update that is refused after part of it was merged: the ontology goes on being used
                yield {'onts': gen_partial_refusal(rng), 'order': [0, 1], 'paths': [rng.choice(['object', 'xml', 'collection'])]}
                continue
            if i % 5 == 4:
                # successive valid upgrades, applied in the order they were made
                yield {'onts': gen_upgrade_chain(rng), 'order': [0, 1, 2], 'paths': [rng.choice(['object', 'xml', 'collection']) for _ in range(2)]}
                continue
            fam, chain = gen_family(rng)
            if i % 6 == 1:
                # an event type without properties (attachments only), in older, newer and conflicting definitions
                for o in fam:
                    if o.get('et'):
                        et = o['et']
                        et.update(props=[], relations=[], parent=None, attachments=[G.base_attachment('att')])
                        for k in ('versionProp', 'seqProp', 'tsStart', 'tsEnd'):
                            if k in et:
                                et[k] = None
                        et['version'] = rng.choice([1, 2, 2, 3])
                        et['free']['description'] = rng.choice(['d', 'd', 'another description'])
            order = rng.sample([0, 1, 2], rng.choice([2, 3]))
            if chain and rng.random() < 0.7:
                order = [0, 1, 2]      # successive upgrades, applied in the order they were made
            yield {'onts': fam, 'order': order, 'paths': [rng.choice(['object', 'xml', 'collection']) for _ in order[1:]]}

    def run(self, onts, order, paths):
        from edxml.error import EDXMLOntologyValidationError
        from vf.props.c09 import apply_op
        A = build_ontology(onts[order[0]])
        versions = [self.versions(A)]
        untouched = True
        for i, p in zip(order[1:], paths):
            B = build_ontology(onts[i])
            before = full(B)
            # is some pair of definitions rejected by the comparison operators?
            incompatible = False
            for slot, _k, _m in SLOTS:
                ea, eb = element_of(A, slot), element_of(B, slot)
                if ea is not None and eb is not None and isinstance(apply_op('eq', ea, eb), str):
                    incompatible = True
            try:
                self.apply(A, B, p)
                if incompatible:
                    return {'err': None, 'silently_accepted': True}, None, None
            except EDXMLOntologyValidationError:
                return {'err': 'EDXMLOntologyValidationError', 'expected_failure': incompatible, 'after_refusal': health(A)}, None, None
            except Exception as ex:
                return {'err': 'foreign:' + type(ex).__name__}, None, None
            if full(B) != before:
                untouched = False
            versions.append(self.versions(A))
        return {'ok': view(A), 'untouched': untouched,
                'monotone': all(a.get(k, 0) <= b.get(k, 0) for a, b in zip(versions, versions[1:]) for k in a)}, A, B

    _holders = {}

    def apply(self, A, B, path):
        """A.update(B) through one of the public doors: the Ontology object, its XML element, or an event collection that holds A
        and is extended with a collection that holds B (the same holder every time for one A)."""
        if path == 'object':
            A.update(B)
        elif path == 'xml':
            A.update(as_element(B))
        else:
            import edxml
            if id(A) not in self._holders or self._holders[id(A)][0] is not A:
                if len(self._holders) > 200:
                    self._holders.clear()
                self._holders[id(A)] = (A, edxml.EventCollection([], A))
            self._holders[id(A)][1].extend(edxml.EventCollection([], B))

    def versions(self, o):
        out = {}
        for slot, _k, _m in SLOTS:
            e = element_of(o, slot)
            if e is not None:
                out[slot] = e.get_version()
        return out

    def observe(self, case):
        for i in case['order']:
            try:
                build_ontology(case['onts'][i]).validate()
            except Exception:
                # the generator produced an ontology that is not valid by itself: not a case
                return {'unbuildable': True}
        res, A, B = self.run(case['onts'], case['order'], case['paths'])
        if 'err' in res:
            return res
        # idempotence: updating once more with the last ontology changes nothing
        before = full(A)
        last = build_ontology(case['onts'][case['order'][-1]])
        try:
            A.update(last)
            res['idempotent'] = full(A) == before
        except Exception as ex:
            res['idempotent'] = 'raised:' + type(ex).__name__
        # an older, compatible ontology is ignored: updating with the ontology we started from changes nothing
        try:
            A.update(build_ontology(case['onts'][case['order'][0]]))
            res['older_ignored'] = full(A) == before
        except Exception as ex:
            res['older_ignored'] = 'raised:' + type(ex).__name__
        # what an update brought in comes back when it is deleted from A and A is updated again from the very same B
        try:
            self.apply(A, B, case['paths'][-1])
            slot = 'et' if B.get_event_type('t') is not None else 'source' if B.get_event_source('/a/') is not None else None
            if slot == 'et':
                A.delete_event_type('t')
            elif slot == 'source':
                A.delete_event_source('/a/')
            self.apply(A, B, case['paths'][-1])
            # A lacked the element, so it must now hold B's definition of it
            res['restored'] = slot is None or (element_of(A, slot) is not None and
                                               canon(element_of(A, slot).generate_xml()) == canon(element_of(B, slot).generate_xml()))
        except Exception as ex:
            res['restored'] = 'raised:' + type(ex).__name__
        # an update that was refused because of what the ontology lacked is taken when it is offered again later: the event
        # types of the last ontology alone (refused: their object types and concepts are unknown), then the rest, then the
        # event types again
        res['refused_then_taken'] = self.refused_then_taken(case['onts'][case['order'][-1]])
        # the back references of everything A and B hold lead to A and B themselves
        from vf import ownership
        res['owned'] = not (ownership.audit(A) or ownership.audit(B))
        # independence: mutate A, B must not change, and vice versa
        bb = full(B)
        for e in (A.get_event_type('t'), A.get_object_type('ot'), A.get_concept('c.v')):
            if e is not None:
                e.set_description('mutated in a')
        if A.get_event_type('t') is not None:
            for p in A.get_event_type('t').get_properties().values():
                p.set_description('mutated in a')
        res['b_independent'] = full(B) == bb
        aa = full(A)
        for e in (B.get_event_type('t'), B.get_object_type('ot'), B.get_concept('c.v')):
            if e is not None:
                e.set_description('mutated in b')
        if B.get_event_type('t') is not None:
            for p in B.get_event_type('t').get_properties().values():
                p.set_description('mutated in b')
        res['a_independent'] = full(A) == aa
        # the other order (for the first two ontologies)
        if len(case['order']) == 2:
            rev, _a, _b = self.run(case['onts'], case['order'][::-1], case['paths'])
            res['reverse'] = rev.get('ok', {'err': rev.get('err')})
        return res

    @staticmethod
    def refused_then_taken(spec):
        import copy as _copy
        from edxml.ontology import Ontology
        from edxml.error import EDXMLValidationError
        if not spec.get('et'):
            return True
        try:
            src = build_ontology(spec)
            whole = as_element(src)
            only_et, rest = _copy.deepcopy(whole), _copy.deepcopy(whole)
            for c in only_et:
                if not c.tag.endswith('}event-types'):
                    for k in list(c):
                        c.remove(k)
            for c in rest:
                if c.tag.endswith('}event-types'):
                    for k in list(c):
                        c.remove(k)
            want = Ontology()
            want.update(_copy.deepcopy(whole))
        except Exception:
            return True        # not a case
        t = Ontology()
        try:
            t.update(_copy.deepcopy(only_et))
            return 'event types that refer to unknown object types were accepted'
        except EDXMLValidationError:
            pass
        except Exception as ex:
            return 'the refused update raised ' + type(ex).__name__
        try:
            t.update(rest)
            t.update(_copy.deepcopy(only_et))
        except Exception as ex:
            return 'offered again after what it lacked had arrived, the update raised ' + type(ex).__name__
        return True if full(t) == full(want) else 'offered again after what it lacked had arrived, the update did not bring in the definitions'

    def requests(self, case):
        def m_ont(o):
            return {mkey: ([G.model_def(kind, o[slot])] if o.get(slot) else []) for slot, kind, mkey in SLOTS}
        seq = [m_ont(case['onts'][i]) for i in case['order']]
        reqs = [{'op': 'update', 'onts': seq}]
        if len(case['order']) == 2:
            reqs.append({'op': 'update', 'onts': seq[::-1]})
        return reqs

    def expected_view(self, case, reply, order):
        if 'err' in reply:
            return None
        out = {}
        for slot, kind, mkey in SLOTS:
            ent = reply[mkey]
            if not ent:
                out[slot] = None
                continue
            origin = ent[0][1]
            spec = case['onts'][order[origin]][slot]
            o = build_ontology({slot: spec})
            out[slot] = canon(element_of(o, slot).generate_xml())
        return out

    def predict(self, case, replies):
        r = replies[0]
        if 'err' in r:
            return {'err': r['err'], 'expected_failure': True, 'after_refusal': True}
        res = {'ok': self.expected_view(case, r, case['order']), 'untouched': True, 'monotone': True,
               'idempotent': True, 'older_ignored': True, 'restored': True, 'refused_then_taken': True, 'owned': True, 'b_independent': True, 'a_independent': True}
        if len(case['order']) == 2:
            rr = replies[1]
            res['reverse'] = {'err': rr['err']} if 'err' in rr else self.expected_view(case, rr, case['order'][::-1])
        return res

    def fill_undecided(self, case, obs, pred):
        return obs if obs.get('unbuildable') else pred

    def oracle(self, case, obs):
        if obs.get('unbuildable'):
            return None
        if 'err' in obs:
            if obs.get('silently_accepted'):
                return 'an incompatible pair of definitions was accepted by update() instead of raising'
            if obs['err'] != 'EDXMLOntologyValidationError':
                return 'update raised %s' % obs['err']
            if not obs.get('expected_failure', True):
                return 'update() failed although every pair of definitions compares as equal or as a valid upgrade'
            if obs.get('after_refusal', True) is not True:
                return 'after update() refused an ontology, the ontology that refused it is broken: %s' % obs['after_refusal']
            return None
        if not obs['untouched']:
            return 'the ontology passed to update() was modified'
        if not obs['monotone']:
            return 'an element version decreased during a sequence of updates'
        if obs['idempotent'] is not True:
            return 'repeating the update changed the ontology or failed (%s)' % obs['idempotent']
        if obs['older_ignored'] is not True:
            return 'updating once more with the ontology the sequence started from changed the result or failed (%s)' % obs['older_ignored']
        if obs['restored'] is not True:
            return ('after deleting a definition from A, updating A again from the same ontology B does not bring in the '
                    'definition that B holds (%s)' % obs['restored'])
        if obs.get('refused_then_taken', True) is not True:
            return 'an update that was refused for what the ontology lacked: %s' % obs['refused_then_taken']
        if obs.get('owned') is False:
            return ('after the updates an ontology holds elements that refer back to another object than the one that holds them '
                    '(a definition was adopted by reference): the ontologies are not independent')
        if not obs['b_independent'] or not obs['a_independent']:
            return 'the two ontologies are not independent after the update: mutating one changed the other'
        if 'reverse' in obs and isinstance(obs['reverse'], dict) and 'err' not in obs['reverse'] and obs['reverse'] != obs['ok']:
            return 'A.update(B) and B.update(A) hold different definitions'
        # element-wise newest, stated on the inputs
        for slot, kind, _m in SLOTS:
            specs = [case['onts'][i].get(slot) for i in case['order']]
            present = [s for s in specs if s]
            got = obs['ok'][slot]
            if not present:
                if got is not None:
                    return 'element %s appeared from nowhere' % slot
                continue
            if got is None:
                return 'element %s of an input ontology is missing after the update' % slot
            top = max(s['version'] for s in present)
            cands = []
            for s in present:
                if s['version'] == top:
                    cands.append(canon(element_of(build_ontology({slot: s}), slot).generate_xml()))
            if got not in cands:
                return 'element %s is not the newest of its definitions (version %d expected)' % (slot, top)
        return None

    def neighbours(self, case, rng):
        return [{'onts': case['onts'], 'order': rng.sample([0, 1, 2], 2), 'paths': [rng.choice(['object', 'xml', 'collection'])]}
                for _ in range(6)]

    def reductions(self, case):
        for i, o in enumerate(case['onts']):
            for slot, _k, _m in SLOTS:
                if o.get(slot):
                    c = json.loads(json.dumps(case))
                    c['onts'][i][slot] = None
                    yield c

    def nontrivial(self, case):
        a = [json.dumps(case['onts'][i], sort_keys=True) for i in case['order']]
        if len(set(a)) < 2:
            return None
        return json.dumps(case, sort_keys=True)


PROPERTY = C11()
