"""C04 - merging follows each merge strategy and preserves event identity and validity."""
import itertools
import json
from decimal import Decimal
from fractions import Fraction

from vf.core import Property
from vf import gen
from vf.props.c01 import spec_hash

# data type name -> (edxml data type, numeric key?, value pool)
FAMILIES = {
    'str': ('string:0:mc:u', False, ['a', 'b', 'ab', 'a:b', 'ÿ', 'Ā', '\U0001F600', 'A', '0', 'z z']),
    'seq': ('sequence', True, ['0', '1', '2', '3', '10', '9', '18446744073709551615']),
    'int': ('number:int:signed', True, ['-2147483648', '-10', '-9', '-1', '0', '1', '9', '10', '2147483647']),
    'big': ('number:bigint', True, ['0', '7', '18446744073709551615', '18446744073709551614', '100']),
    'dec': ('number:decimal:10:2:signed', True, ['-10.00', '-9.99', '-0.01', '0.00', '0.01', '9.99', '10.00', '99999999.99']),
    # values that agree in more significant digits than a float holds
    'bdec': ('number:decimal:24:2:signed', True, ['123456789012345678.01', '123456789012345678.02', '123456789012345678.03',
                                                  '-123456789012345678.02', '-123456789012345678.01', '0.00']),
    'cur': ('number:currency', True, ['-1.0000', '0.0000', '0.0001', '1.0000', '10.0000', '9.9999']),
    'flt': ('number:float:signed', True, ['-1.000000E+001', '-9.000000E+000', '0.000000E+000', '1.000000E-003',
                                          '9.999999E-004', '1.000000E+000', '9.000000E+000', '1.000000E+001']),
    'dbl': ('number:double:signed', True, ['-1.000000E+100', '1.000000E-100', '1.000000E+000', '9.999999E+099', '1.000000E+100']),
    'dt': ('datetime', False, ['2020-01-01T00:00:00.000000Z', '2020-01-01T00:00:00.000001Z', '1999-12-31T23:59:59.999999Z',
                               '2020-10-01T00:00:00.000000Z', '2020-09-30T23:59:59.000000Z']),
}
MINMAX_FAMILIES = ['seq', 'int', 'big', 'dec', 'bdec', 'cur', 'flt', 'dbl', 'dt']
NUM = {'seq', 'int', 'big', 'dec', 'bdec', 'cur', 'flt', 'dbl'}


def num_key(fam, s):
    """Independent reading of the data type's ordering."""
    if fam == 'dt':
        return s
    return Fraction(Decimal(s))


def gen_event_type(rng, with_version=None):
    """Random property table: list of dicts name/fam/merge/multi/optional."""
    props = []
    names = list(gen.PROP_NAMES)
    rng.shuffle(names)
    with_version = rng.random() < 0.5 if with_version is None else with_version
    # at least one hashed property
    n_hashed = rng.randint(1, 2)
    for _ in range(n_hashed):
        props.append({'name': names.pop(), 'fam': rng.choice(['str', 'int', 'dec', 'dt']), 'merge': 'match',
                      'multi': rng.random() < 0.5, 'optional': rng.random() < 0.3})
    vp = None
    if with_version:
        vp = names.pop()
        props.append({'name': vp, 'fam': 'seq', 'merge': 'max', 'multi': False, 'optional': False})
    for _ in range(rng.randint(1, 4)):
        merge = rng.choice(['any', 'add', 'set', 'min', 'max'] + (['replace', 'replace'] if with_version else []))
        if merge in ('min', 'max'):
            props.append({'name': names.pop(), 'fam': rng.choice(MINMAX_FAMILIES), 'merge': merge, 'multi': False, 'optional': False})
        elif merge == 'replace':
            props.append({'name': names.pop(), 'fam': rng.choice(list(FAMILIES)), 'merge': merge, 'multi': False,
                          'optional': rng.random() < 0.5})
        else:
            props.append({'name': names.pop(), 'fam': rng.choice(list(FAMILIES)), 'merge': merge,
                          'multi': rng.random() < 0.6, 'optional': rng.random() < 0.6})
    return {'props': props, 'vp': vp}


def gen_group(rng, et, n, small_domain=False):
    """n colliding events: same hashed objects, type and source."""
    hashed_objs = {}
    for p in et['props']:
        if p['merge'] == 'match':
            pool = FAMILIES[p['fam']][2]
            k = rng.randint(0 if p['optional'] else 1, 3 if p['multi'] else 1)
            hashed_objs[p['name']] = rng.sample(pool, min(k, len(pool)))
    events = []
    for _ in range(n):
        if events and rng.random() < 0.15:
            events.append(json.loads(json.dumps(rng.choice(events))))
            continue
        props = []
        for p in et['props']:
            pool = FAMILIES[p['fam']][2][:2] if small_domain else FAMILIES[p['fam']][2]
            if p['merge'] == 'match':
                objs = list(hashed_objs[p['name']])
                rng.shuffle(objs)
            elif p['name'] == et['vp']:
                # (versions are numbers: 9 < 10 < 11 < 20 < 100, whatever their digits say)
                objs = [rng.choice(['1', '2', '3'] if rng.random() < 0.6 else ['9', '10', '11', '20', '100'])]
            else:
                lo = 0 if p['optional'] else 1
                hi = 3 if p['multi'] else 1
                objs = rng.sample(pool, min(rng.randint(lo, hi), len(pool)))
            if objs:
                props.append([p['name'], objs])
        rng.shuffle(props)
        ev = {'type': 't', 'source': '/a/', 'props': props}
        if rng.random() < 0.4:
            ev['parents'] = rng.sample(['%040x' % i for i in range(1, 5)], rng.randint(1, 2))
        if rng.random() < 0.2:
            ev['atts'] = [['att', [['id%d' % rng.randint(1, 2), 'text']]]]
        events.append(ev)
    return events


def add_event_type(o, name, et):
    t = o.create_event_type(name)
    for p in et['props']:
        ep = t.create_property(p['name'], p['fam'])
        if p['optional']:
            ep.make_optional()
        if p['multi']:
            ep.make_multivalued()
        ep.set_merge_strategy(p['merge'])
    if et['vp']:
        t.set_version_property_name(et['vp'])
    t.create_attachment('att')
    return t


def build_ontology(et, sibling=None):
    """The ontology of a case. `sibling`: (name, event type table) of a second event type defined next to 't'."""
    from edxml.ontology import Ontology
    o = Ontology()
    for fam, (dt, _n, _pool) in FAMILIES.items():
        o.create_object_type(fam, data_type=dt)
    o.create_event_source('/a/')
    t = add_event_type(o, 't', et)
    if sibling is not None:
        add_event_type(o, sibling[0], sibling[1])
    o.validate()
    return o, t


FLIP = {'min': 'max', 'max': 'min', 'add': 'set', 'set': 'add', 'any': 'add', 'replace': 'any'}


def gen_sibling(rng, et, n):
    """Another event type with the SAME property names and other merge strategies, and colliding events of it.
    What merging events of one type yields does not depend on what else was merged before."""
    et2 = json.loads(json.dumps(et))
    for p in et2['props']:
        if p['merge'] != 'match' and p['name'] != et2['vp']:
            p['merge'] = FLIP[p['merge']]
            if p['merge'] in ('add',):
                p['multi'] = True
    where = rng.choice(['same', 'other'])
    name = 't2' if where == 'same' else 't'
    events = gen_group(rng, et2, n)
    for e in events:
        e['type'] = name
    return {'et': et2, 'events': events, 'where': where, 'name': name}


def specs_of(et):
    return [{'name': p['name'], 'merge': p['merge'], 'numeric': p['fam'] in NUM} for p in et['props']]


def objects(ev, name):
    return sorted(set(v for n, vs in ev['props'] if n == name for v in vs))


def version_of(et, ev):
    return int(objects(ev, et['vp'])[0])


def merge_oracle(et, events, result):
    """Check a merge result (canonical view or error) against the property statement."""
    vp = et['vp']
    conflict = False
    if vp:
        for a, b in itertools.combinations(events, 2):
            if version_of(et, a) == version_of(et, b) and any(objects(a, p['name']) != objects(b, p['name']) for p in et['props']):
                conflict = True
    if 'err' in result:
        if result['err'] == 'EDXMLMergeConflictError' and conflict:
            return None
        return 'merge failed with %s (conflict expected: %s)' % (result['err'], conflict)
    if conflict:
        return 'instances share a version and differ, but no merge conflict was reported'
    res = result['ok']
    if res.get('xml', 'same') != 'same':
        return 'the XML element of the merged event holds %r while the event shows %r' % (res['xml'], res['props'])
    order = sorted(events, key=lambda e: version_of(et, e)) if vp else list(events)
    if res['type'] != 't' or res['source'] != '/a/':
        return 'type or source changed'
    hashed = [p['name'] for p in et['props'] if p['merge'] == 'match']
    pairs_in = [(n, v) for n, vs in events[0]['props'] for v in vs]
    pairs_out = [(n, v) for n, vs in res['props'] for v in vs]
    if spec_hash('/a/', 't', hashed, pairs_in, 'sha1', 'hex') != spec_hash('/a/', 't', hashed, pairs_out, 'sha1', 'hex'):
        return 'sticky hash of the merged event differs from that of the instances'
    got = {n: sorted(vs) for n, vs in res['props']}
    for p in et['props']:
        name, merge, fam = p['name'], p['merge'], p['fam']
        out = got.get(name, [])
        acc = [v for e in order for v in objects(e, name)]
        if merge == 'match':
            want = objects(events[0], name)
            if out != want:
                return 'match property %s changed: %r -> %r' % (name, want, out)
        elif merge == 'add':
            if out != sorted(set(acc)):
                return 'add property %s is not the union: %r vs %r' % (name, out, sorted(set(acc)))
        elif merge in ('min', 'max'):
            if not acc:
                continue
            keys = [num_key(fam, v) for v in acc]
            ext = min(keys) if merge == 'min' else max(keys)
            if len(out) != 1 or num_key(fam, out[0]) != ext or out[0] not in acc:
                return '%s property %s: got %r, extreme of %r expected' % (merge, name, out, acc)
        elif merge == 'replace':
            top = max(version_of(et, e) for e in events)
            want = [objects(e, name) for e in events if version_of(et, e) == top]
            if out not in want:
                return 'replace property %s: got %r, objects of the highest version are %r' % (name, out, want)
        elif merge == 'set':
            ne = [objects(e, name) for e in order if objects(e, name)]
            want = ne[0] if ne else []
            if vp:
                # instances of the lowest version that has the property all agree (no conflict)
                pass
            if out != want:
                return 'set property %s: got %r, first non-empty is %r' % (name, out, want)
        elif merge == 'any':
            cands = [objects(e, name) for e in events]
            if out not in cands and not (out == [] and all(not c for c in cands)):
                return 'any property %s: %r is not the object set of an instance %r' % (name, out, cands)
        if not p['multi'] and len(out) > 1 and merge != 'add':
            return 'single-valued property %s has %d objects after merging' % (name, len(out))
        if not p['optional'] and not out:
            return 'mandatory property %s is missing after merging' % name
    want_parents = sorted(set(h for e in events for h in e.get('parents', [])))
    if res['parents'] != want_parents:
        return 'parents are not the union: %r vs %r' % (res['parents'], want_parents)
    return None


def view_of(sdk_event):
    v = gen.event_view(sdk_event)
    out = {'type': v['type'], 'source': v['source'], 'props': v['props'], 'parents': v['parents'], 'xml': 'same'}
    if hasattr(sdk_event, 'get_element'):
        # the element a writer gets (and a copy is made from) holds what the API shows
        from vf.props import c07
        try:
            xml_props = c07.element_view(sdk_event)['props']
            if xml_props != v['props']:
                out['xml'] = xml_props
        except Exception as ex:
            out['xml'] = 'err:' + type(ex).__name__
    return out


def model_view(j):
    return {'type': j['type'], 'source': j['source'], 'props': j['props'], 'parents': j['parents'], 'xml': 'same'}


class C04(Property):
    id = 'C04'
    title = 'Merging follows each merge strategy and preserves event identity and validity'
    design_ref = 'DESIGN.md section 10, C04'
    required_theorems = (
        'merge_type_source', 'merge_hash_eq', 'merge_match_unchanged', 'merge_add_union',
        'merge_min_is_least', 'merge_max_is_greatest', 'merge_replace_highest_version',
        'merge_set_first_nonempty', 'merge_any_is_some_instance', 'merge_parents_union',
        'merge_objects_from_instances', 'merge_single_valued', 'merge_mandatory', 'conflict_iff', 'merge_spec_extension',
    )
    level_text = ('Lean 4 theorems over the executable model of EventType.merge_events / _check_merge_conflict: '
                  'for every event type, every group of colliding events and every strategy the merged event has '
                  'the type, source and hash input of the instances, each property follows its strategy, parents '
                  'are the union, validity-relevant facts carry over (objects come from instances, single-valued '
                  'stays single-valued, mandatory stays present) and a conflict is reported iff two instances '
                  'share a version and differ. The model is compared with the code on generated groups, all '
                  'three event representations, and resolve_collisions.')
    level_note = ('Proof is about the model; numeric comparison keys are exact rationals (equal to Python int/Decimal, '
                  'and to binary64 order on the 7-significant-digit float forms the gate admits); set iteration order '
                  'inside one event is not modelled (immaterial for the single-valued min/max properties).')
    technique = 'Lean 4 proof (per-strategy algebraic laws, conflict characterisation) + differential correspondence'
    assumptions = ('object values are valid lexical forms of their data type (merge is specified for valid events)',)

    def rule(self):
        return ('cases: generated event type (every strategy on admissible families, single/multi valued, optional, '
                'with/without version property) and a group of 1..6 colliding events incl. duplicates, empty '
                'optionals, parents; observed through merge_events on one representation and through '
                'resolve_collisions; non-trivial = group of >= 2 events; distinct by content')

    def generate(self, rng, tier):
        n = 700 if tier == 'quick' else 20000
        for i in range(n):
            et = gen_event_type(rng)
            k = rng.choice([1, 2, 2, 3, 3, 4, 5, 6])
            case = {'et': et, 'events': gen_group(rng, et, k, small_domain=rng.random() < 0.3),
                    'repr': rng.choice(['plain', 'plain', 'element', 'parsed']),
                    'how': rng.choice(['merge', 'merge', 'merge', 'resolve'])}
            if i % 5 == 4:
                # events of a similar looking event type are merged first, in the same process
                case['sibling'] = gen_sibling(rng, et, rng.randint(2, 3))
            yield case
        # exhaustive small domain: two values per property, all pairs/triples of instances
        m = 6 if tier == 'quick' else 60
        for i in range(m):
            et = gen_event_type(rng)
            pool = gen_group(rng, et, 4, small_domain=True)
            for r in (2, 3):
                for combo in itertools.product(pool, repeat=r):
                    yield {'et': et, 'events': [json.loads(json.dumps(e)) for e in combo], 'repr': 'plain', 'how': 'merge'}

    def observe(self, case):
        import edxml
        from edxml.error import EDXMLMergeConflictError
        sib = case.get('sibling')
        o, t = build_ontology(case['et'], (sib['name'], sib['et']) if sib and sib['where'] == 'same' else None)
        if sib:
            o2 = o if sib['where'] == 'same' else build_ontology(sib['et'])[0]
            try:
                o2.get_event_type(sib['name']).merge_events([gen.build_event(e, case['repr']) for e in sib['events']])
            except EDXMLMergeConflictError:
                pass
        events = [gen.build_event(e, case['repr']) for e in case['events']]
        before = [view_of(e) for e in events]

        def again(first, redo):
            # merging is a function of its inputs: they are left as they were, and merging the same objects once more
            # gives the same result
            if [view_of(e) for e in events] != before:
                return 'inputs changed'
            try:
                return True if redo() == first else 'second merge differs'
            except Exception as ex:
                return 'second merge raised ' + type(ex).__name__
        try:
            if case['how'] == 'merge':
                first = view_of(t.merge_events(events))
                return {'ok': first, 'again': again(first, lambda: view_of(t.merge_events(events)))}
            coll = edxml.EventCollection(events, o)
            first = sorted((view_of(e) for e in coll.resolve_collisions()), key=json.dumps)
            return {'ok': first, 'again': again(first, lambda: sorted((view_of(e) for e in coll.resolve_collisions()), key=json.dumps))}
        except EDXMLMergeConflictError:
            return {'err': 'EDXMLMergeConflictError'}
        except Exception as ex:
            return {'err': 'foreign:' + type(ex).__name__}

    def requests(self, case):
        return [{'op': 'merge', 'how': case['how'], 'specs': specs_of(case['et']), 'vp': case['et']['vp'],
                 'events': case['events']}]

    def predict(self, case, replies):
        r = replies[0]
        if 'err' in r:
            return r
        if case['how'] == 'merge':
            return {'ok': model_view(r['ok']), 'again': True}
        return {'ok': sorted((model_view(e) for e in r['ok']), key=json.dumps), 'again': True}

    def oracle(self, case, obs):
        if obs.get('again', True) is not True:
            return 'merging %d colliding events: %s (merging must leave its inputs alone and give the same result every time)' % (
                len(case['events']), obs['again'])
        if case['how'] == 'merge':
            return merge_oracle(case['et'], case['events'], obs)
        if 'err' in obs:
            return merge_oracle(case['et'], case['events'], obs)
        if len(obs['ok']) != 1:
            return 'resolve_collisions returned %d events for one colliding group' % len(obs['ok'])
        return merge_oracle(case['et'], case['events'], {'ok': obs['ok'][0]})

    def neighbours(self, case, rng):
        out = []
        for _ in range(100):
            c = json.loads(json.dumps(case))
            c['events'] = gen_group(rng, c['et'], len(c['events']))
            out.append(c)
        return out

    def reductions(self, case):
        if case.get('sibling'):
            c = json.loads(json.dumps(case))
            del c['sibling']
            yield c
        for i in range(len(case['events'])):
            if len(case['events']) > 1:
                c = json.loads(json.dumps(case))
                del c['events'][i]
                yield c
        for i, p in enumerate(case['et']['props']):
            if p['merge'] != 'match' and p['name'] != case['et']['vp']:
                c = json.loads(json.dumps(case))
                del c['et']['props'][i]
                for e in c['events']:
                    e['props'] = [x for x in e['props'] if x[0] != p['name']]
                yield c
        for i, e in enumerate(case['events']):
            for key in ('parents', 'atts'):
                if e.get(key):
                    c = json.loads(json.dumps(case))
                    del c['events'][i][key]
                    yield c

    def nontrivial(self, case):
        if len(case['events']) < 2:
            return None
        return json.dumps(case, sort_keys=True)

    def sample_view(self, case):
        return {'strategies': [(p['name'], p['fam'], p['merge']) for p in case['et']['props']], 'vp': case['et']['vp'],
                'events': case['events'], 'how': case['how'], 'repr': case['repr']}


PROPERTY = C04()
