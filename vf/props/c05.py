"""C05 - merging is insensitive to arrival order, duplication and batching."""
import io
import itertools
import json
import sys

from vf.core import Property
from vf import gen
from vf.props import c04

ORDER_FREE = ('match', 'add', 'min', 'max', 'replace')


class _Stdout:
    def __init__(self):
        self.buffer = io.BytesIO()

    def write(self, s):
        pass

    def flush(self):
        pass


def restricted(view, et, strategies):
    names = {p['name'] for p in et['props'] if p['merge'] in strategies}
    return {'type': view['type'], 'source': view['source'], 'parents': view['parents'],
            'props': [p for p in view['props'] if p[0] in names]}


def eval_tree_impl(t, tree, events):
    if isinstance(tree, int):
        return events[tree]
    return t.merge_events([eval_tree_impl(t, x, events) for x in tree])


def flatten(tree):
    if isinstance(tree, int):
        return [tree]
    return [i for x in tree for i in flatten(x)]


def random_bracketing(rng, idx):
    """A random merge tree over the index sequence idx (order preserved)."""
    if len(idx) == 1:
        return idx[0]
    if len(idx) == 2 or rng.random() < 0.3:
        return list(idx)
    k = rng.randint(1, len(idx) - 1)
    left = random_bracketing(rng, idx[:k])
    rest = idx[k:]
    if rng.random() < 0.5:
        return [left] + list(rest)
    return [left, random_bracketing(rng, rest)] if len(rest) > 1 else [left, rest[0]]


def all_bracketings(idx):
    """Left folds, right-nested and all two-way splits of a short sequence."""
    out = [list(idx)]
    if len(idx) > 2:
        fold = idx[0]
        for i in idx[1:]:
            fold = [fold, i]
        out.append(fold)
        for k in range(1, len(idx)):
            l, r = idx[:k], idx[k:]
            lt = l[0] if len(l) == 1 else list(l)
            rt = r[0] if len(r) == 1 else list(r)
            out.append([lt, rt])
            out.append([lt] + list(r))
    return out


class C05(Property):
    id = 'C05'
    title = 'Merging is insensitive to arrival order, duplication and batching'
    design_ref = 'DESIGN.md section 10, C05'
    required_theorems = (
        'merge_same_members', 'merge_perm', 'merge_dup', 'merge_self', 'merge_assoc', 'merge_fold_eq_batch',
        'buffer_merger_resolve', 'fold_merger_resolve', 'stickyKey_stable_on',
    )
    level_text = ('Lean 4 theorems over the merge model: for order-free strategies the merged objects, parents, type '
                  'and source are invariant under every permutation of a conflict-free group and under duplication; '
                  'without a version property merging partial merges (any bracketing, incl. one-at-a-time folding) '
                  'equals merging all at once, hence the per-hash results of the unbuffered and of the buffering '
                  'stream merger with any buffer size resolve to the same logical events. The model is compared '
                  'with merge_events on permutations/bracketings and with both edxml-merge classes driven in-process.')
    level_note = ('Proof is about the model; min/max order-independence carries the hypothesis that the comparison key '
                  'is injective on the objects present (two lexical forms of one number tie and Python keeps the first); '
                  'XML writing/parsing inside the stream mergers is modelled as identity on logical events (C02).')
    technique = 'Lean 4 proof (permutation/duplication/associativity laws, stream-merger refinement) + differential correspondence'
    assumptions = ('object values are valid canonical lexical forms', 'time-based flushing of the buffering merger is off')

    def rule(self):
        return ('cases: (event type, colliding group, list of runs) where a run is a permutation or a bracketing '
                '(merge tree) of the group, and stream cases (document with several colliding groups run through '
                'EDXMLEventMerger and BufferingEDXMLEventMerger for every buffer size 1..n+1); non-trivial = at least '
                'two events and two distinct runs; distinct by content')

    def generate(self, rng, tier):
        n = 250 if tier == 'quick' else 6000
        for i in range(n):
            et = c04.gen_event_type(rng)
            k = rng.choice([2, 3, 3, 4, 5])
            events = c04.gen_group(rng, et, k, small_domain=rng.random() < 0.3)
            idx = list(range(k))
            if k <= (4 if tier == 'quick' else 5):
                perms = [list(p) for p in itertools.permutations(idx)]
            else:
                perms = [idx] + [rng.sample(idx, k) for _ in range(20)]
            runs = perms
            # duplication
            runs.append(idx + [rng.choice(idx)])
            runs.append([idx[0], idx[0]])
            if et['vp'] is None:
                runs += all_bracketings(idx)
                runs += [random_bracketing(rng, idx) for _ in range(3)]
            yield {'kind': 'runs', 'et': et, 'events': events, 'runs': runs,
                   'repr': rng.choice(['plain', 'plain', 'element', 'parsed'])}
        for _ in range(20 if tier == 'quick' else 400):
            # a stream with a version property in which one logical event has two instances of one version that differ
            recs = []
            for name in rng.sample(['a', 'b', 'c'], rng.randint(1, 2)):
                for v in rng.sample([1, 2, 3, 4], rng.randint(1, 3)):
                    recs.append({'id': name, 'tag': 't%d' % v, 'v': v})
            for v in rng.sample([1, 2, 3], rng.randint(0, 2)):
                recs.append({'id': 'z', 'tag': 'z%d' % v, 'v': v})
            rng.shuffle(recs)
            k = rng.randint(0, len(recs))
            recs = recs[:k] + [{'id': 'z', 'tag': 'first', 'v': 5}] + recs[k:]
            j = rng.randint(k + 1, len(recs))
            recs = recs[:j] + [{'id': 'z', 'tag': 'second', 'v': 5}] + recs[j:]
            yield {'kind': 'stream-conflict', 'records': recs}
        m = 40 if tier == 'quick' else 800
        for i in range(m):
            et = c04.gen_event_type(rng, with_version=False)
            for p in et['props']:
                if p['merge'] == 'add':
                    p['multi'] = True   # merged single-valued add properties may be invalid by design
            groups = []
            for g in range(rng.randint(1, 3)):
                groups.append(c04.gen_group(rng, et, rng.randint(1, 4)))
            events = [e for g in groups for e in g]
            rng.shuffle(events)
            for e in events:
                e.pop('atts', None)
            case = {'kind': 'stream', 'et': et, 'events': events}
            # an optional hashed property that arrives with an upgrade of the event type in mid stream: the events in front
            # of the second ontology element do not have it
            if i % 2 == 0 and len(events) >= 2 and not any(p['name'] == 'hx' for p in et['props']):
                et = dict(et, props=et['props'] + [{'name': 'hx', 'fam': 'str', 'merge': 'match', 'multi': False, 'optional': True}])
                k = rng.randint(1, len(events) - 1)
                events = [json.loads(json.dumps(e)) for e in events]
                for e in events[k:]:
                    if rng.random() < 0.7:
                        e['props'].append(['hx', [rng.choice(['x1', 'x2'])]])
                case = {'kind': 'stream', 'et': et, 'events': events, 'upgrade': {'prop': 'hx', 'at': k}}
            yield case

    # ---- a merge conflict in mid stream ----------------------------------------------------
    @staticmethod
    def conflict_ontology():
        from edxml.ontology import Ontology, DataType
        o = Ontology()
        o.create_object_type('ot.string')
        o.create_object_type('ot.seq', data_type=DataType.sequence().get())
        o.create_event_source('/s/')
        t = o.create_event_type('ev')
        t.create_property('id', 'ot.string').make_hashed()
        t.create_property('tag', 'ot.string').make_optional().make_multivalued().merge_add()
        t.create_property('v', 'ot.seq').merge_max()
        t.set_version_property_name('v')
        return o, t

    def observe_conflict(self, case):
        """edxml-merge on a stream in which two instances of one logical event share a version and differ: the merger raises;
        what it had accepted until then is written when it is closed (as the command line tool does)."""
        import edxml
        from edxml.event import EDXMLEvent
        from edxml.error import EDXMLMergeConflictError
        from edxml.cli.edxml_merge import EDXMLEventMerger
        o, t = self.conflict_ontology()
        events = [EDXMLEvent({'id': [r['id']], 'tag': [r['tag']], 'v': [str(r['v'])]}, 'ev', '/s/') for r in case['records']]
        data = edxml.EventCollection(events, o).to_edxml()
        old = sys.stdout
        out = _Stdout()
        sys.stdout = out
        outcome = 'accepted'
        try:
            try:
                with EDXMLEventMerger() as m:
                    m.parse(io.BytesIO(data))
            except EDXMLMergeConflictError:
                outcome = 'conflict'
            except Exception as ex:
                outcome = 'raised:' + type(ex).__name__
        finally:
            sys.stdout = old
        try:
            coll = edxml.EventCollection.from_edxml(out.buffer.getvalue())
            written = sorted([e.get_any('id'), sorted(e['tag']), sorted(e['v'])] for e in coll)
        except Exception as ex:
            written = 'unreadable:' + type(ex).__name__
        return {'outcome': outcome, 'written': written}

    @staticmethod
    def conflict_expected(case):
        """Per logical event, the merge of the instances that arrived before the conflicting one."""
        want, seen = {}, {}
        for r in case['records']:
            key = (r['id'], r['v'])
            if key in seen and seen[key] != r['tag']:
                break       # the merger stops here
            seen[key] = r['tag']
            g = want.setdefault(r['id'], {'tags': set(), 'v': 0})
            g['tags'].add(r['tag'])
            g['v'] = max(g['v'], r['v'])
        return sorted([k, sorted(g['tags']), [str(g['v'])]] for k, g in want.items())

    # ---- implementation ------------------------------------------------------------------
    def run_stream(self, o, data, k, pieces=False):
        from edxml.cli.edxml_merge import EDXMLEventMerger, BufferingEDXMLEventMerger
        import edxml
        old = sys.stdout
        out = _Stdout()
        sys.stdout = out
        try:
            if k is None:
                with EDXMLEventMerger() as m:
                    m.parse(io.BytesIO(data))
            else:
                with BufferingEDXMLEventMerger(k, None) as m:
                    if pieces:
                        # the same bytes, handed over element by element (cut behind every '>')
                        for piece in data.replace(b'>', b'>\x00').split(b'\x00'):
                            if piece:
                                m.feed(piece)
                    else:
                        m.feed(data)
        finally:
            sys.stdout = old
        coll = edxml.EventCollection.from_edxml(out.buffer.getvalue())
        return coll

    def observe(self, case):
        import edxml
        from edxml.error import EDXMLMergeConflictError
        if case['kind'] == 'stream-conflict':
            return self.observe_conflict(case)
        o, t = c04.build_ontology(case['et'])
        if case['kind'] == 'runs':
            events = [gen.build_event(e, case['repr']) for e in case['events']]
            outs = []
            for run in case['runs']:
                try:
                    outs.append({'ok': c04.view_of(eval_tree_impl(t, run, events))})
                except EDXMLMergeConflictError:
                    outs.append({'err': 'EDXMLMergeConflictError'})
                except Exception as ex:
                    outs.append({'err': 'foreign:' + type(ex).__name__})
            return {'outs': outs}
        events = [gen.build_event(e, 'plain') for e in case['events']]
        if case.get('upgrade'):
            # ontology v1 (without the property), the first events, ontology v2 (the full event type), the other events
            up = case['upgrade']
            et1 = dict(case['et'], props=[p for p in case['et']['props'] if p['name'] != up['prop']])
            o1, _t1 = c04.build_ontology(et1)
            o.get_event_type('t').set_version(2)
            buf = io.BytesIO()
            w = edxml.EDXMLWriter(buf, validate=True)
            w.add_ontology(o1)
            for e in events[:up['at']]:
                w.add_event(e)
            w.add_ontology(o)
            for e in events[up['at']:]:
                w.add_event(e)
            w.close()
            data = buf.getvalue()
        else:
            data = edxml.EventCollection(events, o).to_edxml()
        res = {}
        for k in [None] + list(range(1, len(events) + 2)):
            try:
                coll = self.run_stream(o, data, k)
                res[str(k)] = {
                    'written': sorted((c04.view_of(e) for e in coll), key=json.dumps),
                    'resolved': sorted((c04.view_of(e) for e in coll.resolve_collisions()), key=json.dumps)}
                if k is not None:
                    # what the buffering merger writes does not depend on how its input is cut into chunks (C06)
                    again = sorted((c04.view_of(e) for e in self.run_stream(o, data, k, pieces=True)), key=json.dumps)
                    res[str(k)]['chunk_same'] = again == res[str(k)]['written']
            except Exception as ex:
                res[str(k)] = {'err': 'foreign:' + type(ex).__name__}
        return res

    # ---- model ---------------------------------------------------------------------------
    def requests(self, case):
        if case['kind'] == 'stream-conflict':
            return []
        specs = c04.specs_of(case['et'])
        vp = case['et']['vp']
        if case['kind'] == 'runs':
            return [{'op': 'mergetree', 'specs': specs, 'vp': vp, 'events': case['events'], 'tree': run}
                    for run in case['runs']]
        reqs = [{'op': 'merge', 'how': 'fold', 'specs': specs, 'vp': vp, 'events': case['events']}]
        for k in range(1, len(case['events']) + 2):
            reqs.append({'op': 'merge', 'how': 'buffer', 'k': k, 'specs': specs, 'vp': vp, 'events': case['events']})
        for r in list(reqs):
            rr = dict(r)
            rr['resolve_after'] = True
            reqs.append(rr)
        return reqs

    def predict(self, case, replies):
        if case['kind'] == 'stream-conflict':
            # the stream merger folds the instances of a logical event one by one (C05: same as merging at once) and stops
            # at the conflicting instance; closing it writes what it holds
            return {'outcome': 'conflict', 'written': self.conflict_expected(case)}
        if case['kind'] == 'runs':
            return {'outs': [r if 'err' in r else {'ok': c04.model_view(r['ok'])} for r in replies]}
        n = len(replies) // 2
        res = {}
        keys = ['None'] + [str(k) for k in range(1, len(case['events']) + 2)]
        for key, w, r in zip(keys, replies[:n], replies[n:]):
            if 'err' in w or 'err' in r:
                res[key] = {'err': w.get('err') or r.get('err')}
            else:
                res[key] = {'written': sorted((c04.model_view(e) for e in w['ok']), key=json.dumps),
                            'resolved': sorted((c04.model_view(e) for e in r['ok']), key=json.dumps)}
                if key != 'None':
                    res[key]['chunk_same'] = True
        return res

    # ---- oracle --------------------------------------------------------------------------
    def oracle(self, case, obs):
        if case['kind'] == 'stream-conflict':
            if obs['outcome'] != 'conflict':
                return 'edxml-merge on a stream with two differing instances of one event version: %s' % obs['outcome']
            want = self.conflict_expected(case)
            if obs['written'] != want:
                return ('edxml-merge, closed after a merge conflict, wrote %s; the instances it had accepted until then merge to %s'
                        % (json.dumps(obs['written']), json.dumps(want)))
            return None
        et = case['et']
        if case['kind'] == 'stream':
            import edxml
            o, t = c04.build_ontology(et)
            events = [gen.build_event(e, 'plain') for e in case['events']]
            try:
                want = sorted((c04.view_of(e) for e in edxml.EventCollection(events, o).resolve_collisions()), key=json.dumps)
            except Exception as ex:
                return 'merging the input at once (resolve_collisions) raised %s' % type(ex).__name__
            for k, r in obs.items():
                if 'err' in r:
                    return 'stream merger with buffer size %s failed: %s' % (k, r['err'])
                if r['resolved'] != want:
                    return ('stream merger with buffer size %s yields other logical events than merging the input at once: '
                            '%r vs %r' % (k, r['resolved'], want))
                if r.get('chunk_same', True) is not True:
                    return ('stream merger with buffer size %s writes other events when the same input is fed element by element '
                            'than when it is fed at once' % k)
            return None
        outs = obs['outs']
        n = len(case['events'])
        base = None
        for run, out in zip(case['runs'], outs):
            flat = flatten(run)
            if 'err' in out:
                if out['err'] != 'EDXMLMergeConflictError':
                    return 'run %r failed with %s' % (run, out['err'])
                continue
            is_perm = sorted(flat) == list(range(n)) and all(isinstance(x, int) for x in run)
            is_dup = all(isinstance(x, int) for x in run) and set(flat) == set(range(n)) and len(flat) > n
            is_self = run == [flat[0], flat[0]] and n >= 1 and len(run) == 2
            is_tree = sorted(flat) == list(range(n)) and not all(isinstance(x, int) for x in run)
            if is_perm or is_dup:
                v = restricted(out['ok'], et, ORDER_FREE)
                if base is None:
                    base = (run, v)
                elif v != base[1]:
                    return 'order %r gives %r but order %r gives %r (order-free strategies only)' % (run, v, base[0], base[1])
            if is_self and len(set(flat)) == 1:
                e = case['events'][flat[0]]
                want = {'type': e['type'], 'source': e['source'], 'parents': sorted(set(e.get('parents', []))),
                        'props': sorted([p['name'], c04.objects(e, p['name'])] for p in et['props'] if c04.objects(e, p['name']))}
                want['xml'] = 'same'
                if out['ok'] != want:
                    return 'merging event %d with a copy of itself gives %r, not the event %r' % (flat[0], out['ok'], want)
            if is_tree and et['vp'] is None:
                ref = outs[case['runs'].index(list(range(n)))] if list(range(n)) in case['runs'] else None
                if ref is not None and flat == list(range(n)) and 'ok' in ref and out['ok'] != ref['ok']:
                    return 'bracketing %r gives %r but merging all at once gives %r' % (run, out['ok'], ref['ok'])
        return None

    def neighbours(self, case, rng):
        out = []
        if case['kind'] == 'stream-conflict':
            return out
        for _ in range(60):
            c = json.loads(json.dumps(case))
            if c['kind'] == 'runs':
                c['events'] = c04.gen_group(rng, c['et'], len(c['events']))
            elif c.get('upgrade'):
                # events that use the property the upgrade brings stay behind the upgrade
                at = c['upgrade']['at']
                first, second = c['events'][:at], c['events'][at:]
                rng.shuffle(first)
                rng.shuffle(second)
                c['events'] = first + second
            else:
                rng.shuffle(c['events'])
            out.append(c)
        return out

    def reductions(self, case):
        if case['kind'] == 'stream-conflict':
            return
        if case['kind'] == 'runs':
            for i in range(len(case['runs'])):
                if len(case['runs']) > 2:
                    c = json.loads(json.dumps(case))
                    del c['runs'][i]
                    yield c
        else:
            for i in range(len(case['events'])):
                if len(case['events']) > 1:
                    c = json.loads(json.dumps(case))
                    del c['events'][i]
                    if c.get('upgrade') and i < c['upgrade']['at']:
                        # the upgrade stays where it was between the events
                        c['upgrade']['at'] -= 1
                    yield c
        for i, p in enumerate(case['et']['props']):
            if p['merge'] != 'match' and p['name'] != case['et']['vp']:
                c = json.loads(json.dumps(case))
                del c['et']['props'][i]
                for e in c['events']:
                    e['props'] = [x for x in e['props'] if x[0] != p['name']]
                yield c

    def nontrivial(self, case):
        if case['kind'] == 'stream-conflict':
            return json.dumps(case, sort_keys=True)
        if len(case['events']) < 2:
            return None
        return json.dumps(case, sort_keys=True)

    def sample_view(self, case):
        if case['kind'] == 'stream-conflict':
            return case
        v = {'kind': case['kind'], 'strategies': [(p['name'], p['fam'], p['merge']) for p in case['et']['props']],
             'vp': case['et']['vp'], 'events': case['events']}
        if case['kind'] == 'runs':
            v['runs'] = case['runs'][:6] + case['runs'][-3:]
        return v


PROPERTY = C05()
