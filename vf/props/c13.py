"""C13 - object value normalization is idempotent, sound and value-preserving."""
import base64
import binascii
import io
import ipaddress
import json
import math
import re
from datetime import datetime, timedelta, timezone
from decimal import Decimal, InvalidOperation

from vf.core import Property
from vf import gen
from vf.props import c03

INT_KINDS = c03.INT_KINDS

DT_GRID = (
    ['number:%s%s' % (k, s) for k in INT_KINDS for s in ('', ':signed')]
    + ['number:decimal:%d:%d%s' % (t, f, s) for t, f in ((5, 2), (3, 0), (10, 3), (2, 1), (38, 10), (38, 0), (19, 4)) for s in ('', ':signed')]
    + ['number:currency', 'boolean', 'datetime', 'ip:v4', 'ip:v6', 'geo:point']
    + ['number:float', 'number:float:signed', 'number:double', 'number:double:signed']
    + ['hex:1', 'hex:4', 'hex:4:2:-', 'hex:6:2::', 'hex:20']
    + ['string:0:mc', 'string:3:lc', 'string:3:uc', 'string:0:lc:u', 'string:0:uc:u', 'string:5:mc:u', 'string:0:lc', 'string:0:uc']
    + ['base64:0', 'base64:3', 'base64:10']
)


def family(dt):
    return dt.split(':')[0]


# ---- native values --------------------------------------------------------------------------------

def to_python(n):
    t = n['t']
    if t == 'int':
        return int(n['v'])
    if t == 'dec':
        digits = tuple(int(c) for c in n['coeff'])
        return Decimal((1 if n['neg'] else 0, digits, n['exp']))
    if t == 'bool':
        return bool(n['v'])
    if t == 'str':
        return n['v']
    if t == 'float':
        return float(n['v'])
    if t == 'datetime':
        y, mo, d, h, mi, s, us = n['f']
        tz = None if n['off'] is None else timezone(timedelta(minutes=n['off']))
        return datetime(y, mo, d, h, mi, s, us, tzinfo=tz)
    if t == 'none':
        return None
    raise ValueError(t)


def n_int(z):
    return {'t': 'int', 'v': str(z)}


def n_dec(neg, coeff, exp):
    return {'t': 'dec', 'neg': bool(neg), 'coeff': str(coeff), 'exp': int(exp)}


def n_str(s):
    return {'t': 'str', 'v': s}


def n_dt(y, mo, d, h, mi, s, us, off):
    return {'t': 'datetime', 'f': [y, mo, d, h, mi, s, us], 'off': off}


# ---- input generation -----------------------------------------------------------------------------

def int_inputs(rng, dt, n):
    sp = dt.split(':')
    bits = INT_KINDS[sp[1]]
    signed = sp[-1] == 'signed'
    lo, hi = (-(2 ** (bits - 1)), 2 ** (bits - 1) - 1) if signed else (0, 2 ** bits - 1)
    if sp[1] == 'mediumint' and signed:
        lo += 1
    zs = [lo, hi, lo - 1, hi + 1, 0, 1, -1, 7, 10, 100, -100, 2 ** 64, -(2 ** 63) - 1] + [rng.randint(lo - 5, hi + 5) for _ in range(n)]
    out = []
    for z in zs:
        out.append(n_int(z))
        r = rng.random()
        if r < 0.3:
            out.append(n_str(str(z)))
        elif r < 0.45:
            out.append(n_str(('+' if z >= 0 else '-') + '00' + str(abs(z))))
        elif r < 0.6:
            out.append(n_dec(z < 0, abs(z), 0))
        elif r < 0.7:
            k = rng.randint(1, 3)
            out.append(n_dec(z < 0, abs(z) * 10 ** k, -k))      # integral, written with fractional zeros
    out += [n_str(s) for s in ['', 'a', '1.0', '1e3', '0x10', '1-', '--1', '+-1', '5.', '.5', 'one', '-', '+', 'nan', 'inf']]
    out += [{'t': 'bool', 'v': True}, {'t': 'bool', 'v': False}, {'t': 'none'},
            {'t': 'float', 'v': '5.0'}, {'t': 'float', 'v': 'inf'}, {'t': 'float', 'v': 'nan'},
            n_str(' 5 '), n_str('1_0'), n_str('٥')]
    return out


def truncation_inputs(rng, n):
    """Non-integral numbers offered to an integer type (known finding: they are truncated). Kept in cases of their
    own so that the known finding never hides another failure."""
    out = [{'t': 'float', 'v': '5.9'}, {'t': 'float', 'v': '-0.5'}, {'t': 'float', 'v': '1.2'}]
    for _ in range(n):
        z = rng.randint(0, 120)
        out.append(n_dec(rng.random() < 0.3, z * 10 + rng.randint(1, 9), -1))
    return out


def dec_inputs(rng, dt, n):
    sp = dt.split(':')
    if sp[1] == 'currency':
        total, frac = 19, 4
    else:
        total, frac = int(sp[2]), int(sp[3])
    out = []
    for _ in range(n):
        digits = rng.randint(1, total + 2)
        coeff = rng.randint(0, 10 ** digits - 1) if rng.random() < 0.8 else rng.choice([0, 10 ** (digits - 1), 10 ** digits - 1, 5 * 10 ** (digits - 1)])
        e = -rng.randint(0, frac) if rng.random() < 0.8 else rng.randint(-frac - 3, 3)
        neg = rng.random() < 0.4
        r = rng.random()
        if r < 0.45:
            out.append(n_dec(neg, coeff, e))
        elif r < 0.9:
            d = Decimal((1 if neg else 0, tuple(int(c) for c in str(coeff)), e))
            s = format(d, 'f') if rng.random() < 0.7 else str(d)
            if rng.random() < 0.15:
                s = '+' + s if not neg else s
            out.append(n_str(s))
        else:
            out.append(n_int(-coeff if neg else coeff))
    out += [n_dec(True, 0, 0), n_dec(True, 0, -frac), n_dec(True, 0, -frac - 2), n_dec(True, 1, -frac - 1), n_dec(False, 5, -frac - 1),
            n_dec(False, 15, -frac - 1), n_dec(False, 25, -frac - 1), n_dec(True, 5, -frac - 1), n_dec(False, 10 ** total - 1, -frac),
            n_dec(False, 10 ** total, -frac), n_dec(False, 1, total - frac), n_dec(False, 1, 40)]
    out += [n_str(s) for s in ['-0', '-0.0', '0', '', 'a', '1,5', '1.5.5', 'NaN', 'Infinity', '-Infinity', 'sNaN', '1e2', '1E-2', '.5', '5.', ' 1.5 ',
                               '١.٥', '--1', '1e', 'e5', '+', '-']]
    out += [{'t': 'float', 'v': '0.1'}, {'t': 'float', 'v': '1.5'}, {'t': 'float', 'v': 'nan'}, {'t': 'float', 'v': 'inf'}, {'t': 'none'},
            {'t': 'bool', 'v': True}]
    return out


def bool_inputs(rng):
    return [{'t': 'bool', 'v': True}, {'t': 'bool', 'v': False}, n_int(0), n_int(1), n_int(2), n_int(-1), {'t': 'none'},
            {'t': 'float', 'v': '1.0'}, {'t': 'float', 'v': '0.0'}, {'t': 'float', 'v': '0.5'}, n_dec(False, 1, 0), n_dec(False, 0, 0), n_dec(False, 10, -1)] + \
        [n_str(s) for s in ['true', 'false', 'True', 'False', 'TRUE', 'FALSE', 'yes', 'no', '1', '0', '', ' true', 'true ', 't', 'on', 'tRue']]


def hex_inputs(rng, dt, n):
    vals = [v for v in c03.catalogue_for(dt) if c03.in_domain(dt, v)]
    out = [n_str(v) for v in vals]
    for v in vals[:12]:
        out.append(n_str(v.upper()))
        out.append(n_str(''.join(c.upper() if rng.random() < 0.5 else c for c in v)))
    out += [n_int(123), {'t': 'none'}, {'t': 'bool', 'v': True}]
    return out


def string_inputs(rng, dt, n):
    # (the last three: characters whose full case folding is longer than, or outside the character set of, their lower case)
    out = [n_str(v) for v in c03.STRING_VALUES] + [n_str('aßb'), n_str('µ'), n_str('AµB'), n_str('Straße')]
    out += [n_int(1), {'t': 'float', 'v': '1.5'}, {'t': 'none'}, {'t': 'bool', 'v': True}]
    return out


def b64_inputs(rng, dt, n):
    out = [n_str(v) for v in c03.B64_VALUES]
    for _ in range(n):
        raw = bytes(rng.randrange(256) for _ in range(rng.randint(0, 12)))
        s = base64.b64encode(raw).decode()
        out.append(n_str(s))
        out.append(n_str(s.rstrip('=')))
        if rng.random() < 0.3 and s.endswith('=='):
            out.append(n_str(s[:-1]))
    out += [n_int(1), {'t': 'none'}]
    return out


def dt_inputs(rng, n):
    out = []
    offsets = [None, 0, 60, -60, 120, 330, -570, 840, -720, 1, -1, 1439, -1439]
    for _ in range(n):
        y = rng.choice([1583, 1584, 1600, 1899, 1900, 1970, 1999, 2000, 2020, 2024, 2100, 9999, 1582, 1000, 1001]) if rng.random() < 0.6 else rng.randint(1001, 9998)
        mo = rng.randint(1, 12)
        leap = (y % 4 == 0 and y % 100 != 0) or y % 400 == 0
        dim = [31, 29 if leap else 28, 31, 30, 31, 30, 31, 31, 30, 31, 30, 31][mo - 1]
        d = rng.choice([1, dim, rng.randint(1, dim)])
        h, mi, s = rng.choice([0, 23, rng.randint(0, 23)]), rng.choice([0, 59, rng.randint(0, 59)]), rng.choice([0, 59, rng.randint(0, 59)])
        us = rng.choice([0, 999999, rng.randint(0, 999999), 1, 100000])
        off = rng.choice(offsets)
        if rng.random() < 0.6:
            out.append(n_dt(y, mo, d, h, mi, s, us, off))
        else:
            # ISO strings with offsets
            base = '%04d-%02d-%02dT%02d:%02d:%02d' % (y, mo, d, h, mi, s)
            if us and rng.random() < 0.8:
                base += '.%06d' % us
            if off is None:
                tail = rng.choice(['', 'Z'])
            else:
                sign = '+' if off >= 0 else '-'
                tail = '%s%02d:%02d' % (sign, abs(off) // 60, abs(off) % 60)
            out.append(n_str(base + tail))
    out += [n_str(s) for s in ['', 'yesterday', '2020-13-01', '2020-02-30', '2020-01-01T25:00:00', 'Z', '2020-01-01T23:59:60Z', '10000-01-01', 'abc',
                               '2020-01-01T12:00:00.123456789Z', '2020-01-01 12:00:00', '20200101T120000Z', '2020-01-01T12:00:00.000000Z']]
    out += [n_int(5), {'t': 'none'}]
    return out


def ip_inputs(rng, dt, n):
    out = []
    if dt == 'ip:v4':
        for _ in range(n):
            octs = [rng.choice([0, 1, 9, 10, 99, 100, 199, 200, 249, 250, 255, rng.randint(0, 255)]) for _ in range(4)]
            s = '.'.join(str(o) for o in octs)
            out.append(n_str(s))
            if rng.random() < 0.2:
                out.append(n_str('.'.join('%03d' % o for o in octs)))
        out += [n_str(s) for s in ['::1', '1.2.3', '256.1.1.1', '1.2.3.4.5', 'a.b.c.d', '', '1.2.3.4 ', '1.2.3.-4']]
    else:
        for _ in range(n):
            groups = [rng.choice([0, 0, 0, 1, 0xffff, 0xabcd, rng.randint(0, 0xffff)]) for _ in range(8)]
            addr = ipaddress.IPv6Address(':'.join('%x' % g for g in groups))
            forms = [addr.compressed, addr.exploded, addr.compressed.upper(), ':'.join('%x' % g for g in groups)]
            out.append(n_str(rng.choice(forms)))
        out += [n_str(s) for s in ['1.2.3.4', '::ffff:1.2.3.4', ':::', '', '12345::', 'g::', '1:2:3:4:5:6:7', '1:2:3:4:5:6:7:8:9', '::']]
    out += [{'t': 'none'}]
    return out


def geo_inputs(rng, n):
    out = []
    for _ in range(n):
        lat = Decimal(rng.randint(-90000000, 90000000)) / Decimal(10 ** 6)
        lon = Decimal(rng.randint(-179999999, 180000000)) / Decimal(10 ** 6)
        if rng.random() < 0.3:
            lat = lat.quantize(Decimal(1)) if rng.random() < 0.5 else lat.quantize(Decimal('0.01'))
        fmt = rng.choice(['%s,%s', '%s, %s'])
        out.append(n_str(fmt % (format(lat, 'f'), format(lon, 'f'))))
    out += [n_str(s) for s in ['90,0', '-90,0', '0,180', '0,-180', '91,0', '0,181', '1.5', '1,2,3', 'a,b', '', 'nan,0', 'inf,0', '1e1,2', '-0.0,0.0',
                               '0.0000001,0', '-0.0000001,0', '90.0000001,0', ',', '1,']]
    out += [{'t': 'none'}]
    return out


def float_inputs(rng, n):
    out = []
    for _ in range(n):
        m = rng.randint(0, 9999999)
        e = rng.randint(-30, 30)
        x = float('%de%d' % (m, e))
        if rng.random() < 0.4:
            x = -x
        out.append({'t': 'float', 'v': repr(x)})
        if rng.random() < 0.3:
            out.append(n_str(repr(x)))
        if rng.random() < 0.2:
            out.append(n_str('%E' % x))
    out += [{'t': 'float', 'v': v} for v in ['0.0', '-0.0', 'inf', '-inf', 'nan', '1e-45', '5e-324', '1e308', '3.4028235e38', '0.1', '1.5']]
    out += [n_str(s) for s in ['', 'abc', '1,5', 'NaN', 'INF', '1e5', '1E5', '٣', '1.5.5']] + [n_int(1), n_int(-5), {'t': 'none'}, n_dec(False, 15, -1)]
    return out


def inputs_for(rng, dt, tier):
    n = 12 if tier == 'quick' else 150
    fam = family(dt)
    if fam == 'number':
        k = dt.split(':')[1]
        if k in INT_KINDS:
            return int_inputs(rng, dt, n)
        if k in ('float', 'double'):
            return float_inputs(rng, n)
        return dec_inputs(rng, dt, n * 2)
    if fam == 'boolean':
        return bool_inputs(rng)
    if fam == 'hex':
        return hex_inputs(rng, dt, n)
    if fam == 'string':
        return string_inputs(rng, dt, n)
    if fam == 'base64':
        return b64_inputs(rng, dt, n)
    if fam == 'datetime':
        return dt_inputs(rng, n * 3)
    if fam == 'ip':
        return ip_inputs(rng, dt, n * 2)
    if fam == 'geo':
        return geo_inputs(rng, n * 2)
    return []


# ---- independent oracle: what a normalizer has to do ------------------------------------------------

UNSPEC = object()   # the property does not decide this input (outside "in-domain" and not garbage)


def expected_value(dt, n):
    """('value', canonical string) for an in-domain input that must normalize to exactly that string;
    ('garbage',) for input that does not denote a value of the type; UNSPEC otherwise."""
    sp = dt.split(':')
    fam = sp[0]
    t = n['t']
    if t == 'none':
        # every Python value can be cast to a string: string types take str(value) by design
        return ('garbage',) if fam != 'string' else UNSPEC
    if fam == 'number' and sp[1] in INT_KINDS:
        if t == 'int':
            return ('value', str(int(n['v'])))
        if t == 'bool':
            return UNSPEC
        if t == 'dec':
            d = to_python(n)
            return ('value', str(int(d))) if d == d.to_integral_value() else ('garbage',)
        if t == 'float':
            x = float(n['v'])
            if math.isnan(x) or math.isinf(x) or x != int(x):
                return ('garbage',)
            return ('value', str(int(x)))
        if t == 'str':
            s = n['v']
            if re.fullmatch(r'[+-]?[0-9]+', s):
                return ('value', str(int(s)))
            if re.fullmatch(r'\s*[+-]?[0-9]+(_[0-9]+)*\s*', s) or (s.strip() and s.strip().lstrip('+-').isdigit()):
                return UNSPEC      # Python's int() notations beyond plain ASCII digits
            return ('garbage',)
    if fam == 'number' and sp[1] in ('decimal', 'currency'):
        frac = 4 if sp[1] == 'currency' else int(sp[3])
        d = None
        if t == 'int':
            d = Decimal(int(n['v']))
        elif t == 'dec':
            d = to_python(n)
        elif t == 'bool':
            return UNSPEC
        elif t == 'float':
            x = float(n['v'])
            return ('garbage',) if (math.isnan(x) or math.isinf(x)) else UNSPEC
        elif t == 'str':
            s = n['v']
            if re.fullmatch(r'[+-]?([0-9]+(\.[0-9]*)?|\.[0-9]+)([eE][+-]?[0-9]+)?', s):
                d = Decimal(s)
            elif re.fullmatch(r'\s*[+-]?(nan|snan|inf|infinity)\s*', s.lower()):
                return ('garbage',)
            else:
                try:
                    Decimal(s)
                    return UNSPEC     # other notations Decimal() reads (whitespace, non-ASCII digits, underscores)
                except InvalidOperation:
                    return ('garbage',)
        if d is None:
            return UNSPEC
        if d.as_tuple().exponent < -frac:
            return UNSPEC     # more fractional digits than the type has: rounding is not specified by the property
        import decimal
        with decimal.localcontext() as ctx:
            ctx.prec = 200
            q = d.quantize(Decimal(1).scaleb(-frac))
        s = format(q.copy_abs(), 'f')
        return ('value', ('-' if q < 0 else '') + s)
    if fam == 'boolean':
        if t == 'bool':
            return ('value', 'true' if n['v'] else 'false')
        if t == 'int' and n['v'] in ('0', '1'):
            return ('value', 'true' if n['v'] == '1' else 'false')
        if t == 'str' and n['v'] in ('true', 'false', 'True', 'False'):
            return ('value', n['v'].lower())
        if t in ('float', 'dec'):
            return UNSPEC
        return ('garbage',)
    if fam == 'hex':
        if t != 'str':
            return ('garbage',)
        low = n['v'].lower()
        return ('value', low) if c03.spec_verdict(dt, None, low) else ('garbage',)
    if fam == 'base64':
        if t != 'str':
            return ('garbage',)
        s = n['v']
        if re.fullmatch(r'[A-Za-z0-9+/]*={0,2}', s) and len(s.rstrip('=')) % 4 != 1 and s.rstrip('=') != '':
            body = s.rstrip('=')
            padded = body + '=' * (-len(body) % 4)
            try:
                raw = base64.b64decode(padded, validate=True)
            except (binascii.Error, ValueError):
                return ('garbage',)
            if base64.b64encode(raw).decode() != padded:
                return ('garbage',)     # non-canonical trailing bits
            if s != padded and s != body:
                return UNSPEC          # partially padded
            return ('value', padded)
        return ('garbage',)
    if fam == 'string':
        if t != 'str':
            # string types take str(value) of any Python value (documented behaviour)
            return ('string', str(to_python(n))) if t in ('int', 'bool') else UNSPEC
        return ('string', n['v'])
    if fam == 'datetime':
        if t == 'datetime':
            x = to_python(n)
            x = x.replace(tzinfo=timezone.utc) if x.tzinfo is None else x
            try:
                u = x.astimezone(timezone.utc)
            except OverflowError:
                return ('garbage',)
            if u.year < 1000:
                return UNSPEC
            return ('value', '%04d-%02d-%02dT%02d:%02d:%02d.%06dZ' % (u.year, u.month, u.day, u.hour, u.minute, u.second, u.microsecond))
        if t == 'str':
            m = re.fullmatch(r'(\d{4})-(\d\d)-(\d\d)T(\d\d):(\d\d):(\d\d)(\.(\d{6}))?(Z|[+-]\d\d:\d\d)?', n['v'])
            if m:
                try:
                    x = datetime(*(int(m.group(i)) for i in (1, 2, 3, 4, 5, 6)), int(m.group(8) or 0))
                except ValueError:
                    return ('garbage',)
                z = m.group(9)
                off = 0
                if z and z != 'Z':
                    off = (1 if z[0] == '+' else -1) * (int(z[1:3]) * 60 + int(z[4:6]))
                try:
                    u = x - timedelta(minutes=off)
                except OverflowError:
                    return ('garbage',)
                if u.year < 1000:
                    return UNSPEC
                return ('value', '%04d-%02d-%02dT%02d:%02d:%02d.%06dZ' % (u.year, u.month, u.day, u.hour, u.minute, u.second, u.microsecond))
            return UNSPEC   # dateutil's heuristics are not specified
        return ('garbage',)
    if fam == 'ip':
        if t != 'str':
            return ('garbage',)
        s = n['v']
        try:
            if sp[1] == 'v4':
                if not re.fullmatch(r'\d{1,3}(\.\d{1,3}){3}', s):
                    return UNSPEC
                a = ipaddress.IPv4Address('.'.join(str(int(p)) for p in s.split('.')))
                return ('value', str(a))
            if not re.fullmatch(r'[0-9a-fA-F:]+', s):
                return UNSPEC
            return ('value', ipaddress.IPv6Address(s).exploded)
        except ValueError:
            return ('garbage',)
    if fam == 'geo':
        if t != 'str':
            return ('garbage',)
        m = re.fullmatch(r'(-?\d+(?:\.\d{0,6})?), ?(-?\d+(?:\.\d{0,6})?)', n['v'])
        if not m:
            return UNSPEC
        lat, lon = Decimal(m.group(1)), Decimal(m.group(2))
        q = Decimal('0.000001')
        return ('value', '%s,%s' % tuple(('-' if x < 0 and x.quantize(q) == 0 else '') + format(x.quantize(q), 'f').lstrip('-') if x.quantize(q) == 0
                                        else format(x.quantize(q), 'f') for x in (lat, lon)))
    if fam == 'number':   # float / double
        if t == 'float':
            x = float(n['v'])
            return ('garbage',) if (math.isnan(x) or math.isinf(x)) else ('float', x)
        if t == 'int':
            return ('float', float(int(n['v'])))
        if t == 'str':
            s = n['v']
            if re.fullmatch(r'[+-]?([0-9]+(\.[0-9]*)?|\.[0-9]+)([eE][+-]?[0-9]+)?', s):
                x = float(s)
                return ('garbage',) if math.isinf(x) else ('float', x)
            try:
                float(s)
                return UNSPEC if not s.strip().lower().lstrip('+-') in ('nan', 'inf', 'infinity') else ('garbage',)
            except ValueError:
                return ('garbage',)
        return UNSPEC
    return UNSPEC


KNOWN_TRUNCATION = 'integerTruncation'


class C13(Property):
    id = 'C13'
    title = 'Object value normalization is idempotent, sound and value-preserving'
    design_ref = 'DESIGN.md section 10, C13'
    required_theorems = (
        'normInt_value', 'normInt_accepted_iff', 'normInt_idempotent', 'integer_truncation_violates', 'normBool_sound',
        'normBool_accepted', 'normBool_idempotent', 'normBool_str_rejects', 'normDecimal_accepted_iff', 'normDecimal_value',
        'normDecimal_idempotent', 'normDecimal_zero_unsigned', 'normBase64_length', 'asciiLower_idempotent',
        'asciiUpper_idempotent', 'normHex_idempotent', 'normDatetime_preserves_instant', 'normDatetime_utc_fixed',
        'normDatetime_aware_sound', 'formatUtc_accepted', 'accepts_datetime_iff',
    )
    level_text = ('Lean 4 theorems over the model of DataType.normalize_objects composed with the C03 gate model: for the '
                  'integer, decimal/currency and boolean families the normal form of every in-domain input denotes the same '
                  'number, is accepted by the gate exactly when the value is in the range / digit budget of the type, and is '
                  'a fixed point of normalization; a datetime with a UTC offset is normalised to the UTC notation of the same '
                  'instant (same minute since the epoch; the calendar conversions are proved inverse to each other, the '
                  'year-of-era formula by kernel evaluation over all 146097 days of an era) and a valid UTC datetime to its '
                  'own notation; negative zero becomes unsigned zero; base64 padding yields a multiple of '
                  'four and is idempotent; ASCII case folding (hex, lc/uc strings) is idempotent. Datetime (conversion to UTC '
                  'by civil-day arithmetic), IP, geo and float normalization are modelled executably or judged by independent '
                  'oracles and compared with the code, not proved. Compared with DataType.normalize_objects, the writer\'s auto '
                  'repair and the real gate on boundary inputs of every family.')
    level_note = ('Proof is about the model. Python\'s int()/Decimal()/float() parsers, dateutil, IPy, str.lower/upper on '
                  'non-ASCII text and IEEE rounding are runtime behaviour outside the model: the model answers "undecided" '
                  'there and only the independent oracle judges. Floats are preserved only up to the seven significant digits '
                  'of the EDXML normal form.')
    technique = 'Lean 4 proof (numeral rendering/parsing round trips composed with the gate recognisers) + differential correspondence'
    parallel = True
    assumptions = ('string inputs in the modelled notations are ASCII', 'decimal inputs have no more fractional digits than the data type')

    def rule(self):
        return ('cases: (data type, list of native inputs: int, Decimal, bool, float, str in several notations, datetime '
                'with/without offset, None); observed per input: normalize_objects output or rejection, the output '
                'normalized again, the real gate\'s verdict on the output, and for string inputs what a writer with auto '
                'repair writes; non-trivial = a case with both accepted and rejected outputs; distinct by content')

    def generate(self, rng, tier):
        for dt in DT_GRID:
            inputs = inputs_for(rng, dt, tier)
            for i in range(0, len(inputs), 30):
                yield {'kind': 'norm', 'dt': dt, 'inputs': inputs[i:i + 30]}
            if dt.split(':')[1:2] and dt.split(':')[1] in INT_KINDS:
                yield {'kind': 'norm', 'dt': dt, 'inputs': truncation_inputs(rng, 3 if tier == 'quick' else 40), 'trunc': True}

    # -- implementation
    def observe(self, case):
        from edxml.ontology import DataType
        from edxml.error import EDXMLEventValidationError
        from edxml.event_validator import EventValidator
        dt = case['dt']
        et = {'props': [{'name': 'p', 'dt': dt, 'regex': None, 'optional': False, 'multivalued': False}]}
        o = c03.build_ontology(et)
        validator = EventValidator(o)

        def norm(x):
            try:
                r = sorted(DataType(dt).normalize_objects([x]))
                return {'ok': r[0]} if len(r) == 1 else 'err:size%d' % len(r)
            except EDXMLEventValidationError:
                return 'reject'
            except Exception as ex:
                return 'err:' + type(ex).__name__

        def gate(v):
            if not c03.in_domain(dt, v) and family(dt) != 'string':
                # values that cannot be written as XML or carry surrounding whitespace: ask the gate anyway when possible
                pass
            try:
                e = gen.build_event({'type': 't', 'source': '/s/', 'props': [['p', [v]]]}, 'parsed')
                return bool(validator.is_valid(e))
            except Exception:
                return None

        # the same event type in an ontology that was built the other way round: the property is created while its object
        # type still has the default data type, the data type is set afterwards
        from edxml.ontology import Ontology
        from edxml.event import EDXMLEvent
        late_o = Ontology()
        late_o.create_event_source('/s/')
        late_ot = late_o.create_object_type('o.t.p')
        late_t = late_o.create_event_type('t')
        late_t.create_property('p', 'o.t.p')
        late_ot.set_data_type(DataType(dt))

        def norm_late(value):
            try:
                ev = EDXMLEvent({'p': [value]}, event_type_name='t', source_uri='/s/')
            except Exception:
                return None
            try:
                late_t.normalize_event_objects(ev, ['p'])
                r = sorted(ev['p'])
                return {'ok': r[0]} if len(r) == 1 else 'err:size%d' % len(r)
            except EDXMLEventValidationError:
                return 'reject'
            except Exception as ex:
                return 'err:' + type(ex).__name__

        out, again, gates, gate_in, repaired, late = [], [], [], [], [], []
        for n in case['inputs']:
            x = to_python(n)
            r = norm(x)
            out.append(r)
            late.append(norm_late(n['v']) if n['t'] == 'str' else None)
            if isinstance(r, dict):
                again.append(norm(r['ok']))
                gates.append(gate(r['ok']))
            else:
                again.append(r)
                gates.append(None)
            if n['t'] == 'str':
                gate_in.append(gate(n['v']))
                repaired.append(self.repair(o, n['v']))
            else:
                gate_in.append(None)
                repaired.append(None)
        # normalizing through the event type is normalizing with the data type the object type has now
        late = [None if (v is None or v == o_) else ['through the event type', v] for v, o_ in zip(late, out)]
        return {'out': out, 'again': again, 'gate': gates, 'gateIn': gate_in, 'repaired': repaired, 'late': late}

    @staticmethod
    def repair(o, value):
        """What a writer with auto repair (normalize) writes for an event holding the value: the written object,
        'rejected', or None when the value cannot be put into an event."""
        from edxml import EDXMLWriter, EDXMLPullParser
        from edxml.error import EDXMLEventValidationError
        from edxml.event import EDXMLEvent
        import logging
        logging.disable(logging.CRITICAL)
        try:
            ev = EDXMLEvent({'p': [value]}, event_type_name='t', source_uri='/s/')
            buf = io.BytesIO()
            w = EDXMLWriter(buf)
            w.enable_auto_repair_normalize('t', ['p'])
            w.add_ontology(o)
        except Exception:
            return None
        try:
            w.add_event(ev)
            w.close()
        except EDXMLEventValidationError:
            return 'rejected'
        except Exception as ex:
            return 'err:' + type(ex).__name__
        got = []

        class P(EDXMLPullParser):
            def _parsed_event(self, event):
                got.append(sorted(event['p']))
        try:
            P().parse(io.BytesIO(buf.getvalue()))
        except Exception as ex:
            return 'unreadable:' + type(ex).__name__
        return {'written': got[0][0]} if got and len(got[0]) == 1 else 'written:%r' % got

    # -- model
    def requests(self, case):
        vals = [n if n['t'] != 'float' else {'t': 'none'} for n in case['inputs']]
        return [{'op': 'norm', 'dt': case['dt'], 'values': vals}]

    def predict(self, case, replies):
        rep = replies[0]
        out, again, gates, gate_in, repaired = [], [], [], [], []
        for n, o, a, g, gi in zip(case['inputs'], rep['out'], rep['again'], rep['gate'], rep['gateIn']):
            und = n['t'] == 'float'
            out.append('undecided' if und else o)
            again.append('undecided' if und or a == 'undecided' else a)
            gates.append('undecided' if und or g is None else g)
            gate_in.append('undecided' if gi is None else gi)
            # the writer: a valid value is written as it is; an invalid one is normalized and written when the gate
            # accepts the result, else the event is rejected
            if n['t'] != 'str' or gi is None or o == 'undecided':
                repaired.append('undecided')
            elif gi:
                repaired.append({'written': n['v']})
            elif isinstance(o, dict) and g is True and o['ok'] != n['v']:
                repaired.append({'written': o['ok']})
            elif isinstance(o, dict) and g is None:
                repaired.append('undecided')
            else:
                repaired.append('rejected')
        return {'out': out, 'again': again, 'gate': gates, 'gateIn': gate_in, 'repaired': repaired, 'late': [None] * len(out)}

    def fill_undecided(self, case, obs, pred):
        for k in ('out', 'again', 'gate', 'gateIn', 'repaired'):
            pred[k] = [o if p == 'undecided' else p for o, p in zip(obs[k], pred[k])]
        pred.setdefault('late', [None] * len(obs['out']))
        # everything downstream of an undecided output is undecided as well
        for i, (o, p) in enumerate(zip(obs['out'], pred['out'])):
            if o is p or (case['inputs'][i]['t'] == 'float'):
                pass
        return pred

    # -- oracle
    def judge(self, dt, n, out, again, gate, repaired):
        """None or a description of how the property fails on this input; second value: known-finding flag."""
        exp = expected_value(dt, n)
        shown = '%s input %s' % (dt, json.dumps(n, ensure_ascii=False))
        if isinstance(out, str) and out.startswith('err:'):
            if exp is UNSPEC:
                return None, None
            return '%s: normalization raised %s instead of an event validation error' % (shown, out[4:]), None
        if isinstance(repaired, dict) and 'written' in repaired and c03.spec_verdict(dt, None, repaired['written']) is False:
            return '%s: a writer with auto repair wrote the object %r, which is not in the value space of the type' % (
                shown, repaired['written']), None
        if isinstance(repaired, str) and repaired.startswith('unreadable'):
            return '%s: a writer with auto repair accepted the event but a validating parser rejects what it wrote (%s)' % (
                shown, repaired), None
        if exp is UNSPEC:
            # whatever comes out must at least be stable when the gate accepts it
            if isinstance(out, dict) and again != out:
                return '%s: normalizing the output %r again gives %r' % (shown, out['ok'], again), None
            return None, None
        if exp[0] == 'garbage':
            if isinstance(out, dict) and gate is True:
                flag = None
                sp = dt.split(':')
                if sp[0] == 'number' and sp[1] in INT_KINDS and n['t'] in ('float', 'dec'):
                    flag = KNOWN_TRUNCATION
                return '%s does not denote a value of the type but is turned into the valid object %r' % (shown, out['ok']), flag
            return None, None
        if out == 'reject' or not isinstance(out, dict):
            if exp[0] == 'value':
                # in-domain input may only be refused when its value does not fit the type
                v = c03.spec_verdict(dt, None, exp[1])
                if v:
                    return '%s denotes %s, a value of the type, but is rejected' % (shown, exp[1]), None
            return None, None
        s = out['ok']
        if exp[0] == 'value':
            want_valid = c03.spec_verdict(dt, None, exp[1])
            if s != exp[1] and not (family(dt) == 'geo' and s.replace('-0.000000', '0.000000') == exp[1].replace('-0.000000', '0.000000')):
                return '%s denotes %s but normalizes to %r' % (shown, exp[1], s), None
            if want_valid is not None and gate is not None and gate != want_valid:
                return '%s: normal form %r is %s by the gate' % (shown, s, 'rejected' if want_valid else 'accepted'), None
        elif exp[0] == 'float':
            x = exp[1]
            m = re.fullmatch(r'([+-]?)(\d)\.(\d{6})E([+-]\d+)', s)
            if not m:
                return '%s: %r is not in the float normal form' % (shown, s), None
            y = float(s)
            if (y < 0) != (x < 0) and x != 0:
                return '%s: sign changed: %r' % (shown, s), None
            if x != 0 and abs(y - x) > abs(x) * 5.1e-7:
                return '%s: %r differs from the value beyond the precision of the normal form' % (shown, s), None
            if gate is False and (dt.endswith('signed') or x >= 0) and abs(x) < 1e30:
                return '%s: normal form %r is rejected by the gate' % (shown, s), None
        elif exp[0] == 'string':
            sp = dt.split(':')
            if s.casefold() != exp[1].casefold() and not (sp[2] in ('lc', 'uc')):
                return '%s: %r is another string' % (shown, s), None
            if sp[2] == 'mc' and s != exp[1]:
                return '%s: mixed case string changed into %r' % (shown, s), None
            if sp[2] in ('lc', 'uc') and unicase(s) != unicase(exp[1]):
                return '%s: %r is not a case variant of the input' % (shown, s), None
            if sp[2] in ('lc', 'uc'):
                # when the lower / upper case form of the input is in the value space, that is the normal form, and the gate takes it
                want = exp[1].lower() if sp[2] == 'lc' else exp[1].upper()
                if c03.spec_verdict(dt, None, want) is True:
                    if s != want:
                        return '%s: the %s case form %r is a value of the type, but the normal form is %r' % (
                            shown, 'lower' if sp[2] == 'lc' else 'upper', want, s), None
                    if gate is False:
                        return '%s: normal form %r is rejected by the gate' % (shown, s), None
        if again != out:
            return '%s: normal form %r is not a fixed point: normalizing it again gives %r' % (shown, s, again), None
        if n['t'] == 'str' and repaired is not None and gate is True and exp[0] == 'value':
            ok_in = c03.spec_verdict(dt, None, n['v'])
            if ok_in is False and repaired != {'written': s}:
                return '%s: a writer with auto repair answers %r instead of writing %r' % (shown, repaired, s), None
        return None, None

    def oracle(self, case, obs):
        for i, n in enumerate(case['inputs']):
            if obs.get('late') and obs['late'][i] is not None:
                return ('data type %s, input %r: EventType.normalize_event_objects answers %r where the data type of the object type '
                        'answers %r (the property was created before the object type got this data type)' % (
                            case['dt'], n.get('v'), obs['late'][i][1], obs['out'][i]))
        for i, n in enumerate(case['inputs']):
            msg, flag = self.judge(case['dt'], n, obs['out'][i], obs['again'][i], obs['gate'][i], obs['repaired'][i])
            if msg is not None and flag is None:
                return msg
        for i, n in enumerate(case['inputs']):
            msg, flag = self.judge(case['dt'], n, obs['out'][i], obs['again'][i], obs['gate'][i], obs['repaired'][i])
            if msg is not None:
                return msg
        return None

    def flags_hit(self, case, replies):
        return [KNOWN_TRUNCATION] if case.get('trunc') else []

    def nontrivial_obs(self, case, obs):
        # a case with both accepted and rejected outputs
        if not isinstance(obs, dict):
            return None
        accepted = any(isinstance(o, dict) and g is True for o, g in zip(obs['out'], obs['gate']))
        rejected = any(o == 'reject' or g is False for o, g in zip(obs['out'], obs['gate']))
        return json.dumps(case, sort_keys=True) if accepted and rejected else None

    def neighbours(self, case, rng):
        return [{'kind': 'norm', 'dt': case['dt'], 'inputs': inputs_for(rng, case['dt'], 'quick')[:40]} for _ in range(5)]

    def reductions(self, case):
        xs = case['inputs']
        if len(xs) > 1:
            yield dict(case, inputs=xs[:len(xs) // 2])
            yield dict(case, inputs=xs[len(xs) // 2:])
            for i in range(len(xs)):
                yield dict(case, inputs=xs[:i] + xs[i + 1:])

    def sample_view(self, case):
        return {'dt': case['dt'], 'inputs': case['inputs'][:6]}


def unicase(s):
    return s.upper().casefold()


PROPERTY = C13()
