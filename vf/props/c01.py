"""C01 - sticky hash is exactly the specified function of logical event identity."""
import codecs
import hashlib
import io
import itertools
import json

from vf.core import Property
from vf import gen

MERGES = ['match', 'any', 'add', 'set', 'replace', 'min', 'max']


def spec_hash(source, typ, hashed, pairs, fn, enc):
    """The EDXML-specified hash, written independently of both the SDK and the Lean model."""
    strs = sorted(set(('%s:%s' % (p, v)).encode('utf-8') for p, v in pairs if p in hashed))
    data = source.encode('utf-8') + b'\n' + typ.encode('utf-8') + b'\n' + b'\xff\xff\xff\xff'.join(strs)
    digest = getattr(hashlib, fn)(data).digest()
    return codecs.encode(digest, enc).decode()


class C01(Property):
    id = 'C01'
    title = 'Sticky hash is exactly the specified function of logical event identity'
    design_ref = 'DESIGN.md section 10, C01'
    required_theorems = (
        'hashInput_congr', 'hashInput_perm', 'hashInput_ignores_unhashed', 'hashInput_ignores_rest',
        'hashInput_injective', 'utf8_injective', 'hashed_memo_sound', 'objStrings_sorted_nodup',
    )
    level_text = ('Lean 4 theorems over the executable model of compute_sticky_hash: the hash input depends only on '
                  'source, type and the set of hashed (property, object) pairs (all orders, duplicates, '
                  'non-hashed properties, attachments, parents, foreign attributes), the byte layout is '
                  'injective (so the input changes whenever those change), UTF-8 encoding is injective, and the '
                  'hashed-property memo is sound for every history of strategy changes. The model is tied to '
                  'the code digest-by-digest on generated events in all three representations.')
    level_note = ('Proof is about the model; SHA-1/SHA-256 are executable-only in Lean and compared with hashlib; '
                  'collision resistance assumed; CPython UTF-8 and lxml text handling modelled.')
    technique = 'Lean 4 proof (layout injectivity, set-congruence, memo invariant) + differential correspondence'
    assumptions = (
        'SHA-1/SHA-256 collision resistance (identity theorems are about the hash input)',
        'CPython str.encode() equals the model\'s UTF-8 encoder (compared on every run)',
    )

    def rule(self):
        return ('cases: (event type property table, event with explicit property/object order and '
                'duplicates, representation plain|element|parsed, hash function, encoding, observation '
                'point direct|collection|hasher) and memo histories (strategy changes, property '
                'additions/removals interleaved with hashing); non-trivial = at least one hashed '
                'property carries an object, or a memo history with a strategy change; distinct by content')

    # ---- generation ----------------------------------------------------------------------
    def gen_event(self, rng, names, valid_only=False):
        props = []
        pool = [s for s in gen.STR_POOL if s.strip() == s and '\n' not in s and '\r' not in s and s] if valid_only else gen.STR_POOL
        for _ in range(rng.randint(0, 5)):
            n = rng.choice(names)
            objs = [rng.choice(pool) for _ in range(rng.randint(0, 4))]
            if rng.random() < 0.2 and objs:
                objs.append(objs[0])
            props.append([n, objs])
        ev = {'type': rng.choice(gen.TYPES), 'source': rng.choice(gen.SOURCES), 'props': props}
        if rng.random() < 0.3:
            ev['atts'] = [['att', [['id1', 'content']]]]
        if rng.random() < 0.3:
            ev['parents'] = [hashlib.sha1(rng.choice(pool).encode()).hexdigest()]
        if rng.random() < 0.2:
            ev['foreign'] = [['{http://some/ns}attr', 'v']]
        return ev

    def generate(self, rng, tier):
        n = 1500 if tier == 'quick' else 40000
        for i in range(n):
            names = gen.rand_subset(rng, gen.PROP_NAMES, 1, 5)
            ptypes = [[nm, rng.choice(['match', 'match', 'any', 'add', 'set'])] for nm in names]
            via = rng.choice(['direct'] * 6 + ['collection', 'hasher'])
            if via == 'direct':
                ev = self.gen_event(rng, names + ([rng.choice(gen.PROP_NAMES)] if rng.random() < 0.2 else []))
                yield {'kind': 'hash', 'ptypes': ptypes, 'event': ev,
                       'repr': rng.choice(['plain', 'element', 'parsed']),
                       'fn': rng.choice(['sha1', 'sha1', 'sha256']), 'enc': rng.choice(['hex', 'hex', 'base64']),
                       'via': via}
            else:
                ev = self.gen_event(rng, names, valid_only=True)
                ev['type'] = 't'
                ev['source'] = '/a/'
                ev.pop('foreign', None)
                yield {'kind': 'hash', 'ptypes': ptypes, 'event': ev, 'repr': rng.choice(['plain', 'element']),
                       'fn': 'sha1' if via == 'collection' else rng.choice(['sha1', 'sha256']), 'enc': 'hex',
                       'via': via}
        # permutation families: the same logical event in all orders must hash alike
        m = 40 if tier == 'quick' else 400
        for i in range(m):
            names = gen.rand_subset(rng, gen.PROP_NAMES, 2, 3)
            ptypes = [[nm, 'match'] for nm in names]
            items = [[nm, [rng.choice(gen.STR_POOL)]] for nm in names for _ in range(rng.randint(1, 2))][:4]
            for perm in itertools.permutations(items):
                yield {'kind': 'hash', 'ptypes': ptypes,
                       'event': {'type': 't', 'source': '/a/', 'props': [list(p) for p in perm]},
                       'repr': rng.choice(['plain', 'element', 'parsed']), 'fn': 'sha1', 'enc': 'hex', 'via': 'direct'}
        # memo histories
        k = 300 if tier == 'quick' else 5000
        for i in range(k):
            names = gen.rand_subset(rng, gen.PROP_NAMES, 1, 4)
            ptypes = [[nm, rng.choice(['match', 'any', 'add'])] for nm in names]
            ops = []
            cur = [p[0] for p in ptypes]
            for _ in range(rng.randint(1, 8)):
                r = rng.random()
                if r < 0.4:
                    ops.append({'k': 'get'})
                elif r < 0.75 and cur:
                    ops.append({'k': 'set', 'n': rng.choice(cur), 's': rng.choice(['match', 'any', 'add', 'set'])})
                elif r < 0.9:
                    nm = rng.choice(gen.PROP_NAMES)
                    if nm not in cur:
                        # the property is created directly, or arrives with an upgrade of the event type (Ontology.update)
                        ops.append({'k': rng.choice(['add', 'add', 'addu', 'addu']), 'n': nm, 's': rng.choice(['match', 'any'])})
                        if ops[-1]['k'] == 'add' and rng.random() < 0.5:
                            # through the mapping interface of the event type (et[name] = EventProperty(...)) / add_property()
                            ops[-1]['how'] = rng.choice(['item', 'add_property'])
                        if ops[-1]['k'] == 'addu' and rng.random() < 0.5:
                            # the same upgrade, offered together with a definition of the event source that is in conflict with
                            # ours: the update is refused after the event type was upgraded (updates are not atomic)
                            ops[-1]['refused'] = True
                        cur.append(nm)
                elif len(cur) > 1:
                    nm = rng.choice(cur)
                    cur.remove(nm)
                    ops.append({'k': 'del', 'n': nm})
                    if rng.random() < 0.5:
                        ops[-1]['how'] = 'item'      # del et[name]
            ops.append({'k': 'get'})
            ev = self.gen_event(rng, cur or names)
            c = {'kind': 'memo', 'ptypes': ptypes, 'ops': ops, 'event': ev}
            yield c
        for i in range(100 if tier == 'quick' else 2000):
            # the event type has a child event type (its parent definition maps the hashed properties), and the ontology is
            # used (validated, written, serialized, compared, used as update source) between hashing; the strategies of the
            # other properties change
            names = gen.rand_subset(rng, gen.PROP_NAMES, 2, 4)
            ptypes = [[nm, 'match' if k == 0 else rng.choice(['match', 'any', 'add'])] for k, nm in enumerate(names)]
            loose = [nm for nm, m in ptypes if m != 'match']
            ops = []
            for _ in range(rng.randint(2, 7)):
                r = rng.random()
                if r < 0.3:
                    ops.append({'k': 'get'})
                elif r < 0.8 or not loose:
                    ops.append({'k': 'use', 'how': rng.choice(['validate', 'validate', 'write', 'xml', 'update', 'compare'])})
                else:
                    ops.append({'k': 'set', 'n': rng.choice(loose), 's': rng.choice(['any', 'add', 'set'])})
            ops.append({'k': 'get'})
            yield {'kind': 'memo', 'ptypes': ptypes, 'ops': ops, 'event': self.gen_event(rng, names), 'child': True}

    # ---- implementation ------------------------------------------------------------------
    def build_ontology(self, ptypes, with_child=False):
        from edxml.ontology import Ontology
        o = Ontology()
        o.create_object_type('o', data_type='string:0:mc:u')
        o.create_event_source('/a/')
        et = o.create_event_type('t')
        for name, merge in ptypes:
            p = et.create_property(name, 'o').make_optional().make_multivalued()
            p.set_merge_strategy(merge)
        et.create_attachment('att')
        if with_child:
            # a child event type whose parent is t: ontology validation then looks at the hashed properties of t
            child = o.create_event_type('tchild')
            for name, _merge in ptypes:
                child.create_property(name, 'o').make_optional()
            # (make_child maps the hashed properties of the parent by name)
            child.make_child('of', et.make_parent('with', child))
        return o, et

    def observe(self, case):
        import edxml
        o, et = self.build_ontology(case['ptypes'], with_child=case.get('child', False))
        if case['kind'] == 'memo':
            outs = []
            for op in case['ops']:
                if op['k'] == 'get':
                    outs.append(sorted(et.get_hashed_properties().keys()))
                    continue
                if op['k'] == 'use':
                    # the ontology is used in a way that must not change it: validated, serialized, written, compared,
                    # used to update another ontology (all of which may consult the hashed properties)
                    try:
                        if op['how'] == 'validate':
                            o.validate()
                        elif op['how'] == 'xml':
                            o.generate_xml()
                        elif op['how'] == 'write':
                            edxml.EDXMLWriter(io.BytesIO()).add_ontology(o).close()
                        elif op['how'] == 'update':
                            from edxml.ontology import Ontology
                            Ontology().update(o)
                        elif op['how'] == 'compare':
                            o == o
                    except Exception:
                        pass
                    outs.append(None)
                    continue
                if op['k'] == 'set':
                    et[op['n']].set_merge_strategy(op['s'])
                elif op['k'] == 'add' and op.get('how') in ('item', 'add_property'):
                    from edxml.ontology import EventProperty
                    prop = EventProperty(et, op['n'], o.get_object_type('o'), optional=True, multivalued=True, merge=op['s'])
                    if op['how'] == 'item':
                        et[op['n']] = prop
                    else:
                        et.add_property(prop)
                elif op['k'] == 'add':
                    et.create_property(op['n'], 'o').make_optional().make_multivalued().set_merge_strategy(op['s'])
                elif op['k'] == 'addu':
                    # a newer version of the ontology that differs by the added property only, merged into this one
                    from lxml import etree
                    from edxml.ontology import Ontology
                    doc = etree.fromstring('<edxml xmlns="http://edxml.org/edxml" version="3.0.0"/>')
                    doc.append(o.generate_xml())
                    o2 = Ontology.create_from_xml(etree.fromstring(etree.tostring(doc))[0])
                    et2 = o2.get_event_type('t')
                    et2.create_property(op['n'], 'o').make_optional().make_multivalued().set_merge_strategy(op['s'])
                    et2.set_version(et.get_version() + 1)
                    if op.get('refused'):
                        from edxml.error import EDXMLOntologyValidationError
                        o2.get_event_source('/a/').set_description('described differently')
                        try:
                            o.update(o2)
                        except EDXMLOntologyValidationError:
                            pass
                    else:
                        o.update(o2)
                elif op['k'] == 'del' and op.get('how') == 'item':
                    del et[op['n']]
                elif op['k'] == 'del':
                    et.remove_property(op['n'])
                outs.append(None)
            e = gen.build_event(case['event'], 'plain')
            return {'outs': outs, 'hash': e.compute_sticky_hash(et)}
        ev = case['event']
        fn = getattr(hashlib, case['fn'])
        if case['via'] == 'direct':
            e = gen.build_event(ev, case['repr'])
            return {'hash': e.compute_sticky_hash(et, hash_function=fn, encoding=case['enc'])}
        e = gen.build_event(ev, case['repr'])
        coll = edxml.EventCollection([e], o)
        if case['via'] == 'collection':
            return {'hash': sorted(coll.create_dict_by_hash().keys())[0]}
        from edxml.cli.edxml_hash import EDXMLEventHasher
        data = coll.to_edxml()
        with gen.captured_stdout() as buf:
            EDXMLEventHasher(fn).parse(io.BytesIO(data))
        return {'hash': buf.getvalue().strip()}

    # ---- model ---------------------------------------------------------------------------
    def requests(self, case):
        if case['kind'] == 'memo':
            # using the ontology is no operation of the model
            mops = [{k: v for k, v in dict(op, k='add').items() if k != 'refused'} if op['k'] == 'addu' else op
                    for op in case['ops'] if op['k'] != 'use']
            return [{'op': 'memo', 'props': case['ptypes'], 'ops': mops}]
        hashed = [n for n, m in case['ptypes'] if m == 'match']
        return [{'op': 'hash', 'fn': case['fn'], 'enc': case['enc'], 'hashed': hashed, 'event': case['event']}]

    def predict(self, case, replies):
        if case['kind'] == 'memo':
            it = iter(replies[0]['outs'])
            outs = [None if op['k'] == 'use' else next(it) for op in case['ops']]
            final = outs[-1]
            ev = case['event']
            pairs = [(p, v) for p, vs in ev['props'] for v in vs]
            # the digest of the final event is derived from the model's final hashed set
            return {'outs': outs, 'hash': spec_hash(ev['source'], ev['type'], final, pairs, 'sha1', 'hex')}
        return {'hash': replies[0]['hash']}

    # ---- oracle --------------------------------------------------------------------------
    def oracle(self, case, obs):
        ev = case['event']
        pairs = [(p, v) for p, vs in ev['props'] for v in vs]
        if case['kind'] == 'memo':
            cur = [list(p) for p in case['ptypes']]
            for op in case['ops']:
                if op['k'] == 'set':
                    cur = [[n, op['s'] if n == op['n'] else m] for n, m in cur]
                elif op['k'] in ('add', 'addu'):
                    cur.append([op['n'], op['s']])
                elif op['k'] == 'del':
                    cur = [p for p in cur if p[0] != op['n']]
            hashed = [n for n, m in cur if m == 'match']
            want = spec_hash(ev['source'], ev['type'], hashed, pairs, 'sha1', 'hex')
        else:
            hashed = [n for n, m in case['ptypes'] if m == 'match']
            want = spec_hash(ev['source'], ev['type'], hashed, pairs, case['fn'], case['enc'])
        if obs['hash'] != want:
            return 'sticky hash %r differs from the specified hash %r' % (obs['hash'], want)
        return None

    def neighbours(self, case, rng):
        out = []
        for _ in range(200):
            c = json.loads(json.dumps(case))
            c['event']['props'] = [[n, [rng.choice(gen.STR_POOL) for _ in o]] for n, o in c['event']['props']]
            out.append(c)
        return out

    def reductions(self, case):
        ev = case['event']
        for i in range(len(ev['props'])):
            c = json.loads(json.dumps(case))
            del c['event']['props'][i]
            yield c
        for i, (n, objs) in enumerate(ev['props']):
            for j in range(len(objs)):
                c = json.loads(json.dumps(case))
                del c['event']['props'][i][1][j]
                yield c
        for key in ('atts', 'parents', 'foreign'):
            if ev.get(key):
                c = json.loads(json.dumps(case))
                del c['event'][key]
                yield c
        if case['kind'] == 'memo':
            for i in range(len(case['ops']) - 1):
                c = json.loads(json.dumps(case))
                del c['ops'][i]
                yield c

    def nontrivial(self, case):
        if case['kind'] == 'memo':
            if not any(op['k'] == 'set' for op in case['ops']):
                return None
        else:
            hashed = [n for n, m in case['ptypes'] if m == 'match']
            if not any(n in hashed and objs for n, objs in case['event']['props']):
                return None
        return json.dumps(case, sort_keys=True)


PROPERTY = C01()
