"""C07 - event representations are interchangeable and stay coherent under mutation."""
import copy
import itertools
import json
import random

from vf.core import Property
from vf import gen

EDXML_NS = 'http://edxml.org/edxml'
PROPS = ['p', 'q', 'p.r']
VALS = ['a', 'b', 'c', ' a', '', 'ä', 'A', 'ÄB']
ATTS = ['x', 'y']
IDS = ['i', 'j', 'k k']
AVALS = ['v', 'w', ' ', 'line\nbreak']
PARENTS = ['%040x' % i for i in (1, 2, 3)]
TYPES = ['t', 'u']
SOURCES = ['/s/', '/s/t/']
FOREIGN = [[], [['{http://x/}a', '1']], [['{http://x/}a', '2'], ['{http://y/}b', '']]]
REPRS = ['plain', 'element', 'parsed']

# how the additional ways of writing an operation read for the reference and the model
ALIAS = {'ior_item': 'update', 'isub_item': 'discard', 'self_assign': 'read', 'assign_gen': 'read', 'assign_filter': 'discard',
         # a component handed out earlier (object set, attachment dictionary) is changed after the event was looked at / written
         'deepcopy': 'copy',
         'add_held': 'add', 'discard_held': 'discard', 'att_setitem_held': 'att_setitem'}
OP_KINDS = ['set', 'set1', 'del', 'add', 'remove', 'discard', 'update', 'clear', 'pop', 'set_properties', 'props_setter', 'iadd',
            'ior_item', 'isub_item', 'self_assign', 'assign_gen', 'assign_filter', 'add_held', 'discard_held', 'att_setitem_held',
            'set_attachment_dict', 'set_attachment_str', 'set_attachment_list', 'set_attachment_none', 'att_setitem', 'att_delitem',
            'att_del', 'atts_setter', 'set_parents', 'add_parents', 'set_type', 'set_source', 'set_foreign', 'copy', 'deepcopy', 'read', 'write']


# ---- the reference: a dictionary of sets ---------------------------------------------------------------

def sha1(v):
    import hashlib
    return hashlib.sha1(v.encode()).hexdigest()


def ref_new(ev):
    return {'type': ev['type'], 'source': ev['source'], 'props': {k: set(v) for k, v in gen.props_dict(ev).items()},
            'atts': {k: dict(v) for k, v in gen.atts_dict(ev).items()}, 'parents': set(ev.get('parents', [])),
            'foreign': dict(ev.get('foreign', []))}


def ref_view(s):
    return {'type': s['type'], 'source': s['source'],
            'props': sorted([k, sorted(v)] for k, v in s['props'].items() if v),
            'atts': sorted([k, sorted([i, x] for i, x in v.items())] for k, v in s['atts'].items() if v),
            'parents': sorted(s['parents']), 'foreign': sorted([k, v] for k, v in s['foreign'].items())}


def ref_apply(states, op):
    """Apply op to the abstract states; returns the value an observer sees for reading ops."""
    s = states[op['on']]
    k = ALIAS.get(op['k'], op['k'])
    if k in ('set', 'set1'):
        s['props'][op['p']] = set(op['vs'])
    elif k == 'del':
        s['props'].pop(op['p'], None)
    elif k == 'add':
        s['props'].setdefault(op['p'], set()).add(op['v'])
    elif k in ('remove', 'discard', 'pop'):
        s['props'].setdefault(op['p'], set()).discard(op['v'])
    elif k in ('update', 'iadd'):
        s['props'].setdefault(op['p'], set()).update(op['vs'])
    elif k == 'clear':
        s['props'][op['p']] = set()
    elif k in ('set_properties', 'props_setter'):
        s['props'] = {p: set(vs) for p, vs in op['props']}
    elif k == 'set_attachment_dict':
        s['atts'][op['a']] = dict(op['items'])
    elif k == 'set_attachment_str':
        s['atts'][op['a']] = {sha1(op['v']): op['v']}
    elif k == 'set_attachment_list':
        s['atts'][op['a']] = {sha1(v): v for v in op['vs']}
    elif k in ('set_attachment_none', 'att_del'):
        s['atts'].pop(op['a'], None)
    elif k == 'att_setitem':
        s['atts'].setdefault(op['a'], {})[op['i']] = op['v']
    elif k == 'att_delitem':
        s['atts'].setdefault(op['a'], {}).pop(op['i'], None)
    elif k == 'atts_setter':
        for a, items in op['atts']:
            s['atts'][a] = dict(items)
    elif k == 'set_parents':
        s['parents'] = set(op['ps'])
    elif k == 'add_parents':
        s['parents'] |= set(op['ps'])
    elif k == 'set_type':
        s['type'] = op['v']
    elif k == 'set_source':
        s['source'] = op['v']
    elif k == 'set_foreign':
        s['foreign'] = dict(op['kv'])
    elif k == 'copy':
        states.append(copy.deepcopy(s))


# ---- the real events ------------------------------------------------------------------------------------

def element_view(e):
    """State read back from the XML element that a writer would get."""
    from lxml import etree
    el = e.get_element()
    el = etree.fromstring(etree.tostring(el))
    ns = '{%s}' % EDXML_NS

    def local(tag):
        return tag[len(ns):] if tag.startswith(ns) else tag
    props, atts = {}, {}
    for child in el:
        if local(child.tag) == 'properties':
            for p in child:
                props.setdefault(local(p.tag), []).append(p.text or '')
        elif local(child.tag) == 'attachments':
            for a in child:
                atts.setdefault(local(a.tag), []).append([a.get('id'), a.text or ''])
    foreign = sorted([k, v] for k, v in el.attrib.items() if k not in ('event-type', 'source-uri', 'parents'))
    parents = sorted(p for p in (el.get('parents') or '').split(',') if p)
    dup = any(len(v) != len(set(v)) for v in props.values()) or any(len(v) != len({i for i, _ in v}) for v in atts.values())
    return {'type': el.get('event-type'), 'source': el.get('source-uri'),
            'props': sorted([k, sorted(set(v))] for k, v in props.items() if v),
            'atts': sorted([k, sorted(v)] for k, v in atts.items() if v),
            'parents': parents, 'foreign': foreign, 'duplicates': dup}


def api_view(e):
    v = gen.event_view(e)
    # the mapping interface has to agree with get_properties()
    mapping = sorted([k, sorted(str(x) for x in e[k])] for k in e.keys() if len(e[k]))
    v['mapping_ok'] = mapping == v['props'] and len(e) == len(v['props']) and all(k in e for k, _ in v['props'])
    return v


def apply_real(events, op):
    e = events[op['on']]
    k = op['k']
    if k == 'set':
        e[op['p']] = list(op['vs'])
    elif k == 'set1':
        e[op['p']] = op['vs'][0]
    elif k == 'del':
        del e[op['p']]
    elif k == 'add':
        e[op['p']].add(op['v'])
    elif k == 'remove':
        e[op['p']].remove(op['v'])
    elif k == 'discard':
        e[op['p']].discard(op['v'])
    elif k == 'update':
        e[op['p']].update(list(op['vs']))
    elif k == 'iadd':
        e.properties[op['p']] |= set(op['vs'])
    elif k == 'ior_item':
        # augmented assignment through the event: reads the object set of the property, updates it, assigns it back
        e[op['p']] |= set(op['vs'])
    elif k == 'isub_item':
        e[op['p']] -= {op['v']}
    elif k == 'self_assign':
        e[op['p']] = e[op['p']]
    elif k == 'assign_gen':
        # the new value is computed lazily from the current one
        e[op['p']] = (v for v in e[op['p']])
    elif k == 'assign_filter':
        e[op['p']] = filter(lambda v: v != op['v'], e[op['p']])
    elif k in ('add_held', 'discard_held', 'att_setitem_held'):
        held = e[op['p']] if k != 'att_setitem_held' else e.attachments[op['a']]
        # the event is looked at from all sides (and written) while the caller holds on to the component
        e.get_element()
        e.get_properties()
        e.get_attachments()
        apply_real(events, {'k': 'write', 'on': op['on']})
        if k == 'add_held':
            held.add(op['v'])
        elif k == 'discard_held':
            held.discard(op['v'])
        else:
            held[op['i']] = op['v']
    elif k == 'clear':
        e[op['p']].clear()
    elif k == 'pop':
        # pop() removes an arbitrary element: remove the element the case names through the same code path
        s = e[op['p']]
        if op['v'] in s:
            if len(s) == 1:
                s.pop()
            else:
                s.remove(op['v'])
    elif k == 'set_properties':
        e.set_properties({p: list(vs) for p, vs in op['props']})
    elif k == 'props_setter':
        e.properties = {p: set(vs) for p, vs in op['props']}
    elif k == 'set_attachment_dict':
        e.set_attachment(op['a'], dict(op['items']))
    elif k == 'set_attachment_str':
        e.set_attachment(op['a'], op['v'])
    elif k == 'set_attachment_list':
        e.set_attachment(op['a'], list(op['vs']))
    elif k == 'set_attachment_none':
        e.set_attachment(op['a'], None)
    elif k == 'att_setitem':
        e.attachments[op['a']][op['i']] = op['v']
    elif k == 'att_delitem':
        del e.attachments[op['a']][op['i']]
    elif k == 'att_del':
        del e.attachments[op['a']]
    elif k == 'atts_setter':
        e.attachments = {a: dict(items) for a, items in op['atts']}
    elif k == 'set_parents':
        e.set_parents(list(op['ps']))
    elif k == 'add_parents':
        e.add_parents(list(op['ps']))
    elif k == 'set_type':
        e.set_type(op['v'])
    elif k == 'set_source':
        e.set_source(op['v'])
    elif k == 'set_foreign':
        e.set_foreign_attributes(dict(op['kv']))
    elif k == 'copy':
        events.append(e.copy())
    elif k == 'deepcopy':
        import copy
        events.append(copy.deepcopy(e))
    elif k == 'write':
        # handing the event to a validating, repairing writer must not change it (the writer works on a copy)
        import io
        from edxml import EDXMLWriter
        w = EDXMLWriter(io.BytesIO(), validate=True)
        for t in TYPES:
            w.enable_auto_repair_normalize(t, list(PROPS))
            w.enable_auto_repair_drop(t, list(PROPS))
        w.add_ontology(writer_ontology())
        try:
            w.add_event(e)
        except Exception:
            pass
    elif k == 'read':
        # reads must not change anything
        e.get_properties()
        e.get_attachments()
        _ = [e.get_any(p) for p in PROPS]
        _ = [p in e for p in PROPS]
        _ = [e[p] for p in PROPS if p in e]


_WRITER_ONTOLOGY = []


def writer_ontology():
    """Event types t and u with lower case string properties: upper case objects are repairable, others may be dropped."""
    if not _WRITER_ONTOLOGY:
        from edxml.ontology import Ontology
        o = Ontology()
        o.create_object_type('o.lc', data_type='string:3:lc:u')
        for t in TYPES:
            et = o.create_event_type(t)
            for pn in PROPS:
                et.create_property(pn, 'o.lc').make_optional().make_multivalued()
            for a in ATTS:
                et.create_attachment(a)
        for src in SOURCES:
            o.create_event_source(src)
        _WRITER_ONTOLOGY.append(o)
    return _WRITER_ONTOLOGY[0]


def gen_op(rng, n_objects, state_of, kinds=OP_KINDS):
    k = rng.choice(kinds)
    on = rng.randrange(n_objects)
    op = {'k': k, 'on': on}
    s = state_of(on)
    if k in ('set', 'update', 'iadd', 'ior_item'):
        op['p'] = rng.choice(PROPS)
        op['vs'] = rng.sample(VALS, rng.randint(0 if k == 'set' else 1, 3))
    elif k in ('self_assign', 'assign_gen'):
        op['p'] = rng.choice(PROPS)
    elif k in ('isub_item', 'assign_filter'):
        op['p'] = rng.choice(PROPS)
        op['v'] = rng.choice(VALS)
    elif k == 'set1':
        op['p'] = rng.choice(PROPS)
        op['vs'] = [rng.choice(VALS)]
    elif k in ('del', 'clear'):
        op['p'] = rng.choice(PROPS)
    elif k in ('add', 'discard', 'add_held', 'discard_held'):
        op['p'] = rng.choice(PROPS)
        op['v'] = rng.choice(VALS)
    elif k in ('remove', 'pop'):
        cands = [(p, v) for p, vs in s['props'].items() for v in vs]
        if not cands:
            return {'k': 'read', 'on': on}
        op['p'], op['v'] = rng.choice(sorted(cands))
    elif k in ('set_properties', 'props_setter'):
        op['props'] = [[p, rng.sample(VALS, rng.randint(0, 2))] for p in rng.sample(PROPS, rng.randint(0, 2))]
    elif k == 'set_attachment_dict':
        op['a'] = rng.choice(ATTS)
        op['items'] = [[i, rng.choice(AVALS)] for i in rng.sample(IDS, rng.randint(0, 2))]
    elif k == 'set_attachment_str':
        op['a'] = rng.choice(ATTS)
        op['v'] = rng.choice(AVALS)
    elif k == 'set_attachment_list':
        op['a'] = rng.choice(ATTS)
        op['vs'] = rng.sample(AVALS, rng.randint(1, 2))
    elif k in ('set_attachment_none', 'att_del'):
        op['a'] = rng.choice(ATTS)
    elif k in ('att_setitem', 'att_setitem_held'):
        op['a'], op['i'], op['v'] = rng.choice(ATTS), rng.choice(IDS), rng.choice(AVALS)
    elif k == 'att_delitem':
        op['a'], op['i'] = rng.choice(ATTS), rng.choice(IDS)
    elif k == 'atts_setter':
        op['atts'] = [[a, [[i, rng.choice(AVALS)] for i in rng.sample(IDS, rng.randint(0, 2))]] for a in rng.sample(ATTS, rng.randint(0, 2))]
    elif k in ('set_parents', 'add_parents'):
        op['ps'] = rng.sample(PARENTS, rng.randint(0, 2))
    elif k == 'set_type':
        op['v'] = rng.choice(TYPES)
    elif k == 'set_source':
        op['v'] = rng.choice(SOURCES)
    elif k == 'set_foreign':
        op['kv'] = rng.choice(FOREIGN)
    return op


def gen_initial(rng):
    ev = {'type': 't', 'source': '/s/',
          'props': [[p, rng.sample(VALS[:4], rng.randint(1, 2))] for p in rng.sample(PROPS, rng.randint(0, 2))]}
    if rng.random() < 0.5:
        ev['atts'] = [[a, [[i, rng.choice(AVALS)] for i in rng.sample(IDS, rng.randint(1, 2))]] for a in rng.sample(ATTS, rng.randint(1, 2))]
    if rng.random() < 0.4:
        ev['parents'] = rng.sample(PARENTS, rng.randint(1, 2))
    if rng.random() < 0.3:
        ev['foreign'] = rng.choice(FOREIGN[1:])
    return ev


def gen_ops(rng, initial, length, kinds=OP_KINDS):
    states = [ref_new(initial)]
    ops = []
    for _ in range(length):
        op = gen_op(rng, len(states), lambda i: states[i], kinds)
        ops.append(op)
        ref_apply(states, op)
        if op['k'] in ('copy', 'deepcopy') and rng.random() < 0.5:
            # nobody looks at the copy before it is changed: the first access of the fresh copy is a mutation
            op['silent'] = True
            # (generated against the state of the copy itself: 'remove' and 'pop' name objects it holds)
            nxt = gen_op(rng, len(states), lambda i: states[-1], [k for k in kinds if k not in ('copy', 'deepcopy', 'read', 'write')] or kinds)
            nxt['on'] = len(states) - 1
            ops.append(nxt)
            ref_apply(states, nxt)
    return ops


class C07(Property):
    id = 'C07'
    title = 'Event representations are interchangeable and stay coherent under mutation'
    design_ref = 'DESIGN.md section 10, C07'
    required_theorems = (
        'xml_refines_dict', 'run_refines', 'runCmd_refines', 'element_has_no_duplicates', 'copy_independent', 'copy_equal',
        'reads_do_not_change', 'setProp_idempotent', 'props_ops_only_touch_their_property', 'objects_updateProp',
        'attValue_updateAtt_set', 'attValue_updateAtt_del', 'attValue_delAttachment',
    )
    level_text = ('Lean 4 theorems over two models of an event: the dictionary-of-sets specification and the XML-backed '
                  'representation (ordered child elements, updated the way EventElement/ParsedEvent.__update_property and '
                  '__update_attachment do it: remove every child of the property, append one child per object). Every public '
                  'mutation of the XML-backed model, abstracted, is the same mutation of the dictionary of sets, for every '
                  'operation sequence; the element never holds duplicate objects or attachment ids; a copy evolves '
                  'independently of its original. Compared with EDXMLEvent, EventElement and ParsedEvent on exhaustive short and '
                  'random long operation sequences, with copies taken at any point, reading back both the API view and the '
                  'serialized element.')
    level_note = ('Proof is about the model. lxml (element tree mutation, deepcopy of elements), Python set/dict semantics and '
                  'the cached PropertySet of ParsedEvent are modelled, not verified; cache staleness and aliasing between a copy '
                  'and its original are exactly what the correspondence looks for.')
    technique = 'Lean 4 proof (refinement of the XML-backed event model to a dictionary of sets, by induction over operation sequences) + differential correspondence'
    parallel = True
    assumptions = ('property names, object values, attachment ids and values are strings that XML can carry',
                   'attachment ids contain no quote characters')

    def rule(self):
        return ('cases: (initial event, operation sequence over 27 operation kinds incl. copy; the target of each operation is '
                'the original or any copy); observed after every operation on every live object of each of the three '
                'representations: API view (mapping interface, get_properties, get_attachments, parents, foreign attributes, '
                'type, source), the view read back from the serialized XML element, == between the objects; non-trivial = a '
                'sequence with a copy followed by mutations; distinct by content')

    def generate(self, rng, tier):
        # exhaustive: every pair of property operations after a fixed start
        core = ['set', 'del', 'add', 'discard', 'clear', 'copy', 'set_properties', 'att_setitem', 'att_del']
        start = {'type': 't', 'source': '/s/', 'props': [['p', ['a']]], 'atts': [['x', [['i', 'v']]]]}
        depth = 2 if tier == 'quick' else 3
        fixed = {'set': {'p': 'p', 'vs': ['b', 'c']}, 'del': {'p': 'p'}, 'add': {'p': 'p', 'v': 'b'}, 'discard': {'p': 'p', 'v': 'a'},
                 'clear': {'p': 'p'}, 'copy': {}, 'set_properties': {'props': [['q', ['c']]]}, 'att_setitem': {'a': 'x', 'i': 'j', 'v': 'w'},
                 'att_del': {'a': 'x'}}
        for combo in itertools.product(core, repeat=depth):
            n = 1
            ops = []
            for j, k in enumerate(combo):
                targets = range(n)
                # after a copy: apply the next operations to the copy and to the original alternately
                on = (n - 1) if j % 2 == 1 else 0
                ops.append(dict(fixed[k], k=k, on=on))
                if k == 'copy':
                    n += 1
            yield {'kind': 'seq', 'initial': start, 'ops': ops}
        n_random = 150 if tier == 'quick' else 4000
        for i in range(n_random):
            init = gen_initial(rng)
            yield {'kind': 'seq', 'initial': init, 'ops': gen_ops(rng, init, rng.randint(3, 14))}

    # -- implementation
    def observe(self, case):
        out = {}
        for rep in REPRS:
            try:
                events = [gen.build_event(case['initial'], rep)]
            except Exception as ex:
                out[rep] = 'build:' + type(ex).__name__
                continue
            trace = []
            for op in case['ops']:
                try:
                    apply_real(events, op)
                    err = None
                except Exception as ex:
                    err = type(ex).__name__
                if op.get('silent') and err is None:
                    continue
                step = {'err': err, 'objects': []}
                for e in events:
                    try:
                        # (the element first: reading through the API must not be what brings it up to date)
                        x = element_view(e)
                        a = api_view(e)
                    except Exception as ex:
                        a, x = 'err:' + type(ex).__name__, None
                    step['objects'].append({'api': a, 'xml': x})
                # equality between every pair of live objects
                eqs = []
                for i in range(len(events)):
                    for j in range(i + 1, len(events)):
                        try:
                            eqs.append([i, j, bool(events[i] == events[j]), bool(events[i] != events[j])])
                        except Exception as ex:
                            eqs.append([i, j, 'err:' + type(ex).__name__, None])
                step['eq'] = eqs
                trace.append(step)
            out[rep] = trace
        return out

    def expected(self, case):
        states = [ref_new(case['initial'])]
        trace = []
        for op in case['ops']:
            ref_apply(states, op)
            if op.get('silent'):
                continue
            views = [ref_view(s) for s in states]
            eqs = []
            for i in range(len(states)):
                for j in range(i + 1, len(states)):
                    same = self.ref_equal(views[i], views[j])
                    eqs.append([i, j, same, not same])
            trace.append({'views': views, 'eq': eqs})
        return trace

    @staticmethod
    def ref_equal(a, b):
        """EDXMLEvent.__eq__: type, source, properties, attachment ids (not values), parents."""
        ids = lambda v: [[k, [i for i, _ in items]] for k, items in v['atts']]   # noqa: E731
        return (a['type'], a['source'], a['props'], ids(a), a['parents']) == (b['type'], b['source'], b['props'], ids(b), b['parents'])

    # -- model
    def requests(self, case):
        # for the model, writing is reading: it changes nothing
        return [{'op': 'evops', 'initial': case['initial'],
                 'ops': [dict(op, k='read') if op['k'] == 'write' else dict(op, k=ALIAS.get(op['k'], op['k'])) for op in case['ops']]}]

    def predict(self, case, replies):
        # the model answers the abstract view and the XML view of every live object after every operation
        steps = [st for st, op in zip(replies[0]['steps'], case['ops']) if not op.get('silent')]
        out = {}
        for rep in REPRS:
            trace = []
            for st in steps:
                objs = []
                for o in st['objects']:
                    api = dict(o['abs'], mapping_ok=True)
                    xml = dict(o['xml'], duplicates=False)
                    objs.append({'api': api, 'xml': xml})
                trace.append({'err': None, 'objects': objs, 'eq': st['eq']})
            out[rep] = trace
        return out

    # -- oracle
    def oracle(self, case, obs):
        exp = self.expected(case)
        for rep in REPRS:
            tr = obs[rep]
            if isinstance(tr, str):
                continue
            seen = [op for op in case['ops'] if not op.get('silent')]
            for n, (step, want) in enumerate(zip(tr, exp)):
                op = seen[n]
                where = '%s event, after operation %d (%s)' % (rep, n, json.dumps(op, sort_keys=True, ensure_ascii=False))
                if step['err']:
                    return '%s: raised %s' % (where, step['err'])
                for i, (o, w) in enumerate(zip(step['objects'], want['views'])):
                    who = 'the original' if i == 0 else 'copy %d' % i
                    if not isinstance(o['api'], dict):
                        return '%s: reading %s raised %s' % (where, who, o['api'])
                    got = {k: o['api'][k] for k in w}
                    if got != w:
                        diff = [k for k in w if got[k] != w[k]]
                        return '%s: %s differs from the dictionary-of-sets model in %s: %s instead of %s' % (
                            where, who, diff, json.dumps({k: got[k] for k in diff}, ensure_ascii=False), json.dumps({k: w[k] for k in diff}, ensure_ascii=False))
                    if not o['api']['mapping_ok']:
                        return '%s: the mapping interface of %s disagrees with get_properties()' % (where, who)
                    if o['xml'] is not None:
                        gx = {k: o['xml'][k] for k in w}
                        if gx != w:
                            diff = [k for k in w if gx[k] != w[k]]
                            return '%s: the XML element of %s holds %s instead of %s' % (
                                where, who, json.dumps({k: gx[k] for k in diff}, ensure_ascii=False), json.dumps({k: w[k] for k in diff}, ensure_ascii=False))
                        if o['xml']['duplicates']:
                            return '%s: the XML element of %s holds duplicate objects or attachment ids' % (where, who)
                if step['eq'] != want['eq']:
                    return '%s: == / != between the live objects is %s, expected %s' % (where, step['eq'], want['eq'])
        return None

    def neighbours(self, case, rng):
        return [{'kind': 'seq', 'initial': case['initial'], 'ops': gen_ops(rng, case['initial'], len(case['ops']))} for _ in range(60)]

    def reductions(self, case):
        ops = case['ops']
        for i in range(len(ops) - 1, -1, -1):
            if ops[i]['k'] in ('copy', 'deepcopy'):
                continue
            yield dict(case, ops=ops[:i] + ops[i + 1:])
        if len(ops) > 1:
            yield dict(case, ops=ops[:-1])

    def nontrivial(self, case):
        ks = [o['k'] for o in case['ops']]
        return json.dumps(case, sort_keys=True) if 'copy' in ks and ks.index('copy') < len(ks) - 1 else None

    def sample_view(self, case):
        return {'initial': case['initial'], 'ops': case['ops'][:6]}


PROPERTY = C07()
