"""C06 - push parsing does not depend on how the byte stream is cut into chunks."""
import io
import json
import random
import re

from vf.core import Property
from vf import parsing as P

REGS = [['type', list(P.TYPES), 0], ['src', ['/a/.*'], 1]]


def strip(obs):
    return {'log': obs['log'], 'err': obs['err'], 'nEvents': obs['nEvents'], 'typeCount': obs['typeCount'], 'content': obs['content']}


def run_filter(data, mode, cuts=None):
    """Pass-through filter output (bytes) or error kind."""
    from edxml.filter import EDXMLPullFilter, EDXMLPushFilter
    from edxml.error import EDXMLValidationError
    out = io.BytesIO()
    try:
        if mode == 'pull':
            with EDXMLPullFilter(out) as f:
                f.parse(io.BytesIO(data))
        else:
            with EDXMLPushFilter(out) as f:
                pos = 0
                for c in list(cuts or []) + [len(data)]:
                    if c > pos:
                        f.feed(data[pos:c])
                        pos = c
        return out.getvalue().decode('utf-8')
    except EDXMLValidationError as e:
        return 'err:' + type(e).__name__
    except Exception as e:  # noqa
        return 'err:foreign:' + type(e).__name__


class C06(Property):
    id = 'C06'
    title = 'Push parsing does not depend on how the byte stream is cut into chunks'
    design_ref = 'DESIGN.md section 10, C06'
    required_theorems = (
        'chunking_irrelevant', 'feed_join', 'step_ignores_pending_input',
    )
    level_text = ('Lean 4 theorems over the parser state machine: feeding the completed elements in any partition into '
                  'chunks gives the same callbacks, counters, retained tree and error as processing them at once '
                  '(state is carried across feeds and a step reads nothing but the element being completed and the '
                  'machine state). That lxml hands the same completed elements to the machine under every byte cut, '
                  'and that no step looks at partially received siblings, is checked on the real code: every 2-chunk '
                  'split at every byte offset, byte-wise feeding and random partitions of generated documents, for '
                  'the push parser against the pull parser and the push filter against the pull filter.')
    level_note = ('Proof is about the token-level machine; tokenisation by libxml2 under arbitrary byte cuts (inside tags, '
                  'inside multi-byte characters) is modelled and validated exhaustively over cut offsets per generated document.')
    technique = 'Lean 4 proof (feed is a monoid action on the machine state) + exhaustive-cut differential correspondence'
    assumptions = ()
    parallel = True

    def rule(self):
        return ('cases: generated documents (1..4 ontology elements incl. adjacent ones and faulty ones, events, foreign '
                'elements with nested content and non-ASCII text, properties named event/ontology) with: all 2-chunk '
                'splits at every byte offset (exhaustive), byte-at-a-time feeding, random k-chunk partitions; parser '
                'callbacks and filter output compared with the pull parser/filter and the model; '
                'non-trivial = document with at least two ontology elements or a foreign element; distinct by content')

    def generate(self, rng, tier):
        n = 6 if tier == 'quick' else 120
        for i in range(n):
            items = P.gen_items(rng, rng.randint(2, 6), faults=(i % 3 == 2))
            # make sure adjacent ontology elements and foreign elements occur
            if i % 2 == 0:
                k = rng.randint(1, len(items))
                items[k:k] = [{'k': 'ont', 'valid': True, 'types': [rng.choice(P.TYPES)], 'sources': []},
                              {'k': 'ont', 'valid': True, 'types': [], 'sources': [rng.choice(P.SOURCES)]}]
            if not any(it['k'] == 'foreign' for it in items):
                items.append({'k': 'foreign', 'idx': 99})
            data, _ = P.build_document(items)
            step = 150
            if i == 1:
                # objects that consist of white space only (known finding blankTextLookahead): a case of its own, cut at
                # every offset around these objects
                bitems = [dict(it, blank=True) if it['k'] == 'event' and it['gate'] else it for it in items if it['k'] != 'ont' or it['valid']]
                bdata, _ = P.build_document(bitems)
                hits = [m.start() for m in re.finditer(rb'</q>', bdata)]
                for h in hits[:6]:
                    yield {'items': bitems, 'what': 'parser', 'cuts': 'all2', 'range': [max(1, h - 12), min(len(bdata), h + 6)], 'seed': 0,
                           'blank': True}
            for lo in range(1, len(data), step):
                yield {'items': items, 'what': 'parser', 'cuts': 'all2', 'range': [lo, min(lo + step, len(data))], 'seed': 0}
            yield {'items': items, 'what': 'parser', 'cuts': 'bytes', 'seed': 0}
            yield {'items': items, 'what': 'parser', 'cuts': 'random', 'seed': rng.randint(0, 10 ** 6)}
            if i % 2 == 0:
                ok_items = [it for it in items if it['k'] != 'ont' or it['valid']]
                ok_items = [it for it in ok_items if it['k'] != 'event' or it['gate']]
                data, _ = P.build_document(ok_items)
                if tier != 'quick' or i == 0:
                    for lo in range(1, len(data), step):
                        yield {'items': ok_items, 'what': 'filter', 'cuts': 'all2', 'range': [lo, min(lo + step, len(data))], 'seed': 0}
                yield {'items': ok_items, 'what': 'filter', 'cuts': 'random', 'seed': rng.randint(0, 10 ** 6)}
                yield {'items': ok_items, 'what': 'filter', 'cuts': 'bytes', 'seed': 0}

    def chunkings(self, case, data):
        if case['cuts'] == 'all2':
            rg = case.get('range', [1, len(data)])
            if rg == 'around-blank':
                # every offset around the closing tag of the first object that consists of white space only
                h = data.index(b'</q>')
                rg = [max(1, h - 12), min(len(data), h + 6)]
            lo, hi = rg
            return [[c] for c in range(lo, hi)]
        if case['cuts'] == 'bytes':
            return [list(range(1, len(data)))]
        r = random.Random(case['seed'])
        return [sorted(r.sample(range(1, len(data)), min(len(data) - 1, r.randint(2, 9)))) for _ in range(25)]

    def observe(self, case):
        data, _ = P.build_document(case['items'])
        if case['what'] == 'filter':
            ref = run_filter(data, 'pull')
            dev = []
            n = 0
            for cuts in self.chunkings(case, data):
                n += 1
                out = run_filter(data, 'push', cuts)
                if out != ref:
                    dev.append([cuts if len(cuts) < 12 else 'bytewise', out[:300]])
            # filtering the output again reproduces it byte for byte
            again = run_filter(ref.encode('utf-8'), 'pull') if not ref.startswith('err:') else ref
            return {'ref_ok': not ref.startswith('err:'), 'deviating': dev[:5], 'n_deviating': len(dev),
                    'chunkings': n, 'idempotent': again == ref}
        ref = strip(P.run_parser(data, 'pull', REGS, True, True))
        dev = []
        n = 0
        for cuts in self.chunkings(case, data):
            n += 1
            out = strip(P.run_parser(data, 'push', REGS, True, True, cuts))
            if out != ref:
                dev.append([cuts if len(cuts) < 12 else 'bytewise', out])
        return {'ref': ref, 'deviating': dev[:5], 'n_deviating': len(dev), 'chunkings': n}

    def requests(self, case):
        return [{'op': 'parse', 'reg': P.make_registry(REGS, True, True),
                 'chunks': [P.model_items(case['items'])], 'rootEnd': True, 'versionOk': True}]

    def predict(self, case, replies):
        data, _ = P.build_document(case['items'])
        n = len(self.chunkings(case, data))
        if case['what'] == 'filter':
            # the filter accepts a document exactly when the parser machine does (undefined types or sources make it fail)
            return {'ref_ok': replies[0]['err'] is None, 'deviating': [], 'n_deviating': 0, 'chunkings': n, 'idempotent': True}
        pred = {'ref': strip(P.model_view(replies[0], case['items'])), 'deviating': [], 'n_deviating': 0, 'chunkings': n}
        if case.get('blank'):
            # known finding blankTextLookahead: exactly the chunkings that end right after the '<' of the closing tag of an
            # object made of white space deviate (what they give instead is taken from the observation)
            cuts = self.blank_cuts(case, data)
            pred['n_deviating'] = len(cuts)
            pred['deviating'] = [[[c], 'undecided'] for c in cuts[:5]]
        return pred

    def blank_cuts(self, case, data):
        ends = {m.start() + 1 for m in re.finditer(rb'<q>\s+</q>', data) for m in [re.compile(rb'</q>').search(data, m.start())]}
        return [c[0] for c in self.chunkings(case, data) if len(c) == 1 and c[0] in ends]

    def fill_undecided(self, case, obs, pred):
        if case.get('blank') and len(obs.get('deviating', [])) == len(pred['deviating']):
            for o, p in zip(obs['deviating'], pred['deviating']):
                if o[0] == p[0]:
                    p[1] = o[1]
        return pred

    def flags_hit(self, case, replies):
        return ['blankTextLookahead'] if case.get('blank') else []

    def oracle(self, case, obs):
        if obs['n_deviating']:
            return ('%d of %d chunkings give other callbacks/output than pull-parsing the whole document; first: %r'
                    % (obs['n_deviating'], obs['chunkings'], obs['deviating'][0]))
        if case['what'] == 'filter' and not obs['idempotent']:
            return 'filtering the filter output again does not reproduce it byte for byte'
        return None

    def neighbours(self, case, rng):
        c = {k: v for k, v in case.items() if k != 'range'}
        return [dict(c, cuts='random', seed=rng.randint(0, 10 ** 6)) for _ in range(5)]

    def reductions(self, case):
        for i in range(len(case['items']) - 1, 0, -1):
            c = json.loads(json.dumps(case))
            del c['items'][i]
            yield c

    def nontrivial(self, case):
        n_ont = sum(1 for it in case['items'] if it['k'] == 'ont')
        if n_ont < 2 and not any(it['k'] == 'foreign' for it in case['items']):
            return None
        return json.dumps(case, sort_keys=True)

    def extra_coverage(self):
        return {}


PROPERTY = C06()
