"""C19 - streaming parse keeps memory bounded."""
import json
import os
import random
import tempfile

from vf.core import Property
from vf import parsing as P

REGS = [['type', list(P.TYPES), 0]]


class C19(Property):
    id = 'C19'
    title = 'Streaming parse keeps memory bounded'
    design_ref = 'DESIGN.md section 10, C19'
    required_theorems = (
        'retention_bounded', 'retention_bounded_no_foreign', 'final_retention_bounded',
        'deletion_hits_processed_child', 'xmed_retention_bounded',
    )
    level_text = ('Lean 4 theorem over the parser state machine: for every document and every way of feeding it, the '
                  'number of children retained under the root at every event dispatch is at most 3 plus the number of '
                  'foreign elements seen so far (3 for documents without foreign elements), independent of the number '
                  'of events processed, and the deletion rule only ever removes an already processed child. The model '
                  'is compared with the position of each event in its parent inside the real callbacks for long '
                  'documents fed byte-wise, in small chunks and pulled from a file larger than the reader block.')
    level_note = ('Proof is about the token-level machine (retained children of the root); that lxml frees a deleted '
                  'element and the real RSS are not modelled (partial: actual memory). Elements lxml has already '
                  'received but not delivered are counted separately as pending input.')
    technique = 'Lean 4 proof (retention invariant by induction over the document) + differential correspondence'
    parallel = True
    assumptions = ('callbacks keep no references to delivered elements',)

    def rule(self):
        return ('cases: documents of 30..N events (N = 1500 quick, 30000 thorough) with interleaved ontology updates '
                'and optional foreign elements, parsed by the push parser byte-wise / in chunks of a fixed small size / '
                'in random chunks, and by the pull parser from a file larger than 32 KiB; observed: index of each '
                'delivered event in its parent (+1), children of the root after the last callback; '
                'non-trivial = more than 10 events; distinct by content')

    def generate(self, rng, tier):
        for i in range(40 if tier == 'quick' else 600):
            n = rng.choice([5, 20, 60, 300] if tier == 'quick' else [5, 50, 500, 3000])
            # C, P: a comment / a processing instruction between the records
            kinds = ''.join(rng.choice(('RRRNNK' if i % 3 else 'RRN') + ('CP' if i % 5 == 4 else '')) for _ in range(n))
            if i % 10 == 9:
                kinds = rng.choice('CP') + kinds
            pre = ''.join(rng.choice('RNK') for _ in range(rng.randint(0, 4))) if i % 2 else ''
            case = {'kind': 'xmed', 'kinds': kinds, 'pre': pre}
            if i % 4 == 3:
                # the NullTranscoder is registered for the container of the records: every untranscoded child may be discarded
                case['null_on_container'] = True
            elif i % 4 == 1:
                # two NullTranscoders whose selectors are prefixes of each other (/root/records/note and .../notes): the
                # elements without a record transcoder are <notes> here, and both kinds may be discarded
                case['two_null'] = True
            yield case
        sizes = [30, 60, 120, 400, 1500] if tier == 'quick' else [30, 100, 1000, 5000, 30000]
        reps = 3 if tier == 'quick' else 4
        for n in sizes:
            for r in range(reps if n <= 1500 else 1):
                seed = rng.randint(0, 10 ** 9)
                for mode in (['bytes', 'chunk7', 'chunk100', 'random', 'pullfile'] if n <= (400 if tier == 'quick' else 5000)
                             else ['chunk100', 'random', 'pullfile']):
                    yield {'n': n, 'seed': seed, 'foreign': r == 1, 'mode': mode, 'big': 300 if mode == 'pullfile' and n < 200 else 0}

    def run_xmed(self, case):
        """Drive the real XmlTranscoderMediator; record the index of every record element in its parent."""
        import io
        from edxml.transcode import NullTranscoder
        from edxml.transcode.xml import XmlTranscoderMediator, XmlTranscoder
        log = []
        state = {}

        class T(XmlTranscoder):
            TYPES = ['rec']
            TYPE_MAP = {'.': 'rec'}
            TYPE_PROPERTIES = {'rec': {'id': 'object-type.string'}}
            TYPE_HASHED_PROPERTIES = {'rec': ['id']}
            PROPERTY_MAP = {'rec': {'@id': 'id'}}

            def create_object_types(self, ontology):
                if ontology.get_object_type('object-type.string') is None:
                    ontology.create_object_type('object-type.string')

            def generate(self, element, record_selector, **kw):
                parent = element.getparent()
                if parent.tag == 'records':
                    log.append(parent.index(element))
                    state['parent'] = parent
                yield from super().generate(element, record_selector, **kw)
        class S(T):
            TYPES = ['srec']
            TYPE_MAP = {'.': 'srec'}
            TYPE_PROPERTIES = {'srec': {'id': 'object-type.string'}}
            TYPE_HASHED_PROPERTIES = {'srec': ['id']}
            PROPERTY_MAP = {'srec': {'@id': 'id'}}
        parts = ['<root><summary>']
        for i, k in enumerate(case['pre']):
            parts.append({'R': '<item id="s%d"/>' % i, 'N': '<note>sn%d</note>' % i, 'K': '<other>sk%d</other>' % i}[k])
        parts.append('</summary><records>')
        for i, k in enumerate(case['kinds']):
            parts.append({'R': '<item id="r%d"/>' % i, 'N': '<note>n%d</note>' % i, 'C': '<!-- c%d -->' % i, 'P': '<?pi p%d?>' % i,
                          'K': ('<notes>k%d</notes>' if case.get('two_null') else '<other>k%d</other>') % i}[k])
        parts.append('</records></root>')
        out = io.BytesIO()
        err = None
        try:
            with XmlTranscoderMediator(out) as m:
                m.register('/root/summary/item', S())
                m.register('/root/records/item', T())
                m.register('/root/records' if case.get('null_on_container') else '/root/records/note', NullTranscoder())
                if case.get('two_null'):
                    m.register('/root/records/notes', NullTranscoder())
                m.add_event_source('/d/')
                m.set_event_source('/d/')
                m.parse(io.BytesIO(''.join(parts).encode()))
        except Exception as ex:
            err = type(ex).__name__
        return {'err': err, 'log': log, 'children': len(state['parent']) if 'parent' in state else None}

    @staticmethod
    def model_kinds(case):
        """The children of <records> as the mediator treats them: R record, N discardable (a NullTranscoder covers it), K kept.
        Comments and processing instructions have no transcoder: kept, unless the NullTranscoder sits on their container."""
        out = []
        for k in case['kinds']:
            if k in 'CP':
                out.append('N' if case.get('null_on_container') else 'K')
            elif k == 'K':
                out.append('N' if (case.get('null_on_container') or case.get('two_null')) else 'K')
            else:
                out.append(k)
        return ''.join(out)

    def items_of(self, case):
        rng = random.Random(case['seed'])
        items = P.gen_items(rng, case['n'], with_foreign=case['foreign'], faults=False)
        if case.get('big'):
            for it in items:
                if it['k'] == 'event':
                    it['big'] = case['big']
        return items

    def observe(self, case):
        if case.get('kind') == 'xmed':
            return self.run_xmed(case)
        items = self.items_of(case)
        data, _ = P.build_document(items)
        mode = case['mode']
        if mode == 'pullfile':
            tmp = tempfile.mkdtemp(prefix='vf-c19-')
            path = os.path.join(tmp, 'doc.edxml')
            try:
                with open(path, 'wb') as f:
                    f.write(data)
                obs = P.run_parser(data, 'pull', REGS, False, True, file_path=path)
            finally:
                os.remove(path)
                os.rmdir(tmp)
            obs['doc_bytes'] = len(data)
        else:
            if mode == 'bytes':
                cuts = range(1, len(data))
            elif mode.startswith('chunk'):
                k = int(mode[5:])
                cuts = range(k, len(data), k)
            else:
                r = random.Random(case['seed'] + 1)
                cuts = sorted(r.sample(range(1, len(data)), min(len(data) - 1, 50)))
            obs = P.run_parser(data, 'push', REGS, False, True, cuts)
        # the log itself is C14's business; keep what C19 is about
        return {'err': obs['err'], 'nEvents': obs['nEvents'], 'sizes': obs['sizes'], 'children': obs['children']}

    def requests(self, case):
        if case.get('kind') == 'xmed':
            kinds = self.model_kinds(case)
            return [{'op': 'xmed', 'kinds': list(kinds), 'cross': 'R' in case['pre']}]
        return [{'op': 'parse', 'reg': P.make_registry(REGS, False, True),
                 'chunks': [P.model_items(self.items_of(case))], 'rootEnd': True, 'versionOk': True}]

    def predict(self, case, replies):
        if case.get('kind') == 'xmed':
            r = replies[0]
            return {'err': None, 'log': r['log'], 'children': r['children'] if 'R' in case['kinds'] else None}
        v = P.model_view(replies[0], self.items_of(case))
        return {'err': v['err'], 'nEvents': v['nEvents'], 'sizes': v['sizes'], 'children': v['children']}

    def oracle(self, case, obs):
        if case.get('kind') == 'xmed':
            if obs['err'] is not None:
                return 'XML transcoder mediator failed: %s' % obs['err']
            kinds = self.model_kinds(case)
            lead = kinds.index('R') if 'R' in kinds else len(kinds)
            recs = [i for i, k in enumerate(kinds) if k == 'R']
            if len(obs['log']) != len(recs):
                return '%d records delivered, %d in the document' % (len(obs['log']), len(recs))
            prev = -1
            for idx, i in zip(obs['log'], recs):
                others = kinds[:i].count('K')
                notes_since = kinds[prev + 1:i].count('N') if prev >= 0 else 0
                if idx > lead + 1 + others + notes_since:
                    return ('when record %d is delivered its parent still holds %d earlier children (bound: %d leading + 1 '
                            '+ %d without transcoder + %d discardable since the previous record)' % (
                                i, idx, lead, others, notes_since))
                prev = i
            return None
        if obs['err'] is not None:
            return 'valid document failed to parse: %s' % obs['err']
        items = self.items_of(case)
        foreign_before = []
        nf = 0
        for it in items:
            if it['k'] == 'foreign':
                nf += 1
            elif it['k'] == 'event':
                foreign_before.append(nf)
        if len(obs['sizes']) != len(foreign_before):
            return '%d events delivered, %d in the document' % (len(obs['sizes']), len(foreign_before))
        for i, (sz, f) in enumerate(zip(obs['sizes'], foreign_before)):
            if sz > 3 + f:
                return ('at the callback of event number %d the root retains %d delivered children '
                        '(bound: 3 + %d foreign elements)' % (i + 1, sz, f))
        if obs['children'] is not None and obs['children'] > 3 + nf:
            return 'after the final callback the root still holds %d children' % obs['children']
        return None

    def neighbours(self, case, rng):
        if case.get('kind') == 'xmed':
            return []
        return [dict(case, seed=rng.randint(0, 10 ** 9), n=min(case['n'], 200)) for _ in range(10)]

    def reductions(self, case):
        if case.get('kind') == 'xmed':
            k = case['kinds']
            while len(k) > 2:
                k = k[:len(k) // 2]
                yield dict(case, kinds=k)
            if case['pre']:
                yield dict(case, pre='')
            return
        n = case['n']
        while n > 4:
            n //= 2
            yield dict(case, n=n)

    def nontrivial(self, case):
        if case.get('kind') == 'xmed':
            return json.dumps(case, sort_keys=True) if case['kinds'].count('R') > 2 else None
        return json.dumps(case, sort_keys=True) if case['n'] > 10 else None

    def sample_view(self, case):
        if case.get('kind') == 'xmed':
            return dict(case, kinds=case['kinds'][:40])
        items = self.items_of(case)
        return {'case': case, 'first_items': items[:6], 'n_items': len(items)}


PROPERTY = C19()
