"""C10 - accepted ontology upgrades are backward compatible with existing events."""
import copy
import json
import random

from vf.core import Property
from vf import gen
from vf import ontgen as G
from vf.props import c03

# object types of the old ontology: name -> (data type, hard regex, values valid for it)
OT_POOL = {
    'x.str': ('string:0:mc:u', None, ['x', 'y', 'zz']),
    'x.rx': ('string:0:mc:u', 'a|b', ['a', 'b']),
    'x.rx2': ('string:0:mc:u', '[a-c]+', ['a', 'abc', 'cc']),
    'x.enum': ('enum:a:b', None, ['a', 'b']),
    'x.enum1': ('enum:only', None, ['only']),
    'x.int': ('number:tinyint', None, ['0', '7', '255']),
    'x.lc': ('string:3:lc', None, ['a', 'abc']),
}
# values that are outside the old value spaces (they may become valid after an upgrade)
EXTRA_VALUES = {'x.rx': ['c', 'ab'], 'x.rx2': ['d'], 'x.enum': ['c', 'A'], 'x.enum1': ['other'], 'x.int': ['256', '-1'],
                'x.lc': ['abcd', 'A'], 'x.str': ['']}

OT_EDITS = ['none', 'none', 'bump', 'enum-extend', 'enum-shrink', 'enum-replace', 'enum-reorder', 'regex-extend', 'regex-drop',
            'regex-replace', 'regex-add', 'regex-prefix-only', 'regex-empty', 'datatype-change', 'datatype-widen', 'free-change']
ET_EDITS = ['none', 'bump', 'optional-on', 'optional-off', 'multi-on', 'multi-off', 'cardinality', 'cardinality', 'card-mixed', 'card-mixed', 'add-optional', 'add-mandatory', 'remove-prop',
            'merge-change', 'objecttype-change', 'add-attachment', 'remove-attachment', 'attachment-encoding', 'free-change',
            'add-optional-hashed', 'generic']


def ot_spec(name, version=1):
    dt, rx, _ = OT_POOL[name]
    s = G.base_objecttype()
    s.update(name=name, dataType=dt, regexHard=rx, version=version)
    return s


def gen_old(rng):
    names = rng.sample(sorted(OT_POOL), rng.randint(2, 4))
    ots = [ot_spec(n) for n in names]
    et = G.base_eventtype()
    et['props'] = []
    for i, n in enumerate(names):
        p = G.base_prop('p%d' % i, n)
        p['optional'] = rng.random() < 0.5
        p['multivalued'] = rng.random() < 0.5
        p['merge'] = rng.choice(['match', 'any', 'any', 'add', 'set'])
        if p['merge'] in ('add', 'set') and not p['multivalued']:
            p['multivalued'] = True
        if p['merge'] == 'match':
            p['multivalued'] = False
        et['props'].append(p)
    if rng.random() < 0.5:
        et['attachments'] = [G.base_attachment('att')]
        if rng.random() < 0.5:
            et['attachments'][0]['encoding'] = 'base64'
    et['version'] = rng.randint(1, 3)
    return ots, et


def edit_ot(rng, s, how):
    s = copy.deepcopy(s)
    dt, rx = s['dataType'], s['regexHard']
    changed = True
    if how == 'none':
        return s
    if how == 'bump':
        s['version'] += 1
        return s
    if how == 'enum-extend' and dt.startswith('enum:'):
        s['dataType'] = dt + ':c'
    elif how == 'enum-shrink' and dt.startswith('enum:') and dt.count(':') > 1:
        s['dataType'] = dt.rsplit(':', 1)[0]
    elif how == 'enum-replace' and dt.startswith('enum:'):
        s['dataType'] = 'enum:' + ':'.join(v + 'x' for v in dt.split(':')[1:])
    elif how == 'enum-reorder' and dt.startswith('enum:') and dt.count(':') > 1:
        s['dataType'] = 'enum:' + ':'.join(reversed(dt.split(':')[1:])) + ':c'
    elif how == 'regex-extend' and rx:
        s['regexHard'] = rx + '|' + rng.choice(['c', 'ab', 'd+'])
    elif how == 'regex-drop' and rx:
        s['regexHard'] = None
    elif how == 'regex-replace' and rx:
        s['regexHard'] = rng.choice(['c', '[a-b]', 'a'])
    elif how == 'regex-add' and rx is None and dt.startswith('string'):
        s['regexHard'] = rng.choice(['x', '[a-z]+'])
    elif how == 'regex-empty' and rx:
        s['regexHard'] = ''             # an empty expression is not an absent one: it matches the empty string only
    elif how == 'regex-prefix-only' and rx:
        s['regexHard'] = rx + 'c'       # has the old expression as a prefix but is no alternation
    elif how == 'datatype-change':
        s['dataType'] = 'string:0:mc:u' if not dt.startswith('string:0') else 'string:0:mc'
    elif how == 'datatype-widen' and dt == 'number:tinyint':
        s['dataType'] = 'number:smallint'
    elif how == 'free-change':
        s['free']['description'] = s['free']['description'] + '!'
    else:
        changed = False
    if changed and rng.random() < 0.85:
        s['version'] += 1
    return s


def edit_et(rng, et, ots, how):
    et = copy.deepcopy(et)
    props = et['props']
    changed = True
    if how == 'none':
        return et
    if how == 'bump':
        et['version'] += 1
        return et
    p = rng.choice(props)
    if how == 'optional-on':
        p['optional'] = True
    elif how == 'optional-off':
        p['optional'] = False
    elif how == 'multi-on':
        p['multivalued'] = True
    elif how == 'multi-off' and p['merge'] not in ('add', 'set'):
        p['multivalued'] = False
    elif how == 'card-mixed':
        # one flag improves while the other degrades: (mandatory, multi-valued) <-> (optional, single-valued)
        mixed = [q for q in props if q['merge'] not in ('add', 'set', 'match') and q['optional'] != q['multivalued']]
        if not mixed:
            free = [q for q in props if q['merge'] not in ('add', 'set', 'match')]
            if free:
                q = rng.choice(free)
                q['optional'], q['multivalued'] = False, True
                return edit_et(rng, et, ots, 'none')
        else:
            q = rng.choice(mixed)
            q['optional'], q['multivalued'] = not q['optional'], not q['multivalued']
    elif how == 'cardinality':
        # both flags at once: prefer a property whose flags can both change, flip both (one improves while the other
        # degrades) or draw every combination
        free = [q for q in props if q['merge'] not in ('add', 'set', 'match')]
        if free:
            p = rng.choice(free)
        if p['merge'] not in ('add', 'set', 'match') and rng.random() < 0.6:
            p['optional'] = not p['optional']
            p['multivalued'] = not p['multivalued']
        else:
            p['optional'] = rng.random() < 0.5
            if p['merge'] not in ('add', 'set', 'match'):
                p['multivalued'] = rng.random() < 0.5
    elif how in ('add-optional', 'add-mandatory', 'add-optional-hashed'):
        q = G.base_prop('n%d' % len(props), rng.choice([o['name'] for o in ots]))
        q['optional'] = how != 'add-mandatory'
        if how == 'add-optional-hashed':
            q['merge'] = 'match'
        props.append(q)
    elif how == 'remove-prop' and len(props) > 1:
        props.remove(p)
    elif how == 'merge-change':
        p['merge'] = 'any' if p['merge'] != 'any' else ('match' if not p['multivalued'] else 'set')
    elif how == 'objecttype-change' and len(ots) > 1:
        p['objectType'] = rng.choice([o['name'] for o in ots if o['name'] != p['objectType']])
    elif how == 'add-attachment':
        et['attachments'].append(G.base_attachment('att%d' % len(et['attachments'])))
    elif how == 'remove-attachment' and et['attachments']:
        et['attachments'].pop()
    elif how == 'attachment-encoding' and et['attachments']:
        a = et['attachments'][0]
        a['encoding'] = 'base64' if a['encoding'] != 'base64' else 'unicode'
    elif how == 'free-change':
        et['free']['description'] += '!'
    elif how == 'generic':
        G.mutate(rng, 'eventtype', et)
        known = {o['name'] for o in ots}
        for q in et['props']:
            if q['objectType'] not in known:
                q['objectType'] = rng.choice(sorted(known))
            q['assocs'] = []
        et['parent'] = None
        et['relations'] = []
        for k in ('tsStart', 'tsEnd', 'versionProp', 'seqProp'):
            et[k] = None
    else:
        changed = False
    if changed and rng.random() < 0.85:
        et['version'] += 1
    return et


def gate_spec(ots, et):
    by = {o['name']: o for o in ots}
    return {'props': [{'name': p['name'], 'dt': by[p['objectType']]['dataType'], 'regex': by[p['objectType']]['regexHard'],
                       'optional': p['optional'], 'multivalued': p['multivalued']} for p in et['props'] if p['objectType'] in by],
            'atts': [{'name': a['name'], 'base64': a['encoding'] == 'base64'} for a in et['attachments']]}


def gen_events(rng, ots, et, n):
    """Mostly valid events of the old definition, some holding values outside the old value spaces."""
    out = []
    for _ in range(n):
        props = []
        for p in et['props']:
            pool = list(OT_POOL[p['objectType']][2])
            if rng.random() < 0.15:
                pool = pool + EXTRA_VALUES.get(p['objectType'], [])
            if p['optional'] and rng.random() < 0.35:
                continue
            k = rng.randint(1, min(len(pool), 3)) if p['multivalued'] else 1
            props.append([p['name'], rng.sample(pool, k)])
        ev = {'type': 't', 'source': '/s/', 'props': props}
        if et['attachments'] and rng.random() < 0.5:
            a = et['attachments'][0]
            ev['atts'] = [[a['name'], [['id', 'YWJj' if a['encoding'] == 'base64' else 'text']]]]
        out.append(ev)
    return out


def build_ontology(ots, et):
    o = G.new_ontology()
    for s in ots:
        G.build_objecttype(o, s)
    G.build_eventtype(o, et)
    return o


class C10(Property):
    id = 'C10'
    title = 'Accepted ontology upgrades are backward compatible with existing events'
    design_ref = 'DESIGN.md section 10, C10'
    required_theorems = (
        'objectType_upgrade_value_space', 'eventType_upgrade_facts', 'upgrade_GUp', 'accepted_upgrade_keeps_events_valid',
        'accepted_upgrade_keeps_hash', 'accepted_upgrade_keeps_merge', 'restricting_property_rejected', 'removing_property_rejected',
        'adding_mandatory_property_rejected', 'eventTypeFlags_valid',
    )
    level_text = ('Lean 4 theorems composing the C09 comparison model with the C03 gate model and the C01 hash input: whenever '
                  'the comparison accepts a newer event type / object type definition (old < new), the gate generated from the '
                  'newer definitions accepts every event the old gate accepted (value spaces only grow: enum extension, '
                  '"old|..." or dropped hard regular expressions; properties only become optional / multi-valued; added '
                  'properties are optional; attachments keep their encoding), and the event keeps its sticky hash input (merge '
                  'strategies of existing properties are frozen), and colliding old events merge into the same object sets and parents, '
                  'or fail with the same error, under the newer definition (accepted_upgrade_keeps_merge). Removing a property, adding a mandatory one, restricting '
                  'optional/multi-valued, changing merge strategy or object type are never accepted. Compared with '
                  'Ontology.update(), the real gate and compute_sticky_hash on generated edits (single and compound, chains).')
    level_note = ('Proof is about the model. The meaning of hard regular expressions is a parameter: the only assumed fact is '
                  'that "old|x" matches whatever "old" matches. The merge theorem takes the object types as they are (it covers the '
                  'event type upgrade; that an accepted object type upgrade keeps the ordering family of min/max is by the enum-only '
                  'rule of data type upgrades and is checked by the oracle).')
    technique = 'Lean 4 proof (refinement: accepted comparison => gate monotonicity; hash input congruence) + differential correspondence'
    parallel = True
    assumptions = ('definitions are well formed (unique property / attachment / object type names)',
                   'the new definition has a version that is not lower than the old one')

    def rule(self):
        return ('cases: (old object types + event type, a chain of 1-3 edits of object types and of the event type, events '
                'generated from the old definition); observed: whether Ontology.update accepts the edited definitions, and per '
                'event validity before/after, sticky hash before/after, merge of a colliding pair before/after; non-trivial = '
                'an accepted, changed definition with at least one event valid before; distinct by content')

    def generate(self, rng, tier):
        n = 150 if tier == 'quick' else 3000
        for i in range(n):
            ots, et = gen_old(rng)
            ots2, et2 = copy.deepcopy(ots), copy.deepcopy(et)
            edits = []
            for _ in range(rng.choice([1, 1, 2, 3])):
                if rng.random() < 0.5:
                    k = rng.randrange(len(ots2))
                    how = OT_EDITS[(i + len(edits)) % len(OT_EDITS)] if rng.random() < 0.5 else rng.choice(OT_EDITS)
                    ots2[k] = edit_ot(rng, ots2[k], how)
                    edits.append('ot:' + how)
                else:
                    how = ET_EDITS[(i + len(edits)) % len(ET_EDITS)] if rng.random() < 0.5 else rng.choice(ET_EDITS)
                    et2 = edit_et(rng, et2, ots2, how)
                    edits.append('et:' + how)
            if i % 6 == 5:
                # two edits of ONE object type in one step: an allowed change of its hard regular expression or enumeration
                # together with another change of its definition
                with_rx = [k for k, o in enumerate(ots2) if o['regexHard'] or o['dataType'].startswith('enum:')]
                if with_rx:
                    k = rng.choice(with_rx)
                    first = rng.choice(['regex-extend', 'regex-drop'] if ots2[k]['regexHard'] else ['enum-extend'])
                    second = rng.choice(['datatype-change', 'datatype-change', 'regex-replace', 'enum-shrink', 'free-change'])
                    v = ots2[k]['version']
                    ots2[k] = edit_ot(rng, edit_ot(rng, ots2[k], first), second)
                    ots2[k]['version'] = v + 1
                    edits += ['ot:' + first, 'ot:' + second]
            c = {'kind': 'upgrade', 'ots': ots, 'et': et, 'ots2': ots2, 'et2': et2, 'edits': edits,
                 'events': gen_events(rng, ots, et, 6)}
            if rng.random() < 0.4:
                # another candidate (other edits of the same old definitions, hence often the same new version numbers) is
                # compared with the old ontology first; the verdict on the real candidate must not depend on that
                ots1, et1 = copy.deepcopy(ots), copy.deepcopy(et)
                for _ in range(rng.choice([1, 2])):
                    if rng.random() < 0.4:
                        k = rng.randrange(len(ots1))
                        ots1[k] = edit_ot(rng, ots1[k], rng.choice(OT_EDITS))
                    else:
                        et1 = edit_et(rng, et1, ots1, rng.choice(ET_EDITS))
                c['first'] = {'ots': ots1, 'et': et1}
            yield c

    # -- implementation
    def observe(self, case):
        from edxml.event_validator import EventValidator
        from edxml.error import EDXMLOntologyValidationError, EDXMLValidationError
        o_old = build_ontology(case['ots'], case['et'])
        o_up = build_ontology(case['ots'], case['et'])
        try:
            o_old.validate()
            o_new = build_ontology(case['ots2'], case['et2'])
            o_new.validate()
        except Exception as ex:
            # the generator produced a definition that is not a valid ontology by itself: not a case
            return {'accepted': 'unbuildable', 'events': []}
        if case.get('first'):
            try:
                o_first = build_ontology(case['first']['ots'], case['first']['et'])
                for a, b in ((o_first, o_up), (o_up, o_first)):
                    try:
                        a == b
                    except Exception:
                        pass
                try:
                    # an update that is rejected leaves the ontology as it was
                    before = o_up.generate_xml()
                    import copy as _copy
                    trial = _copy.deepcopy(o_up)
                    trial.update(o_first)
                except Exception:
                    pass
            except Exception:
                pass
        try:
            o_up.update(o_new)
            accepted = True
        except (EDXMLOntologyValidationError, EDXMLValidationError):
            accepted = False
        except Exception as ex:
            accepted = 'err:' + type(ex).__name__
        # the same pair offered in the other order: the newer definitions first, then the older ones
        try:
            o_rev = build_ontology(case['ots2'], case['et2'])
            o_rev.update(build_ontology(case['ots'], case['et']))
            accepted_rev = True
        except (EDXMLOntologyValidationError, EDXMLValidationError):
            accepted_rev = False
        except Exception as ex:
            accepted_rev = 'err:' + type(ex).__name__
        rows = []
        v_old = EventValidator(o_old)
        ref = o_up if accepted is True else (o_rev if accepted_rev is True else o_new)
        v_new = EventValidator(ref)
        t_old, t_new = o_old.get_event_type('t'), ref.get_event_type('t')
        for ev in case['events']:
            try:
                e = gen.build_event(ev, 'parsed')
                a = bool(v_old.is_valid(e))
                b = bool(v_new.is_valid(gen.build_event(ev, 'parsed')))
                h = e.compute_sticky_hash(t_old) == e.compute_sticky_hash(t_new)
            except Exception as ex:
                a = b = h = 'err:' + type(ex).__name__
            m = None
            if a is True and b is True:
                m = self.merge_same(t_old, t_new, ev)
            rows.append([a, b, h, m])
        return {'accepted': accepted, 'accepted_rev': accepted_rev, 'events': rows}

    @staticmethod
    def merge_same(t_old, t_new, ev):
        """Merge the event with a colliding variant under both definitions; None when no variant exists."""
        var = copy.deepcopy(ev)
        hashed = set(t_old.get_hashed_properties().keys())
        touched = False
        for pv in var['props']:
            if pv[0] not in hashed and len(pv[1]) > 1:
                pv[1] = pv[1][:-1]
                touched = True
        if not touched:
            return None
        try:
            r1 = gen.event_view(t_old.merge_events([gen.build_event(ev, 'plain'), gen.build_event(var, 'plain')]))
            r2 = gen.event_view(t_new.merge_events([gen.build_event(ev, 'plain'), gen.build_event(var, 'plain')]))
            return r1 == r2
        except Exception as ex:
            return 'err:' + type(ex).__name__

    # -- model
    def requests(self, case):
        g_old = gate_spec(case['ots'], case['et'])
        try:
            g_new = gate_spec(case['ots2'], case['et2'])
        except Exception:
            g_new = g_old
        evs = [{'event': ev, 'infoOld': c03.str_info(g_old, ev), 'infoNew': c03.str_info(g_new, ev)} for ev in case['events']]
        return [{'op': 'compat', 'ots': [G.model_def('objecttype', s) for s in case['ots']],
                 'ots2': [G.model_def('objecttype', s) for s in case['ots2']],
                 'et': G.model_def('eventtype', case['et']), 'et2': G.model_def('eventtype', case['et2']), 'events': evs}]

    def predict(self, case, replies):
        r = replies[0]
        accepted = r['cmpEt'] in ('lt', 'eq') and all(c in ('lt', 'eq') for c in r['cmpOts'])
        rows = []
        for row in r['events']:
            rows.append([row['validOld'], row['validNew'], row['hashSame'], 'undecided'])
        return {'accepted': accepted, 'accepted_rev': accepted, 'events': rows}

    def fill_undecided(self, case, obs, pred):
        if obs['accepted'] == 'unbuildable':
            return obs
        if len(obs['events']) == len(pred['events']):
            for o, p in zip(obs['events'], pred['events']):
                p[3] = o[3]
        return pred

    # -- oracle
    def oracle(self, case, obs):
        if obs['accepted'] in (True, False) and obs.get('accepted_rev', obs['accepted']) != obs['accepted']:
            return ('edits %s: updating the old ontology with the new one is %s, updating the new one with the old one is %s '
                    '(whether two ontologies are compatible does not depend on which of them arrives first)' % (
                        case['edits'], 'accepted' if obs['accepted'] else 'refused',
                        'accepted' if obs['accepted_rev'] is True else 'refused' if obs['accepted_rev'] is False else obs['accepted_rev']))
        if obs['accepted'] is not True:
            if isinstance(obs['accepted'], str) and obs['accepted'].startswith('err:'):
                return 'Ontology.update raised %s' % obs['accepted'][4:]
            return None
        for ev, (a, b, h, m) in zip(case['events'], obs['events']):
            if a is True and b is not True:
                return 'edits %s were accepted as an upgrade, but the event %s is valid under the old ontology and %s under the upgraded one' % (
                    case['edits'], json.dumps(ev, sort_keys=True), 'invalid' if b is False else b)
            if a is True and h is not True:
                return 'edits %s were accepted as an upgrade, but the sticky hash of %s changed' % (case['edits'], json.dumps(ev, sort_keys=True))
            if a is True and m not in (None, True):
                return 'edits %s were accepted as an upgrade, but merging %s with a colliding event gives another result (%s)' % (
                    case['edits'], json.dumps(ev, sort_keys=True), m)
        return None

    def neighbours(self, case, rng):
        out = []
        for _ in range(40):
            c = copy.deepcopy(case)
            c['events'] = gen_events(rng, c['ots'], c['et'], 8)
            out.append(c)
        return out

    def reductions(self, case):
        evs = case['events']
        for i in range(len(evs)):
            if len(evs) > 1:
                yield dict(case, events=evs[:i] + evs[i + 1:])

    def nontrivial(self, case):
        return json.dumps([case['ots2'], case['et2']], sort_keys=True) if (case['ots2'], case['et2']) != (case['ots'], case['et']) else None

    def sample_view(self, case):
        return {'edits': case['edits'], 'events': case['events'][:2]}


PROPERTY = C10()
