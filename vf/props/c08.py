"""C08 - ontology <-> XML round trip is lossless and preserves schema validity."""
import copy
import io
import json
import random

from vf.core import Property
from vf import ontgen as G

EDXML_NS = 'http://edxml.org/edxml'
RELATION_TAGS = ('inter', 'intra', 'other', 'name', 'description', 'container', 'original')

# XML level edits, applied to what the SDK itself serialized: attributes written at their default, left out where
# the schema makes them optional, integers in another notation
XML_EDITS = ['none', 'explicit-compress-false', 'explicit-merge-any', 'explicit-similar-empty', 'explicit-prefix-radix-10',
             'zero-pad-confidence', 'zero-pad-version', 'zero-pad-cnp', 'drop-similar', 'drop-merge', 'explicit-date-acquired',
             'empty-attr-extension', 'zero-pad-prefix-radix', 'reorder-attributes', 'plus-version', 'empty-predicate',
             'empty-relation-description', 'empty-similar-explicit', 'empty-xref', 'empty-regex-soft', 'story-whitespace',
             'shuffle-definitions']


def local(tag):
    return tag.split('}', 1)[1] if tag.startswith('{') else tag


def element_key(el):
    """Identity of an ontology element inside the ontology: tag and the chain of names down to it."""
    tag = local(el.tag)
    chain = []
    cur = el
    while cur is not None and local(cur.tag) != 'ontology':
        t = local(cur.tag)
        if t in ('object-type', 'concept', 'event-type', 'property', 'property-concept', 'attachment'):
            chain.append(cur.get('name'))
        elif t == 'source':
            chain.append(cur.get('uri'))
        elif t in RELATION_TAGS and local(cur.getparent().tag) == 'relations':
            chain.append('%s>%s' % (cur.get('source'), cur.get('target')))
        cur = cur.getparent()
    return [tag] + list(reversed(chain))


def elements_of(root):
    out = []
    for el in root.iter():
        if not isinstance(el.tag, str):
            continue
        tag = local(el.tag)
        if tag in ('object-type', 'concept', 'source', 'event-type', 'property', 'property-concept', 'attachment', 'parent') or \
                (tag in RELATION_TAGS and el.getparent() is not None and local(el.getparent().tag) == 'relations'):
            out.append((element_key(el), tag, sorted([k, v] for k, v in el.attrib.items())))
    return out


def tree_of(ont):
    """The <ontology> element as the nested structure of the tree model, children in document order."""
    def attrs(e):
        return sorted([k, v] for k, v in e.attrib.items())

    def kids(e, tag=None):
        return [c for c in e if isinstance(c.tag, str) and (tag is None or local(c.tag) == tag)]

    def container(e, name):
        found = kids(e, name)
        return kids(found[0]) if found else []
    ets = []
    for et in container(ont, 'event-types'):
        parents = kids(et, 'parent')
        ets.append({'attrs': attrs(et), 'parent': attrs(parents[0]) if parents else None,
                    'props': [{'attrs': attrs(p), 'concepts': [attrs(c) for c in kids(p, 'property-concept')]} for p in container(et, 'properties')],
                    'rels': [{'tag': local(r.tag), 'attrs': attrs(r)} for r in container(et, 'relations')],
                    'atts': [attrs(a) for a in container(et, 'attachments')]})
    return {'objectTypes': [attrs(x) for x in container(ont, 'object-types')], 'concepts': [attrs(x) for x in container(ont, 'concepts')],
            'eventTypes': ets, 'sources': [attrs(x) for x in container(ont, 'sources')]}


def sort_attrs(tree):
    """The model writes attributes in the order of its rule tables; attribute order is not part of the comparison."""
    if isinstance(tree, dict):
        return {k: (sorted(v) if k == 'attrs' and isinstance(v, list) else sort_attrs(v)) for k, v in tree.items()}
    if isinstance(tree, list):
        if tree and all(isinstance(x, list) and len(x) == 2 and all(isinstance(y, str) for y in x) for x in tree):
            return sorted(tree)
        return [sort_attrs(x) for x in tree]
    return tree


def gen_ontology_spec(rng):
    """A list of (kind, spec) to build into one ontology."""
    items = []
    for i in range(rng.randint(1, 3)):
        s = G.base_objecttype()
        s['name'] = 'x%d' % i
        for _ in range(rng.randint(0, 4)):
            G.mutate(rng, 'objecttype', s)
        G.sanitize_objecttype(s)
        s['version'] = rng.randint(1, 12)
        items.append(['objecttype', s])
    for i in range(rng.randint(0, 2)):
        s = G.base_concept()
        s['name'] = 'k.' + 'abc'[i]
        for _ in range(rng.randint(0, 2)):
            G.mutate(rng, 'concept', s)
        s['version'] = rng.randint(1, 12)
        items.append(['concept', s])
    if rng.random() < 0.6:
        s = G.base_source()
        for _ in range(rng.randint(0, 2)):
            G.mutate(rng, 'source', s)
        items.append(['source', s])
    et = G.base_eventtype()
    if rng.random() < 0.6:
        et['relations'] = [G.base_relation('p', 'q', confidence=rng.choice([5, 5, None, 10]))]
        if rng.random() < 0.15:
            # created the way create_relation() allows: without a description and a predicate (the schema demands both, so the
            # ontology must not pass validate(); if it does, it must serialize)
            et['relations'][0]['free']['description'] = None
            et['relations'][0]['free']['predicate'] = None
    if rng.random() < 0.4:
        et['props'][0]['assocs'] = [G.base_assoc('c.a')]
        if rng.random() < 0.4:
            # an attribute extension together with the smallest legal confidence / naming priority
            a = et['props'][0]['assocs'][0]
            a['ext'] = 'ext'
            a['free']['attr-display-name-singular'], a['free']['attr-display-name-plural'] = 'x', 'xs'
            a['free'][rng.choice(['confidence', 'cnp'])] = 0
    for _ in range(rng.randint(0, 8)):
        G.mutate(rng, 'eventtype', et)
    G.fix_relations(et)
    et['version'] = rng.randint(1, 12)
    items.append(['eventtype', et])
    return items


def rename_items(items, prefix):
    """The same definitions under other names (object types, concepts, sources, event types), references included."""
    text = json.dumps(items)
    names = set()
    for kind, spec in items:
        if kind in ('objecttype', 'concept', 'eventtype'):
            names.add(spec['name'])
    out = json.loads(text)

    def walk(x):
        if isinstance(x, dict):
            return {k: walk(v) for k, v in x.items()}
        if isinstance(x, list):
            return [walk(v) for v in x]
        if isinstance(x, str) and x in names:
            return prefix + x
        return x
    return walk(out)


def build(items, o=None):
    o = G.new_ontology() if o is None else o
    for kind, s in items:
        if kind == 'objecttype':
            G.build_objecttype(o, s)
        elif kind == 'concept':
            G.build_concept(o, s)
        elif kind == 'source':
            G.build_source(o, s)
        else:
            G.build_eventtype(o, s)
    return o


def apply_xml_edit(rng, root, how):
    """Edit the serialized ontology; returns False when the edit does not apply."""
    def pick(tags, pred=lambda e: True):
        els = [e for e in root.iter() if isinstance(e.tag, str) and local(e.tag) in tags and pred(e)]
        return rng.choice(els) if els else None

    def pad(el, attr):
        if el is None or el.get(attr) is None:
            return False
        el.set(attr, '0' + el.get(attr))
        return True
    if how == 'none':
        return True
    if how == 'explicit-compress-false':
        e = pick(['object-type'], lambda e: e.get('compress') is None)
        return e is not None and (e.set('compress', 'false') or True)
    if how == 'explicit-merge-any':
        e = pick(['property'], lambda e: e.get('merge') is None)
        return e is not None and (e.set('merge', 'any') or True)
    if how == 'explicit-similar-empty':
        e = pick(['property'], lambda e: e.get('similar') is None)
        return e is not None and (e.set('similar', '') or True)
    if how == 'explicit-prefix-radix-10':
        e = pick(['object-type'], lambda e: e.get('unit-name') is not None and e.get('prefix-radix') is None)
        return e is not None and (e.set('prefix-radix', '10') or True)
    if how == 'zero-pad-prefix-radix':
        return pad(pick(['object-type'], lambda e: e.get('prefix-radix') is not None), 'prefix-radix')
    if how == 'zero-pad-confidence':
        return pad(pick(['property', 'property-concept', 'other', 'inter', 'intra']), 'confidence')
    if how == 'zero-pad-version':
        return pad(pick(['object-type', 'concept', 'event-type', 'source']), 'version')
    if how == 'plus-version':
        e = pick(['object-type', 'concept', 'event-type', 'source'])
        return e is not None and (e.set('version', '+' + e.get('version')) or True)
    if how == 'zero-pad-cnp':
        return pad(pick(['property-concept']), 'cnp')
    if how == 'drop-similar':
        e = pick(['property'], lambda e: e.get('similar') is not None)
        if e is None:
            return False
        del e.attrib['similar']
        return True
    if how == 'drop-merge':
        e = pick(['property'], lambda e: e.get('merge') is not None)
        if e is None:
            return False
        del e.attrib['merge']
        return True
    if how == 'explicit-date-acquired':
        e = pick(['source'], lambda e: e.get('date-acquired') is None)
        return e is not None and (e.set('date-acquired', '20200101') or True)
    if how == 'empty-attr-extension':
        e = pick(['property-concept'], lambda e: e.get('attr-extension') is None)
        return e is not None and (e.set('attr-extension', '') or True)
    if how in ('empty-predicate', 'empty-relation-description'):
        e = pick(['inter', 'intra', 'other'], lambda e: e.getparent() is not None and local(e.getparent().tag) == 'relations')
        return e is not None and (e.set('predicate' if how == 'empty-predicate' else 'description', '') or True)
    if how == 'empty-similar-explicit':
        e = pick(['property'])
        return e is not None and (e.set('similar', '') or True)
    if how in ('empty-xref', 'empty-regex-soft'):
        e = pick(['object-type'])
        return e is not None and (e.set('xref' if how == 'empty-xref' else 'regex-soft', '') or True)
    if how == 'shuffle-definitions':
        # the definitions of every container in another order (the schema leaves the order open)
        done = False
        for c in root.iter():
            if isinstance(c.tag, str) and local(c.tag) in ('object-types', 'concepts', 'event-types', 'sources', 'properties', 'relations',
                                                           'attachments', 'property') and len(c) > 1:
                kids = list(c)
                for k in kids:
                    c.remove(k)
                rng.shuffle(kids)
                for k in kids:
                    c.append(k)
                done = True
        return done
    if how == 'story-whitespace':
        # the story is of schema type string: its white space is significant (the other texts are tokens, for which the
        # SDK's own validation refuses surrounding or repeated white space)
        e = pick(['event-type'])
        if e is None:
            return False
        attr = how.split('-')[0]
        cur = e.get(attr) or 'text'
        pool = [' ', ' ' + cur, cur + ' ', '  ' + cur + '\n  indented', cur + '\n', '\n' + cur, cur + '\n \nmore', '\t' + cur,
                '    a\n    b'] if attr == 'story' else [cur + '  twice', ' ' + cur, cur + ' ']
        e.set(attr, rng.choice(pool))
        return True
    if how == 'reorder-attributes':
        e = pick(['object-type', 'property', 'event-type'])
        if e is None:
            return False
        items = list(e.attrib.items())
        rng.shuffle(items)
        e.attrib.clear()
        for k, v in items:
            e.set(k, v)
        return True
    return False


def wrap(ontology_element):
    from lxml import etree
    root = etree.Element('{%s}edxml' % EDXML_NS, nsmap={None: EDXML_NS}, version='3.0.0')
    root.append(etree.fromstring(etree.tostring(ontology_element)))
    # give every element the EDXML namespace
    data = etree.tostring(root).replace(b'<ontology>', b'<ontology xmlns="%s">' % EDXML_NS.encode()).replace(b'<ontology/>', b'<ontology xmlns="%s"/>' % EDXML_NS.encode())
    return etree.fromstring(data)


_SCHEMA = []


def schema():
    if not _SCHEMA:
        from lxml import etree
        import edxml_schema
        _SCHEMA.append(etree.RelaxNG(etree.parse(edxml_schema.SCHEMA_PATH_3_0)))
    return _SCHEMA[0]


class C08(Property):
    id = 'C08'
    title = 'Ontology <-> XML round trip is lossless and preserves schema validity'
    design_ref = 'DESIGN.md section 10, C08'
    required_theorems = (
        'decode_encode', 'encode_decode_encode', 'decode_normal', 'canonVal_idem', 'written_value_is_read_back',
        'readBack_written', 'tables_have_unique_names', 'cycle_fixed_point', 'cycle_idempotent', 'tableOf_ok', 'cycle_twice', 'relation_confidence_default',
        'cycleOnt_twice', 'cycleOnt_sorted_complete', 'cycleOnt_order_free',
    )
    level_text = ('Lean 4 theorems over a model of the generate_xml / create_from_xml pairs. Attribute level (one table of attribute '
                  'rules per element class: always written, left out when None, left out at the default, left out when falsy, written '
                  'only with an attribute extension; booleans and integers rendered canonically): for every table with unique names '
                  'and every in-memory record in normal form, reading back what was written gives the record; and for EVERY element '
                  'the parser accepts (not only normal forms), parsing what was serialized succeeds and serializes to the very same '
                  'attributes (cycle_idempotent, cycle_twice: the second cycle is the identity), the tables of the SDK being shown '
                  'to meet the side conditions (unique names, well-formed guards, canonical defaults). Tree level (an ontology element '
                  'with its object types, concepts, sources, event types, their parent, properties with concept associations, '
                  'relations and attachments): the serialized tree of a parsed ontology is a fixed point of the cycle '
                  '(cycleOnt_twice), every container is sorted by the key of its definitions and holds exactly the cycled definitions '
                  'of the input, nothing lost or added (cycleOnt_sorted_complete). Tied to the code on generated ontologies whose '
                  'serialization is edited independently (defaults written out, optional attributes dropped, integers in other '
                  'notations, definitions shuffled): every element\'s attributes and the whole output tree (nesting and order) are '
                  'compared with the model, together with schema validity, equality of the parsed definitions and byte-identity of '
                  'the second cycle; and on histories of one Ontology object (serialized, cleared, refilled) against a fresh build.')
    level_note = ('Proof is about the model: the rule tables and the tree shape are transcribed from the code and tied to it only by '
                  'the correspondence check; definitions within one container have distinct keys (repeated definitions are C11); '
                  'lxml and the RelaxNG engine are not modelled.')
    technique = 'Lean 4 proof (codec round trip and idempotence over rule tables by case analysis per rule; tree fixed point via sorted lists of fixed points) + differential correspondence'
    parallel = True
    assumptions = ('attribute values are schema-valid (booleans are true/false, integers are digit strings)',)

    def rule(self):
        return ('cases: (ontology definitions of all element kinds with random optional attributes, one XML-level edit of the '
                'serialized ontology); observed per element: attributes after create_from_xml + generate_xml, after a second '
                'cycle, schema validity of the output, equality of the definitions; plus histories of one Ontology object '
                '(filled, serialized / written / used as update source, cleared or not, filled again): its serialization, what a '
                'parser reads back from a validating writer and what an updated ontology receives, compared with a freshly built '
                'ontology; non-trivial = an edit that applies, or a history; distinct by content')

    def generate(self, rng, tier):
        n = 120 if tier == 'quick' else 2500
        for i in range(n):
            yield {'kind': 'cycle', 'items': gen_ontology_spec(rng), 'edit': XML_EDITS[i % len(XML_EDITS)], 'seed': rng.randint(0, 10 ** 6)}
            if i % 4 == 0:
                # one Ontology object used over a history: filled, serialized / written / used as update source, cleared or not,
                # filled again with definitions under other names (as many or fewer, so that counters can reach old values)
                first = gen_ontology_spec(rng)
                second = rename_items(gen_ontology_spec(rng) if rng.random() < 0.5 else copy.deepcopy(first)[:rng.randint(1, len(first))], 'q')
                yield {'kind': 'reuse', 'first': first, 'second': second, 'clear': rng.random() < 0.6,
                       'uses': rng.sample(['xml', 'writer', 'update'], rng.randint(1, 2))}

    def observe_reuse(self, case):
        """One Ontology object over a history: filled, serialized, (cleared,) filled again, written by a validating writer.
        What it serializes to, and what a parser reads back, must be what a freshly built ontology of the final content gives."""
        from lxml import etree
        from edxml.ontology import Ontology
        from edxml.writer import EDXMLWriter
        from edxml.parser import EDXMLPullParser
        first, second, clear = case['first'], case['second'], case['clear']
        try:
            fresh = build(second if clear else first + second)
            fresh.validate()
            # only ontologies that a validating writer accepts when they are built from scratch are cases
            for x in (fresh, build(first)):
                x.validate()
                w = EDXMLWriter(io.BytesIO())
                w.add_ontology(x)
                w.close()
        except Exception:
            return {'skipped': True}
        try:
            o = build(first)
            for how in case['uses']:
                if how == 'xml':
                    o.generate_xml()
                elif how == 'writer':
                    w = EDXMLWriter(io.BytesIO())
                    w.add_ontology(o)
                    w.close()
                elif how == 'update':
                    Ontology().update(o)
            if clear:
                o.clear()
                G.new_ontology(o)
            build(second, o)
            direct = etree.tostring(o.generate_xml())
            out = io.BytesIO()
            w = EDXMLWriter(out)
            w.add_ontology(o)
            w.close()
            p = EDXMLPullParser()
            p.parse(io.BytesIO(out.getvalue()))
            back = etree.tostring(p.get_ontology().generate_xml())
            want = etree.tostring(fresh.generate_xml())
            target = Ontology()
            target.update(o)
            updated = etree.tostring(target.generate_xml())
        except Exception as ex:
            return {'skipped': False, 'outcome': 'raised:' + type(ex).__name__}
        return {'skipped': False, 'outcome': 'ok', 'serializes_as_fresh': direct == want, 'parses_back_as_fresh': back == want,
                'updates_as_fresh': updated == want}

    def prepared_input(self, case):
        """The ontology element handed to the parser: SDK serialization + the edit. None when it is not schema-valid."""
        from lxml import etree
        try:
            o = build(case['items'])
            o.validate()
        except Exception:
            return None, False
        try:
            root = etree.fromstring(etree.tostring(o.generate_xml()))
        except Exception:
            return None, False      # (own_output reports a valid ontology that cannot be serialized)
        applied = apply_xml_edit(random.Random(case['seed']), root, case['edit'])
        doc = wrap(root)
        if not schema().validate(doc):
            return None, applied
        # the namespaced <ontology> element, as a parser hands it to Ontology.create_from_xml / update
        return doc[0], applied

    def observe(self, case):
        from lxml import etree
        from edxml.ontology import Ontology
        from edxml.error import EDXMLValidationError
        if case['kind'] == 'reuse':
            return self.observe_reuse(case)
        own = self.own_output(case)
        root, applied = self.prepared_input(case)
        if root is None:
            return {'skipped': True, 'own': own}
        try:
            o2 = Ontology.create_from_xml(copy.deepcopy(root))
        except EDXMLValidationError as ex:
            return {'skipped': False, 'parsed': 'rejected:' + type(ex).__name__}
        except Exception as ex:
            return {'skipped': False, 'parsed': 'err:' + type(ex).__name__}
        x2 = o2.generate_xml()
        b2 = etree.tostring(x2)
        try:
            o3 = Ontology.create_from_xml(wrap(x2)[0])
            b3 = etree.tostring(o3.generate_xml())
        except Exception as ex:
            b3 = b'err:' + type(ex).__name__.encode()
        els = {json.dumps(k): a for k, _t, a in elements_of(x2)}
        return {'skipped': False, 'own': own, 'parsed': 'ok', 'elements': els, 'second_identical': b2 == b3, 'tree': sort_attrs(tree_of(x2)),
                'schema_valid': bool(schema().validate(wrap(x2))),
                'same_definitions': self.same_definitions(root, x2)}

    def own_output(self, case):
        """What the SDK serializes for a valid ontology it built itself is read back as the same definitions."""
        from lxml import etree
        from edxml.ontology import Ontology
        try:
            o = build(case['items'])
            o.validate()
        except Exception:
            return True      # not a case
        try:
            x = o.generate_xml()
            held = etree.tostring(x)
            back = Ontology.create_from_xml(wrap(x)[0])
        except Exception as ex:
            return 'what generate_xml() wrote for a valid ontology cannot be read back (%s)' % type(ex).__name__
        # a serialization is a value: what a caller holds is not changed by later uses of the same ontology object
        # (serialized again, used as the source of an update), and those later uses see the same definitions
        try:
            again = etree.tostring(o.generate_xml())
            Ontology().update(o)
            third = etree.tostring(o.generate_xml())
        except Exception as ex:
            return 'an ontology that was serialized once cannot be serialized / used again (%s)' % type(ex).__name__
        if etree.tostring(x) != held:
            return 'the element that generate_xml() returned was changed by later uses of the same ontology object'
        if again != held or third != held:
            return 'serializing the same unchanged ontology again gives other bytes'
        r = self.same_objects(o, back)
        if r is not True:
            return 'what is read back from the serialization of a valid ontology does not compare equal to what was serialized: %s' % r
        r = self.same_definitions(wrap(x)[0], back.generate_xml())
        return True if r is True else 'what generate_xml() wrote for a valid ontology reads back with another definition of %s' % r

    @staticmethod
    def same_definitions(root, x2):
        """Parse the input and parse what was serialized from it; compare every definition with ==."""
        from edxml.ontology import Ontology
        import copy as _c
        o1 = Ontology.create_from_xml(_c.deepcopy(root))
        try:
            o2 = Ontology.create_from_xml(wrap(x2)[0])
        except Exception as ex:
            return 'unparsable output (%s)' % type(ex).__name__
        return C08.same_objects(o1, o2)

    @staticmethod
    def same_objects(o1, o2):
        """Every definition of o1 compares equal (==, from both sides) to the definition o2 holds under that name."""
        try:
            for name, ot in o1.get_object_types().items():
                if not (o2.get_object_type(name) == ot) or not (ot == o2.get_object_type(name)):
                    return 'object type ' + name
            for name, c in o1.get_concepts().items():
                if not (o2.get_concept(name) == c) or not (c == o2.get_concept(name)):
                    return 'concept ' + name
            for name, et in o1.get_event_types().items():
                if not (o2.get_event_type(name) == et) or not (et == o2.get_event_type(name)):
                    return 'event type ' + name
            for uri, s in o1.get_event_sources().items():
                if not (o2.get_event_source(uri) == s) or not (s == o2.get_event_source(uri)):
                    return 'source ' + uri
        except Exception as ex:
            return 'err:' + type(ex).__name__
        return True

    def requests(self, case):
        if case['kind'] == 'reuse':
            return []
        root, applied = self.prepared_input(case)
        if root is None:
            return []
        return [{'op': 'xmlcycle', 'elements': [{'tag': t, 'attrs': a} for _k, t, a in elements_of(root)]},
                dict(tree_of(root), op='xmltree')]

    def predict(self, case, replies):
        if case['kind'] == 'reuse':
            # in the model a serialization is a function of the definitions the ontology holds now (encode of the records)
            return {'skipped': False, 'outcome': 'ok', 'serializes_as_fresh': True, 'parses_back_as_fresh': True, 'updates_as_fresh': True}
        root, applied = self.prepared_input(case)
        if root is None:
            return {'skipped': True, 'own': True}
        els = {}
        ok = True
        for (k, _t, _a), r in zip(elements_of(root), replies[0]['elements']):
            if r == 'fail':
                ok = False
                continue
            els[json.dumps(k)] = sorted(r['once'])
            if r['twice'] == 'fail' or sorted(r['twice']) != sorted(r['once']):
                ok = False
        if not ok or replies[1]['once'] == 'fail' or not replies[1]['twiceSame']:
            return {'skipped': False, 'own': True, 'parsed': 'model-fails'}
        return {'skipped': False, 'own': True, 'parsed': 'ok', 'elements': els, 'second_identical': True, 'schema_valid': True,
                'tree': sort_attrs(replies[1]['once']), 'same_definitions': True}

    def fill_undecided(self, case, obs, pred):
        # whether generated definitions are a case at all (valid, accepted by a writer when built from scratch) is decided
        # by building them
        if case['kind'] == 'reuse' and obs.get('skipped'):
            return obs
        return pred

    def oracle(self, case, obs):
        if case['kind'] == 'cycle' and obs.get('own', True) is not True:
            return obs['own']
        if obs.get('skipped'):
            return None
        if case['kind'] == 'reuse':
            what = 'an Ontology object that was %s, %sand filled again' % (
                ' and '.join({'xml': 'serialized', 'writer': 'written', 'update': 'used to update another ontology'}[u] for u in case['uses']) or 'filled',
                'cleared ' if case['clear'] else '')
            if obs['outcome'] != 'ok':
                return '%s: %s' % (what, obs['outcome'])
            if not obs['serializes_as_fresh']:
                return '%s does not serialize to what a freshly built ontology with the same definitions serializes to' % what
            if not obs['parses_back_as_fresh']:
                return '%s is accepted by a validating writer, but what a parser reads back differs from its definitions' % what
            if not obs['updates_as_fresh']:
                return '%s: an ontology updated with it does not receive its current definitions' % what
            return None
        what = 'ontology with XML edit %s' % case['edit']
        if obs['parsed'] != 'ok':
            return '%s: a schema-valid ontology element is not parsed: %s' % (what, obs['parsed'])
        if not obs['schema_valid']:
            return '%s: the serialization of the parsed ontology does not satisfy the EDXML schema' % what
        if not obs['second_identical']:
            return '%s: parsing and serializing a second time changes the bytes' % what
        if obs['same_definitions'] is not True:
            return '%s: after the round trip %s does not compare equal to the original definition' % (what, obs['same_definitions'])
        return None

    def neighbours(self, case, rng):
        if case['kind'] == 'reuse':
            return []
        return [dict(case, edit=e, seed=rng.randint(0, 10 ** 6)) for e in XML_EDITS]

    def nontrivial(self, case):
        if case['kind'] == 'reuse':
            return json.dumps(case, sort_keys=True)
        return json.dumps(case, sort_keys=True) if case['edit'] != 'none' else None

    def sample_view(self, case):
        if case['kind'] == 'reuse':
            return {'kind': 'reuse', 'uses': case['uses'], 'clear': case['clear']}
        return {'edit': case['edit'], 'kinds': [k for k, _ in case['items']]}


PROPERTY = C08()
