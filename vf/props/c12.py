"""C12 - ontology change tracking never misses a change."""
import inspect
import json
import random

from vf.core import Property
from vf import ontgen as G

# Public methods that do not change an ontology (reviewed list). Anything public that is neither
# here nor in MUTATORS makes the census incomplete and is reported.
READONLY_PREFIXES = ('get_', 'is_', 'generate_', 'validate', 'evaluate', 'merge_events', 'normalize',
                     'concept_name', 'concept_names')
READONLY = {'create_from_xml', 'keys', 'values', 'items', 'get', 'reversed', 'create', 'register_brick',
            'pop', 'popitem', 'setdefault'}

STR = ['x', 'y', 'some text', 'd']


def flatten(o):
    """Serialization as a sorted list of (path, value)."""
    out = []

    def walk(e, path):
        key = e.get('name') or e.get('uri') or e.get('source', '') + '>' + e.get('target', '') or ''
        here = '%s/%s[%s]' % (path, e.tag, key)
        for k, v in sorted(e.attrib.items()):
            out.append([here + '@' + k, v])
        if len(e) == 0 and not e.attrib:
            out.append([here, ''])
        for i, c in enumerate(e):
            walk(c, here)
    walk(o.generate_xml(), '')
    return sorted(out)


def seed_ontology(rng):
    from edxml.ontology import EventTypeParent
    o = G.new_ontology()
    spec = G.base_eventtype()
    spec['props'][0]['assocs'] = [G.base_assoc('c.a')]
    spec['relations'] = [G.base_relation('p', 'q')]
    spec['attachments'] = [G.base_attachment('att')]
    spec['parent'] = G.base_parent()
    G.build_eventtype(o, spec)
    return o


def targets(o):
    """All reachable elements, with a label."""
    out = [('ontology', o)]
    for n, x in o.get_object_types().items():
        out.append(('objecttype:' + n, x))
    for n, x in o.get_concepts().items():
        out.append(('concept:' + n, x))
    for n, x in o.get_event_sources().items():
        out.append(('source:' + n, x))
    for n, et in o.get_event_types().items():
        out.append(('eventtype:' + n, et))
        for pn, p in et.get_properties().items():
            out.append(('property:%s.%s' % (n, pn), p))
            for cn, a in p.get_concept_associations().items():
                out.append(('assoc:%s.%s.%s' % (n, pn, cn), a))
        for rid, r in et.get_property_relations().items():
            out.append(('relation:' + rid, r))
        for an, a in et.get_attachments().items():
            out.append(('attachment:%s.%s' % (n, an), a))
        if et.get_parent() is not None:
            out.append(('parent:' + n, et.get_parent()))
    return out


def mutator_table():
    """(class name, method) -> (model kind, argument generator(rng, element, ontology))."""
    from edxml.ontology import DataType, EventTypeAttachment, EventTypeParent, Ontology
    import datetime
    s = lambda rng, e, o: [rng.choice(STR)]
    b = lambda rng, e, o: [rng.random() < 0.5]
    none = lambda rng, e, o: []
    n = lambda rng, e, o: [rng.randint(1, 9)]
    new_name = lambda rng, e, o: ['n' + str(rng.randint(0, 3))]

    def other_ontology(rng, e, o):
        o2 = G.new_ontology()
        spec = G.base_eventtype()
        for _ in range(rng.randint(0, 2)):
            spec = G.vary(rng, 'eventtype', spec)
        spec['version'] = rng.randint(1, 3)
        G.build_eventtype(o2, spec)
        if rng.random() < 0.5:
            o2.create_concept('c.new%d' % rng.randint(0, 2))
        if rng.random() < 0.5:
            o2.get_object_type('o.str').set_description(rng.choice(STR)).set_version(rng.randint(1, 3))
        if rng.random() < 0.5:
            from lxml import etree
            ed = etree.Element('{http://edxml.org/edxml}edxml', nsmap={None: 'http://edxml.org/edxml'})
            ed.append(o2.generate_xml())
            return [etree.fromstring(etree.tostring(ed))[0]]
        return [o2]

    def other_event_type(rng, e, o):
        """A newer definition of event type e that lives in another ontology: one more concept association (or relation,
        attachment, property), version + 1. EventType.update() adopts the new sub-elements."""
        from lxml import etree
        doc = etree.fromstring('<edxml xmlns="http://edxml.org/edxml" version="3.0.0"/>')
        doc.append(o.generate_xml())
        o2 = Ontology.create_from_xml(etree.fromstring(etree.tostring(doc))[0])
        e2 = o2.get_event_type(e.get_name())
        what = rng.choice(['assoc', 'assoc', 'attachment', 'property'])
        if what == 'assoc':
            props = list(e2.get_properties().values())
            concepts = list(o2.get_concepts().keys())
            if props and concepts:
                p = rng.choice(props)
                free = [c for c in concepts if c not in p.get_concept_associations()]
                if free:
                    p.identifies(rng.choice(free), rng.randint(1, 9))
        elif what == 'attachment':
            e2.create_attachment('upg%d' % rng.randint(0, 5))
        else:
            name = 'u%d' % rng.randint(0, 3)
            if name not in e2.get_properties():
                e2.create_property(name, 'o.str').make_optional()
        e2.set_version(e.get_version() + 1)
        return [e2]

    def prop_name(rng, e, o):
        return [rng.choice(['p', 'q', 'zz'])]

    t = {
        ('Ontology', 'create_concept'): ('always', lambda r, e, o: ['c.n%d' % r.randint(0, 3)]),
        ('Ontology', 'create_event_source'): ('always', lambda r, e, o: ['/n%d/' % r.randint(0, 3)]),
        ('Ontology', 'create_event_type'): ('always', lambda r, e, o: ['tn%d' % r.randint(0, 3)]),
        ('Ontology', 'create_object_type'): ('always', lambda r, e, o: ['o.n%d' % r.randint(0, 3)]),
        ('Ontology', 'delete_concept'): ('set', lambda r, e, o: [r.choice(['c.a', 'c.n0', 'nope'])]),
        ('Ontology', 'delete_event_source'): ('set', lambda r, e, o: [r.choice(['/s/', '/n0/', '/nope/'])]),
        ('Ontology', 'delete_event_type'): ('set', lambda r, e, o: [r.choice(['tn0', 'tn1', 'nope'])]),
        ('Ontology', 'delete_object_type'): ('set', lambda r, e, o: [r.choice(['o.n0', 'o.n1', 'nope'])]),
        ('Ontology', 'clear'): ('clear', none),
        ('Ontology', 'update'): ('set', other_ontology),
        ('EventType', 'update'): ('set', other_event_type),
        ('EventType', 'create_property'): ('always', lambda r, e, o: ['n%d' % r.randint(0, 3), 'o.str']),
        ('EventType', 'remove_property'): ('set', lambda r, e, o: [r.choice(['n0', 'n1', 'nope'])]),
        ('EventType', '__delitem__'): ('set', lambda r, e, o: [r.choice(['n0', 'n2'])]),
        ('EventType', 'create_attachment'): ('always', lambda r, e, o: ['att%d' % r.randint(0, 2)]),
        ('EventType', 'create_relation'): ('always', lambda r, e, o: ['other', 'q', 'p', '[[q]] to [[p]]', r.choice(STR), None, None, 3]),
        ('EventType', 'set_description'): ('set', s),
        ('EventType', 'set_display_name'): ('set', lambda r, e, o: [r.choice(STR), r.choice(STR)]),
        ('EventType', 'set_name'): ('set', lambda r, e, o: [r.choice(['t', 'tx'])]),
        ('EventType', 'set_story_template'): ('set', s),
        ('EventType', 'set_summary_template'): ('set', s),
        ('EventType', 'set_version'): ('set', n),
        ('EventType', 'set_sequence_property_name'): ('set', lambda r, e, o: [r.choice([None, 'p'])]),
        ('EventType', 'set_version_property_name'): ('set', lambda r, e, o: [r.choice([None, 'p'])]),
        ('EventType', 'set_timespan_property_name_start'): ('set', lambda r, e, o: [r.choice([None, 'p'])]),
        ('EventType', 'set_timespan_property_name_end'): ('set', lambda r, e, o: [r.choice([None, 'q'])]),
        ('EventType', 'set_parent'): ('always', lambda r, e, o: [EventTypeParent(e, 'parent', 'p:p', r.choice(STR), 'sharing')]),
        ('EventType', 'add_attachment'): ('always', lambda r, e, o: [EventTypeAttachment(e, 'added%d' % r.randint(0, 5))]),
        ('EventProperty', 'hint_similar'): ('set', s),
        ('EventProperty', 'identifies'): ('always', lambda r, e, o: [r.choice(['c.b', 'c.a.x']), r.randint(1, 9)]),
        ('EventProperty', 'make_hashed'): ('set', none),
        ('EventProperty', 'make_mandatory'): ('set', none),
        ('EventProperty', 'make_multivalued'): ('set', none),
        ('EventProperty', 'make_optional'): ('set', none),
        ('EventProperty', 'make_single_valued'): ('set', none),
        ('EventProperty', 'merge_add'): ('set', none),
        ('EventProperty', 'merge_any'): ('set', none),
        ('EventProperty', 'merge_max'): ('set', none),
        ('EventProperty', 'merge_min'): ('set', none),
        ('EventProperty', 'merge_replace'): ('set', none),
        ('EventProperty', 'merge_set'): ('set', none),
        ('EventProperty', 'relate_to'): ('always', lambda r, e, o: [r.choice(STR), 'q' if e.get_name() != 'q' else 'p', r.choice(STR)]),
        ('EventProperty', 'relate_name'): ('always', lambda r, e, o: ['q' if e.get_name() != 'q' else 'p']),
        ('EventProperty', 'relate_description'): ('always', lambda r, e, o: ['q' if e.get_name() != 'q' else 'p']),
        ('EventProperty', 'relate_container'): ('always', lambda r, e, o: ['q' if e.get_name() != 'q' else 'p']),
        ('EventProperty', 'relate_original'): ('always', lambda r, e, o: ['q' if e.get_name() != 'q' else 'p']),
        ('EventProperty', 'set_confidence'): ('set', n),
        ('EventProperty', 'set_description'): ('set', s),
        ('EventProperty', 'set_merge_strategy'): ('set', lambda r, e, o: [r.choice(['any', 'add', 'match', 'set'])]),
        ('EventProperty', 'set_multi_valued'): ('set', b),
        ('EventProperty', 'set_optional'): ('set', b),
        ('PropertyConcept', 'set_attribute'): ('set', lambda r, e, o: r.choice([['', ''], ['ext', 'dn'], ['ext', ''], ['ex2', 'dn']])),
        ('PropertyConcept', 'set_concept_naming_priority'): ('set', lambda r, e, o: [r.randint(0, 255)]),
        ('PropertyConcept', 'set_confidence'): ('set', n),
        ('PropertyRelation', 'because'): ('set', s),
        ('PropertyRelation', 'set_confidence'): ('set', n),
        ('PropertyRelation', 'set_description'): ('set', s),
        ('PropertyRelation', 'set_predicate'): ('set', s),
        ('EventTypeParent', 'map'): ('set', lambda r, e, o: [r.choice(['p', 'q']), 'p']),
        ('EventTypeParent', 'set_parent_description'): ('set', s),
        ('EventTypeParent', 'set_siblings_description'): ('set', s),
        ('EventTypeAttachment', 'set_description'): ('set', s),
        ('EventTypeAttachment', 'set_display_name'): ('set', lambda r, e, o: [r.choice(STR), r.choice(STR)]),
        ('EventTypeAttachment', 'set_encoding'): ('set', lambda r, e, o: [r.choice(['unicode', 'base64'])]),
        ('EventTypeAttachment', 'set_encoding_base64'): ('set', none),
        ('EventTypeAttachment', 'set_encoding_unicode'): ('set', none),
        ('EventTypeAttachment', 'set_media_type'): ('set', lambda r, e, o: [r.choice(['text/plain', 'text/html'])]),
        ('ObjectType', 'compress'): ('set', b),
        ('ObjectType', 'fuzzy_match_head'): ('set', n),
        ('ObjectType', 'fuzzy_match_tail'): ('set', n),
        ('ObjectType', 'fuzzy_match_phonetic'): ('set', none),
        ('ObjectType', 'fuzzy_match_substring'): ('set', lambda r, e, o: ['a(b)c']),
        ('ObjectType', 'set_data_type'): ('set', lambda r, e, o: [DataType(r.choice(['string:0:mc:u', 'enum:a:b', 'number:int']))]),
        ('ObjectType', 'set_description'): ('set', s),
        ('ObjectType', 'set_display_name'): ('set', lambda r, e, o: [r.choice(STR), r.choice(STR)]),
        ('ObjectType', 'set_fuzzy_matching_attribute'): ('set', lambda r, e, o: [r.choice([None, 'phonetic', '[:3]'])]),
        ('ObjectType', 'set_prefix_radix'): ('set', lambda r, e, o: [r.choice([2, 60])]),
        ('ObjectType', 'set_regex_hard'): ('set', lambda r, e, o: [r.choice([None, 'a', 'a|b'])]),
        ('ObjectType', 'set_regex_soft'): ('set', lambda r, e, o: [r.choice([None, '[a-z]'])]),
        ('ObjectType', 'set_unit'): ('set', lambda r, e, o: r.choice([[None, None], ['meter', 'm']])),
        ('ObjectType', 'set_version'): ('set', n),
        ('ObjectType', 'set_xref'): ('set', lambda r, e, o: [r.choice([None, 'http://x/'])]),
        ('ObjectType', 'upgrade'): ('set', none),
        ('Concept', 'set_description'): ('set', s),
        ('Concept', 'set_display_name'): ('set', lambda r, e, o: [r.choice(STR), r.choice(STR)]),
        ('Concept', 'set_version'): ('set', n),
        ('Concept', 'upgrade'): ('set', none),
        ('EventSource', 'set_acquisition_date'): ('set', lambda r, e, o: [datetime.datetime(2020, r.randint(1, 12), 1)]),
        ('EventSource', 'set_acquisition_date_string'): ('set', lambda r, e, o: [r.choice(['20200101', '20210101'])]),
        ('EventSource', 'set_description'): ('set', s),
        ('EventSource', 'set_version'): ('set', n),
    }
    # mutators that need another definition of the same kind are exercised through Ontology.update
    via_update = {('EventProperty', 'update'), ('PropertyConcept', 'update'),
                  ('PropertyRelation', 'update'), ('EventTypeParent', 'update'), ('EventTypeAttachment', 'update'),
                  ('ObjectType', 'update'), ('Concept', 'update'), ('EventSource', 'update'),
                  ('EventType', 'add_property'), ('EventType', 'add_relation'), ('EventProperty', 'add_associated_concept'),
                  ('EventType', 'make_child'), ('EventType', 'make_parent'), ('EventProperty', 'relate_inter'),
                  ('EventProperty', 'relate_intra'), ('EventType', 'clear')}
    return t, via_update


def census():
    """Public methods of the element classes that are in no table: the census is incomplete."""
    from edxml.ontology import Ontology, EventType, EventProperty, PropertyConcept, PropertyRelation, \
        EventTypeParent, EventTypeAttachment, ObjectType, Concept, EventSource
    table, via_update = mutator_table()
    unknown = []
    for cls in (Ontology, EventType, EventProperty, PropertyConcept, PropertyRelation, EventTypeParent,
                EventTypeAttachment, ObjectType, Concept, EventSource):
        for name, f in inspect.getmembers(cls):
            if not callable(f) or name.startswith('_'):
                continue
            key = (cls.__name__, name)
            if key in table or key in via_update or name in READONLY or name.startswith(READONLY_PREFIXES):
                continue
            unknown.append('%s.%s' % key)
    return sorted(unknown)


class C12(Property):
    id = 'C12'
    title = 'Ontology change tracking never misses a change'
    design_ref = 'DESIGN.md section 10, C12'
    required_theorems = (
        'counter_sound_step', 'counter_monotone', 'counter_sound', 'consumer_never_stale', 'violated_by_clear',
        'notified_reaches_root', 'attach_owned', 'attachStale_breaks',
    )
    level_text = ('Lean 4 theorems over the change-counter model (three classes of mutators by how they reach the counter): '
                  'every mutator call that changes the serialization strictly increases the counter, the counter is '
                  'monotone, hence is_modified_since(v) is true after any change for every v observed before it, and a '
                  'counter-keyed consumer (validator schema cache, mediator ontology output) never acts on a stale '
                  'ontology - for every history without clear(); clear() is proved to break it (known finding). The '
                  'classification of every public mutator of the ten element classes is checked against the code: a census '
                  'by introspection, and random histories of mutator calls on every reachable element (incl. updates from '
                  'other ontologies and XML) comparing "serialization changed" with "counter moved" step by step. Who is told: '
                  'over a model of the back references from every element to what holds it, a notification from any element an '
                  'ontology holds, at any depth, ends at that ontology when the references are sound (notified_reaches_root); '
                  'creating or adopting-with-re-pointing keeps them sound (attach_owned), adoption by bare reference does not '
                  '(attachStale_breaks); the references of the real objects are audited after every call of every history.')
    level_note = ('Proof is about the abstract counter model and the model of back references; which class a mutator belongs to '
                  'is established by correspondence only; the back references are private attributes (when they cannot be read '
                  'the audit judges nothing). Ontology.clear() resets the counter (pinned by the SDK test '
                  'suite): recorded as a known finding, not repaired.')
    technique = 'Lean 4 proof (counter invariant over mutator histories, consumer refinement) + mutator census and differential correspondence'
    parallel = True
    assumptions = ('mutators are called through the public API',)

    def rule(self):
        return ('cases: a seed ontology (object types, concepts, sources, an event type with properties, concept '
                'association, relation, attachment, parent) and a random history of 1..25 public mutator calls, each on a '
                'randomly chosen reachable element with arguments from a curated table (incl. Ontology.update from another '
                'ontology or XML, deletions, clear); observed per call: serialization changed?, counter moved?, counter '
                'decreased?; scripted histories A, B, A of two mutators on one element (every ordered pair for properties); plus the '
                'census of unclassified public methods; non-trivial = at least 3 calls changed the '
                'serialization; distinct by content')

    def generate(self, rng, tier):
        yield {'kind': 'census'}
        n = 250 if tier == 'quick' else 8000
        for i in range(n):
            case = {'kind': 'history', 'seed': rng.randint(0, 10 ** 9), 'length': rng.randint(1, 25),
                    'allow_clear': i % 10 == 0}
            if i % 6 == 5:
                # the history goes on with a deep copy of the ontology (the original stays alive, and is left alone)
                case['copy_at'] = rng.randint(0, case['length'] - 1)
            yield case
        # A, B, A on one element: every ordered pair of mutators of the property class (the class whose settings imply one
        # another), a sample of the pairs of the other classes (all of them in the thorough tier)
        table, _ = mutator_table()
        classes = sorted({c for c, _m in table})
        for cname in classes:
            ms = sorted(m for c, m in table if c == cname and m != 'clear' and not (c == 'Ontology' and m == 'update'))
            pairs = [(a, b) for a in ms for b in ms if a != b]
            if cname != 'EventProperty' and tier == 'quick':
                pairs = rng.sample(pairs, min(len(pairs), 40))
            for a, b in pairs:
                yield {'kind': 'history', 'seed': rng.randint(0, 10 ** 9), 'length': 3, 'allow_clear': False,
                       'script': [[cname, a], [cname, b], [cname, a]]}

    _memo = {}

    def history(self, case):
        key = json.dumps(case, sort_keys=True)
        if key not in self._memo:
            if len(self._memo) > 20000:
                self._memo.clear()
            self._memo[key] = self.history_run(case)
        return self._memo[key]

    def history_run(self, case):
        """Run the history on the real code; returns list of steps."""
        rng = random.Random(case['seed'])
        o = seed_ontology(rng)
        table, _ = mutator_table()
        steps = []
        # a consumer that decides by the counter: one long-lived event validator
        from edxml.event_validator import EventValidator
        from vf import gen
        ev_spec = {'type': 't', 'source': '/s/', 'props': [['p', ['a']]]}
        events = [gen.build_event(ev_spec, 'plain'), gen.build_event(ev_spec, 'parsed')]
        validator = EventValidator(o)

        def verdicts(v, order):
            out = []
            for i in order:
                try:
                    out.append([i, bool(v.is_valid(events[i]))])
                except Exception as ex:
                    out.append([i, 'err:' + type(ex).__name__])
            return sorted(out)
        verdicts(validator, [0, 1])
        script = case.get('script')
        fixed_label, fixed_args = None, {}
        original = None
        for step_no in range(case['length']):
            if case.get('copy_at') == step_no:
                import copy
                original = o
                o = copy.deepcopy(o)
                original_state = (flatten(original), original.get_version())
                validator = EventValidator(o)
                verdicts(validator, [0, 1])
            if script:
                # a scripted history: the named mutators of one class, all applied to the same element, a repeated mutator with
                # the arguments of its first call (A, B, A: re-applying a setting after something else changed what it implies)
                cname, m = script[step_no]
                cands = [(l, x) for l, x in targets(o) if type(x).__name__ == cname]
                if fixed_label is None and cands:
                    fixed_label = rng.choice(cands)[0]
                same = [(l, x) for l, x in cands if l == fixed_label]
                if not same:
                    continue
                label, e = same[0]
            else:
                label, e = rng.choice(targets(o))
                cname = type(e).__name__
                methods = sorted(m for (c, m) in table if c == cname)
                if not case['allow_clear'] and 'clear' in methods:
                    methods.remove('clear')
                m = rng.choice(methods)
            kind, argf = table[(cname, m)]
            try:
                args = fixed_args[m] if script and m in fixed_args else argf(rng, e, o)
                fixed_args[m] = args
            except Exception:
                continue
            before = flatten(o)
            v0 = o.get_version()
            err = None
            try:
                getattr(e, m)(*args)
            except Exception as ex:
                err = type(ex).__name__
            after = flatten(o)
            v1 = o.get_version()
            order = [step_no % 2, 1 - step_no % 2]
            stale = verdicts(validator, order) != verdicts(EventValidator(o), order)
            if m == 'clear' or any(x['method'] == 'clear' for x in steps):
                stale = False   # after clear() the counter is unreliable: covered by the known finding
            from vf import ownership
            misowned = ownership.audit(o) or []
            if original is not None and (flatten(original), original.get_version()) != original_state:
                misowned = misowned + ['(the ontology this one is a deep copy of saw the call: its definitions or change counter moved)']
                original_state = (flatten(original), original.get_version())
            steps.append({'target': label, 'method': m, 'kind': kind, 'raised': err, 'changed': before != after,
                          'moved': v1 > v0, 'decreased': v1 < v0, 'store': after, 'stale': stale,
                          'misowned': misowned})
        return steps

    def observe(self, case):
        if case['kind'] == 'census':
            return {'unclassified': census()}
        steps = self.history(case)
        # over-notification (counter moves although the serialization did not change, e.g. an attribute
        # that is not serialized for this kind of element) is allowed by the property
        return {'steps': [[s['moved'] or not s['changed'], s['decreased'], s['stale'], bool(s['misowned'])] for s in steps],
                'n_changed': sum(1 for s in steps if s['changed'])}

    def requests(self, case):
        if case['kind'] == 'census':
            return []
        import_steps = self.history(case)
        ops = [{'k': 'set' if s['raised'] and s['kind'] == 'always' else s['kind'], 'store': s['store']} for s in import_steps]
        rng = random.Random(case['seed'])
        return [{'op': 'track', 'init': flatten(seed_ontology(rng)), 'ops': ops}]

    def predict(self, case, replies):
        if case['kind'] == 'census':
            return {'unclassified': []}
        steps = self.history(case)
        # (the model's operations keep the back references sound: attach_owned)
        return {'steps': [[m['moved'] or not s['changed'], m['decreased'], False, False] for m, s in zip(replies[0]['steps'], steps)],
                'n_changed': sum(1 for s in steps if s['changed'])}

    def flags_hit(self, case, replies):
        if case['kind'] == 'history' and any(s['decreased'] for s in replies[0]['steps']):
            return ['clearResetsCounter']
        return []

    def oracle(self, case, obs):
        if case['kind'] == 'census':
            if obs['unclassified']:
                return 'public methods not classified as mutator or read-only: %s' % ', '.join(obs['unclassified'])
            return None
        steps = self.history(case)
        seen_versions = []
        for i, s in enumerate(steps):
            if s['changed'] and not s['moved']:
                return ('call %d, %s.%s on %s changed the serialization but the change counter did not increase%s' % (
                    i, s['target'].split(':')[0], s['method'], s['target'], ' (it decreased)' if s['decreased'] else ''))
            if s['decreased']:
                return 'call %d, %s on %s decreased the change counter' % (i, s['method'], s['target'])
            if s['misowned']:
                return ('after call %d (%s on %s) the ontology holds elements that refer back to another object than the one that holds '
                        'them, so that their changes are reported elsewhere: %s' % (i, s['method'], s['target'], ', '.join(s['misowned'][:4])))
            if s['stale']:
                return ('after call %d (%s on %s) a long-lived EventValidator gives another verdict than a fresh one: '
                        'it acts on a stale ontology' % (i, s['method'], s['target']))
        return None

    def neighbours(self, case, rng):
        if case.get('script'):
            return [dict(case, seed=rng.randint(0, 10 ** 9)) for _ in range(20)]
        return [{'kind': 'history', 'seed': rng.randint(0, 10 ** 9), 'length': case.get('length', 10),
                 'allow_clear': False} for _ in range(100)]

    def reductions(self, case):
        if case['kind'] == 'history' and not case.get('script'):
            n = case['length']
            while n > 1:
                n -= 1
                yield dict(case, length=n)

    def nontrivial_obs(self, case, obs):
        if case['kind'] == 'census':
            return 'census'
        return json.dumps(case, sort_keys=True) if isinstance(obs, dict) and obs.get('n_changed', 0) >= 3 else None

    def sample_view(self, case):
        if case['kind'] == 'census':
            return case
        steps = self.history(case)
        return {'case': case, 'calls': [[s['target'], s['method'], s['changed'], s['moved']] for s in steps][:12]}


PROPERTY = C12()
