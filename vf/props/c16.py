"""C16 - a validated template always evaluates; evaluating never changes the event."""
import json
import random
import re

from vf.core import Property
from vf import gen

# the event type every template is validated against
PROPS = {
    's': ('string:0:mc:u', False, False),      # name: (data type, optional, multivalued)
    't': ('string:0:mc:u', True, False),
    'm': ('string:0:mc:u', True, True),
    'b': ('boolean', True, False),
    'bm': ('boolean', True, True),
    'd1': ('datetime', True, False),
    'd2': ('datetime', True, False),
    'f': ('number:float:signed', True, True),
    'g': ('geo:point', True, False),
    'n': ('number:tinyint', True, True),
}
ATTACHMENTS = ['a', 'a2']
VALUES = {
    's': ['alpha', 'Beta gamma', 'x', '[[t]]', '{[[m]]}'], 't': ['tee', 'T', '[[s]]'], 'm': ['m1', 'm2', 'm3', '[[t]]'], 'b': ['true', 'false'], 'bm': ['true', 'false'],
    'd1': ['2020-01-01T10:00:00.000000Z', '1999-12-31T23:59:59.999999Z'], 'd2': ['2020-01-02T11:30:15.000000Z', '2021-03-04T05:06:07.123456Z', '2020-01-01T10:00:00.000000Z', '2020-01-01T10:00:07.500000Z'],
    'f': ['1.500000E+00', '-2.500000E-03', '1.000000E+10'], 'g': ['52.123456,4.123456', '-10.500000,-20.250000'], 'n': ['0', '7', '255'],
}
TEXTS = ['', ' ', 'was seen by ', ', ', ' and ', 'X', ' (', ')', ' [x] ', ': ', '.', ' - ', 'é ', '100% ', 'a]b', 'a[b',
         '[', ']', '[[', ']]', 'x [', '] y', ',', ':', '[[s', 't]]', '[]']
FRAGMENTS = ['[[', ']]', '[', ']', '{', '}', 's', 't', 'm', 'b', 'd1', 'd2', 'a', 'merge:', 'empty:', 'unless_empty:', 'url:',
             'boolean_on_off:', 'date_time:', 'attachment:', ',', ':', ' ', 'x', 'year', '[[s]]', '[[t]]', '{[[m]]}', '[[merge:s,t]]']
ACCURACY = ['year', 'month', 'date', 'hour', 'minute', 'second', 'millisecond', 'microsecond']


# ---- template ASTs ------------------------------------------------------------------------------------
# node: ['text', str] | ['ph', formatter|None, [args]] | ['scope', [nodes]]

def gen_placeholder(rng, valid_bias=0.85):
    ok = rng.random() < valid_bias
    strs = ['s', 't', 'm', 'n', 'f', 'g']
    kind = rng.choice(['plain', 'plain', 'plain', 'merge', 'empty', 'unless_empty', 'url', 'boolean_string_choice', 'boolean_on_off',
                       'boolean_is_is_not', 'date_time', 'time_span', 'duration', 'attachment'])
    anyp = lambda: rng.choice(list(PROPS))   # noqa: E731
    if kind == 'plain':
        args = [anyp()] if ok else rng.choice([['zz'], [''], [anyp(), anyp()], ['s', 'extra']])
        return ['ph', None, args]
    if kind == 'merge':
        args = rng.sample(strs, rng.randint(1, 3)) if ok else rng.choice([[], ['zz'], ['s', 'zz']])
    elif kind == 'empty':
        args = [anyp(), rng.choice(['nothing', 'n/a', 'none at all'])] if ok else rng.choice([[anyp()], ['zz', 'x'], [anyp(), 'x', 'y']])
    elif kind == 'unless_empty':
        args = rng.sample(list(PROPS), rng.randint(1, 3)) + [rng.choice(['present', 'coming from'])] if ok else rng.choice([['s'], ['zz', 'x'], []])
    elif kind == 'url':
        args = [rng.choice(strs), rng.choice(['link', 'see here'])] if ok else rng.choice([[anyp()], ['zz', 'x'], [anyp(), 'x', 'y']])
    elif kind == 'boolean_string_choice':
        args = [rng.choice(['b', 'bm']), 'yes', 'no'] if ok else rng.choice([['s', 'yes', 'no'], ['b', 'yes'], ['zz', 'a', 'b'], ['b', 'a', 'b', 'c']])
    elif kind in ('boolean_on_off', 'boolean_is_is_not'):
        args = [rng.choice(['b', 'bm'])] if ok else rng.choice([['s'], [], ['b', 'x'], ['zz']])
    elif kind == 'date_time':
        args = [rng.choice(['d1', 'd2']), rng.choice(ACCURACY)] if ok else rng.choice([['d1'], ['s', 'year'], ['d1', 'decade'], ['zz', 'year']])
    elif kind in ('time_span', 'duration'):
        # also the same property twice (an empty duration) and the later instant first
        args = rng.choice([['d1', 'd2'], ['d1', 'd2'], ['d1', 'd1'], ['d2', 'd1']]) if ok else rng.choice([['d1'], ['d1', 's'], ['d1', 'd2', 'x'], ['zz', 'd2']])
    else:
        args = [rng.choice(ATTACHMENTS)] if ok else rng.choice([['zz'], [], ['a', 'x']])
    if not ok and rng.random() < 0.2:
        kind = rng.choice(['bogus', 'Merge', ''])
    return ['ph', kind, args]


def gen_nodes(rng, depth, valid_bias):
    nodes = []
    for _ in range(rng.randint(1, 4)):
        r = rng.random()
        if r < 0.35:
            nodes.append(['text', rng.choice(TEXTS)])
        elif r < 0.8 or depth >= 4:
            nodes.append(gen_placeholder(rng, valid_bias))
        else:
            nodes.append(['scope', gen_nodes(rng, depth + 1, valid_bias)])
    return nodes


def render(nodes):
    out = []
    for n in nodes:
        if n[0] == 'text':
            out.append(n[1])
        elif n[0] == 'ph':
            out.append('[[' + ((n[1] + ':') if n[1] is not None else '') + ','.join(n[2]) + ']]')
        else:
            out.append('{' + render(n[1]) + '}')
    return ''.join(out)


# ---- event type and events ------------------------------------------------------------------------------

def build_ontology():
    from edxml.ontology import Ontology
    o = Ontology()
    et = o.create_event_type('t')
    for i, (name, (dt, optional, multi)) in enumerate(PROPS.items()):
        o.create_object_type('o.' + name, data_type=dt)
        p = et.create_property(name, 'o.' + name)
        if optional:
            p.make_optional()
        if multi:
            p.make_multivalued()
    for a in ATTACHMENTS:
        et.create_attachment(a)
    o.create_event_source('/s/')
    return o


def gen_event(rng):
    props = [['s', [rng.choice(VALUES['s'])]]]
    for name, (dt, optional, multi) in PROPS.items():
        if name == 's' or rng.random() < 0.45:
            continue
        k = rng.randint(1, 2) if multi else 1
        props.append([name, rng.sample(VALUES[name], min(k, len(VALUES[name])))])
    ev = {'type': 't', 'source': '/s/', 'props': props}
    atts = []
    for a in ATTACHMENTS:
        if rng.random() < 0.4:
            atts.append([a, [['id%d' % i, rng.choice(['attached text', 'more'])] for i in range(rng.randint(1, 2))]])
    if atts:
        ev['atts'] = atts
    return ev


# ---- the reference: what the documentation says a template evaluates to --------------------------------
# returns a regular expression (opaque renderings of dates and durations are wildcards) or None for ''

class Invalid(Exception):
    pass


def ref_scan(s):
    """A brace-free string as text and placeholders: a placeholder is `[[`, then characters other than `]`, then `]]`."""
    nodes, i, text = [], 0, ''
    while True:
        j = s.find('[[', i)
        if j < 0:
            text += s[i:]
            break
        k = s.find(']', j + 2)
        if k < 0:
            text += s[i:]
            break
        if s[k:k + 2] == ']]':
            text += s[i:j]
            if text:
                nodes.append(['text', text])
                text = ''
            inner = s[j + 2:k]
            if ':' in inner:
                f, a = inner.split(':', 1)
            else:
                f, a = None, inner
            nodes.append(['ph', f, a.split(',') if a != '' else []])
            i = k + 2
        else:
            # the first ] after [[ is not doubled: no placeholder can start before it
            text += s[i:k + 1]
            i = k + 1
    if text:
        nodes.append(['text', text])
    return nodes


def ref_parse(tpl):
    """The syntax tree of a template string; Invalid when the curly brackets are not balanced."""
    stack = [[]]
    cur = ''
    for c in tpl:
        if c in '{}':
            stack[-1].extend(ref_scan(cur) if cur else [])
            if not cur:
                stack[-1].append(['text', ''])
            cur = ''
            if c == '{':
                stack.append([])
            else:
                if len(stack) == 1:
                    raise Invalid('unbalanced')
                inner = stack.pop()
                stack[-1].append(['scope', inner])
        else:
            cur += c
    if len(stack) != 1:
        raise Invalid('unbalanced')
    stack[-1].extend(ref_scan(cur))
    return stack[0]


def ref_validate(nodes):
    for n in nodes:
        if n[0] == 'scope':
            ref_validate(n[1])
        elif n[0] == 'ph':
            f, args = n[1], n[2]
            known = ('time_span', 'date_time', 'duration', 'merge', 'attachment', 'boolean_string_choice', 'boolean_on_off',
                     'boolean_is_is_not', 'empty', 'unless_empty', 'url')
            if f is not None and f not in known:
                raise Invalid('formatter')
            nprops = {None: 1, 'time_span': 2, 'date_time': 1, 'duration': 2, 'boolean_string_choice': 1, 'boolean_on_off': 1,
                      'boolean_is_is_not': 1, 'empty': 1, 'attachment': 0, 'url': 1}
            nargs = {'time_span': 2, 'date_time': 2, 'duration': 2, 'boolean_string_choice': 3, 'boolean_on_off': 1, 'boolean_is_is_not': 1,
                     'empty': 2, 'attachment': 1, 'url': 2}
            if f == 'merge':
                if not args:
                    raise Invalid('merge needs properties')
                pargs, oargs = args, []
            elif f == 'unless_empty':
                if len(args) < 2:
                    raise Invalid('unless_empty needs two')
                pargs, oargs = args[:-1], args[-1:]
            else:
                if len(args) < nprops[f]:
                    raise Invalid('too few')
                pargs, oargs = args[:nprops[f]], args[nprops[f]:]
            for p in pargs:
                if p == '' or p not in PROPS:
                    raise Invalid('property')
            if f in nargs and len(args) != nargs[f]:
                raise Invalid('count')
            if f in ('time_span', 'date_time', 'duration') and any(PROPS[p][0] != 'datetime' for p in pargs):
                raise Invalid('not datetime')
            if f in ('boolean_string_choice', 'boolean_on_off', 'boolean_is_is_not') and any(PROPS[p][0] != 'boolean' for p in pargs):
                raise Invalid('not boolean')
            if f == 'date_time' and oargs[0] not in ACCURACY:
                raise Invalid('accuracy')
            if f == 'attachment' and oargs[0] not in ATTACHMENTS:
                raise Invalid('attachment')


def join_objects(strings):
    """'a', 'a and b', 'a, b and c' (regex pieces)"""
    if len(strings) == 1:
        return strings[0]
    return ', '.join(strings[:-1]) + ' and ' + strings[-1]


def geo_text(v):
    lat, lon = v.split(',')

    def dms(x):
        x = float(x)
        deg = int(x)
        mi = int((x - deg) * 60.0)
        sec = int((x - deg - (mi / 60.0)) * 3600.0)
        return deg, mi, sec
    a, b = dms(lat), dms(lon)
    return '%d°%d′%d %s″ %d°%d′%d %s″' % (a[0], a[1], a[2], 'N' if a[0] > 0 else 'S', b[0], b[1], b[2], 'E' if b[0] > 0 else 'W')


def ph_strings(n, objs, atts):
    """The list of (regex) strings a placeholder stands for; objs: property -> list in the order the event yields them."""
    f, args = n[1], n[2]
    esc = re.escape
    if f is None:
        p = args[0]
        vals = objs.get(p, [])
        if PROPS[p][0].startswith('number:float'):
            return [esc(v) for v in objs.get(p + '#fixed', [])]
        if PROPS[p][0] == 'geo:point':
            return [esc(geo_text(v)) for v in vals]
        return [esc(v) for v in vals]
    if f == 'merge':
        out = []
        for p in args:
            vals = objs.get(p, [])
            out += [esc(v) for v in objs.get(p + '#fixed', [])] if PROPS[p][0].startswith('number:float') else [esc(v) for v in vals]
        return out
    if f == 'empty':
        return [esc(args[1])] if not objs.get(args[0]) else []
    if f == 'unless_empty':
        return [esc(args[-1])] if any(objs.get(p) for p in args[:-1]) else []
    if f == 'url':
        vals = objs.get(args[0] + '#fixed', []) if PROPS[args[0]][0].startswith('number:float') else objs.get(args[0], [])
        return [esc('%s (%s)' % (args[1], v)) for v in vals]
    if f == 'boolean_string_choice':
        return [esc(args[1] if v == 'true' else args[2]) for v in objs.get(args[0], [])]
    if f == 'boolean_on_off':
        return [esc('on' if v == 'true' else 'off') for v in objs.get(args[0], [])]
    if f == 'boolean_is_is_not':
        return [esc('is' if v == 'true' else 'is not') for v in objs.get(args[0], [])]
    if f == 'date_time':
        return ['[^{}]+?' for _ in objs.get(args[0], [])]
    if f in ('time_span', 'duration'):
        return ['[^{}]+?'] if objs.get(args[0]) and objs.get(args[1]) else []
    if f == 'attachment':
        return [esc('\n\n' + v + '\n\n') for v in atts.get(args[0], [])]
    raise Invalid('unknown')


def ref_eval(nodes, objs, atts):
    """Regex for the evaluation of a scope's content; '' when the scope collapses."""
    # a scope is a sequence of plain strings (text and placeholders) and sub-scopes; a plain string with a placeholder
    # that has no value makes the whole scope collapse
    out = ''
    run = []

    def flush():
        nonlocal out
        if not run:
            return True
        piece = ''
        has_content = False
        for n in run:
            if n[0] == 'text':
                piece += re.escape(n[1])
                has_content = has_content or n[1] != ''
            else:
                strings = ph_strings(n, objs, atts)
                if not strings or all(s == '' for s in strings):
                    return False
                piece += join_objects(strings)
                has_content = True
        run.clear()
        if has_content and piece == '':
            return False
        out += piece
        return True
    for n in nodes:
        if n[0] == 'scope':
            if not flush():
                return ''
            out += ref_eval(n[1], objs, atts)
        else:
            run.append(n)
    if not flush():
        return ''
    return out


def rel_ok(tpl):
    """can be the description of a property relation: a normalised XML token of at most 255 characters"""
    return len(tpl) <= 255 and ' '.join(tpl.split()) == tpl and tpl != ''


def state_of(e):
    """The event as its API shows it and, for the XML-backed representations, as the element a writer gets holds it."""
    from vf.props import c07
    view = {'api': gen.event_view(e)}
    if hasattr(e, 'get_element'):
        try:
            view['xml'] = c07.element_view(e)
        except Exception as ex:
            view['xml'] = 'err:' + type(ex).__name__
    return view


def cap(s):
    return s[:1].upper() + s[1:] if s else s


class C16(Property):
    id = 'C16'
    title = 'A validated template always evaluates; evaluating never changes the event'
    design_ref = 'DESIGN.md section 10, C16'
    required_theorems = ('validated_evaluates', 'validated_string_evaluates', 'placeholders_found_alike',
                         'validation_judges_what_is_evaluated', 'scan_loses_nothing', 'collapse_iff', 'renders_every_object',
                         'evalNodes_total_on_valid', 'scope_collapse_is_local', 'validate_sound', 'valid_placeholder_has_arguments')
    level_text = ('Lean 4 theorems over a model of templates as strings (cutting into scopes, the placeholder expressions of '
                  'validator and evaluator, _parse_placeholder, Template.validate and Template.evaluate): if a template string '
                  'passes validation for an event type, evaluating it for any event whose boolean and datetime objects are valid '
                  'yields a string (no error branch is reachable); the validator, which searches the whole template, judges '
                  'exactly the placeholders the evaluator finds between the curly brackets; scanning loses no character; a '
                  'string of a scope evaluates to the empty string exactly when one of its placeholders has no value, and then '
                  'exactly that scope is omitted while the enclosing scopes carry on; a placeholder without formatter (and merge) '
                  'stands for every object of its properties. Compared with Template.validate / evaluate and '
                  'EventType.evaluate_template on templates generated from the grammar (every formatter with valid and invalid '
                  'argument lists, scopes to depth 4, adjacent placeholders, literal brackets in every position, strings of raw '
                  'fragments) and events of all three representations (object values that look like placeholders included), '
                  'including the event state before and after, against an independent reference parser and evaluator.')
    level_note = ('Proof is about the model. The rendering of dates, durations, floats and coordinates is an input of the model '
                  '(judged by the reference evaluator where it is a pure function, wildcarded for dateutil output); that '
                  'evaluation does not mutate the event it is given is runtime behaviour checked by the correspondence (state '
                  'before = state after); colourised output and generate_collapsed_templates are not modelled.')
    technique = 'Lean 4 proof (totality of evaluation on validated templates by structural induction; collapse characterisation) + differential correspondence'
    parallel = True
    assumptions = ('events are valid for the event type',)

    def rule(self):
        return ('cases: (template syntax tree incl. invalid argument lists, events); observed: validation verdict; for accepted '
                'templates and each event x representation: the evaluation result or exception via Template.evaluate and via '
                'EventType.evaluate_template (as story) and PropertyRelation.evaluate_description, repeated twice, and the event view before/after; '
                'non-trivial = an accepted template with a scope and an event that lacks a property a placeholder in a scope refers to; distinct by content')

    def generate(self, rng, tier):
        n = 250 if tier == 'quick' else 6000
        for i in range(n):
            bias = 0.97 if i % 3 else 0.6
            if i % 5 == 4:
                # the template as a string of fragments: brackets in every position
                tpl = ''.join(rng.choice(FRAGMENTS) for _ in range(rng.randint(1, 9)))
            elif i % 7 == 6:
                # one property mentioned twice: by a placeholder that takes any property, and by one that demands a data type
                # the property does not have (in either order; each mention has to be checked on its own)
                x = rng.choice(['s', 't', 'm', 'n', 'f', 'g'])
                free = rng.choice([['ph', None, [x]], ['ph', 'merge', [x]], ['ph', 'empty', [x, 'nothing']],
                                   ['ph', 'unless_empty', [x, 'present']], ['ph', 'url', [x, 'link']]])
                typed = rng.choice([['ph', 'date_time', [x, 'second']], ['ph', 'time_span', ['d1', x]], ['ph', 'duration', [x, 'd2']],
                                    ['ph', 'boolean_on_off', [x]], ['ph', 'boolean_is_is_not', [x]],
                                    ['ph', 'boolean_string_choice', [x, 'yes', 'no']]])
                pair = [free, ['text', rng.choice(TEXTS[:12])], typed]
                if rng.random() < 0.4:
                    pair.reverse()
                if rng.random() < 0.3:
                    pair[2] = ['scope', [pair[2]]]
                tpl = render(pair)
            else:
                tpl = render(gen_nodes(rng, 0, bias))
            yield {'template': tpl, 'events': [gen_event(rng) for _ in range(3)], 'rep': ['plain', 'element', 'parsed'][i % 3]}

    # -- implementation
    def observe(self, case):
        from edxml import Template
        from edxml.error import EDXMLOntologyValidationError
        tpl = case['template']
        self.other_definition()
        o = build_ontology()
        et = o.get_event_type('t')
        try:
            Template(tpl).validate(et)
            verdict = 'ok'
        except EDXMLOntologyValidationError:
            verdict = 'invalid'
        except Exception as ex:
            verdict = 'raised:' + type(ex).__name__
        if verdict != 'ok':
            return {'template': tpl, 'verdict': verdict, 'evals': []}
        evals = []
        relation = et['s'].relate_to('related to', 't', reason=tpl) if rel_ok(tpl) else None
        for ev in case['events']:
            e = gen.build_event(ev, case['rep'])
            before = state_of(e)
            order = {k: [str(x) for x in v] for k, v in e.get_properties().items()}
            for k in list(order):
                if PROPS[k][0].startswith('number:float'):
                    # floats are shown in fixed point notation, as a new set: its iteration order is what is joined
                    order[k + '#fixed'] = list({'%f' % float(x) for x in e.get_properties()[k]})
            outs = []
            for attempt in range(2):
                try:
                    outs.append(Template(tpl).evaluate(et, e.get_properties(), e.get_attachments(), capitalize=False))
                except Exception as ex:
                    outs.append('raised:' + type(ex).__name__)
            try:
                et.set_story_template(tpl)
                self.refused_evaluation(et)
                outs.append(et.evaluate_template(e, 'story', capitalize=True))
            except Exception as ex:
                outs.append('raised:' + type(ex).__name__)
            try:
                # the same template as the description of a property relation (evaluated without attachments)
                outs.append(relation.evaluate_description(e.get_properties(), capitalize=False) if relation is not None else 'n/a')
            except Exception as ex:
                outs.append('raised:' + type(ex).__name__)
            after = state_of(e)
            evals.append({'outs': outs, 'unchanged': before == after, 'order': order,
                          'changed': None if before == after else [before, after]})
        return {'template': tpl, 'verdict': verdict, 'evals': evals}

    # -- model
    @staticmethod
    def env_of(ev, rep):
        """What the model takes as input about an event: objects in the order the event yields them, and how dates,
        spans, durations, floats and coordinates are written out (computed here, not by the SDK)."""
        from datetime import datetime
        from dateutil import relativedelta
        e = gen.build_event(ev, rep)
        raw = {k: [str(x) for x in v] for k, v in e.get_properties().items()}
        shown = {}
        for k, vals in list(raw.items()):
            if PROPS[k][0].startswith('number:float'):
                shown[k] = list({'%f' % float(x) for x in e.get_properties()[k]})
                raw[k] = shown[k]
            elif PROPS[k][0] == 'geo:point':
                shown[k] = [geo_text(v) for v in vals]
            else:
                shown[k] = vals
        atts = {k: list(v.values()) for k, v in e.get_attachments().items()}

        def dt(v):
            return datetime.strptime(v, '%Y-%m-%dT%H:%M:%S.%fZ')
        fmt = {'microsecond': '%A, %B %d %Y at %H:%M:%S.%fh', 'second': '%A, %B %d %Y at %H:%M:%Sh', 'minute': '%A, %B %d %Y at %H:%Mh',
               'hour': '%A, %B %d %Y at %Hh', 'date': '%A, %B %d %Y', 'month': '%B %Y', 'year': '%Y'}
        dates, spans, durations = [], [], []
        dvals = [v for k in ('d1', 'd2') for v in raw.get(k, [])]
        for v in dvals:
            for acc in ACCURACY:
                if acc == 'millisecond':
                    dates.append([acc, v, dt(v).strftime('%A, %B %d %Y at %H:%M:%S.') + dt(v).strftime('%f')[:3] + 'h'])
                else:
                    dates.append([acc, v, dt(v).strftime(fmt[acc])])
        for a in dvals:
            for b in dvals:
                # dateutil yields timezone aware datetimes for the trailing Z
                iso = lambda x: dt(x).isoformat(' ') + '+00:00'   # noqa: E731
                spans.append([a, b, 'between %s and %s' % (iso(a), iso(b))])
                d = relativedelta.relativedelta(dt(b), dt(a))
                if d.minutes > 0:
                    if d.hours > 0:
                        if d.days > 0:
                            if d.months > 0:
                                if d.years > 0:
                                    t = '%d years, %d months, %d days, %d hours, %d minutes and %d seconds' % (d.years, d.months, d.days, d.hours, d.minutes, d.seconds)
                                else:
                                    t = '%d months, %d days, %d hours, %d minutes and %d seconds' % (d.months, d.days, d.hours, d.minutes, d.seconds)
                            else:
                                t = '%d days, %d hours, %d minutes and %d seconds' % (d.days, d.hours, d.minutes, d.seconds)
                        else:
                            t = '%d hours, %d minutes and %d seconds' % (d.hours, d.minutes, d.seconds)
                    else:
                        t = '%d minutes and %d seconds' % (d.minutes, d.seconds)
                else:
                    t = '%d.%d seconds' % (d.seconds, d.microseconds)
                durations.append([a, b, t])
        return {'shown': [[k, v] for k, v in shown.items()], 'raw': [[k, v] for k, v in raw.items()], 'atts': [[k, v] for k, v in atts.items()],
                'dates': dates, 'spans': spans, 'durations': durations}

    @staticmethod
    def other_definition():
        """Another ontology in the same process defines an event type of the same name and version whose properties have other
        data types, and evaluates a template for it: what is evaluated afterwards must not depend on that."""
        from edxml.ontology import Ontology
        from edxml import Template
        from edxml.event import EDXMLEvent
        try:
            o = Ontology()
            et = o.create_event_type('t')
            for name in PROPS:
                o.create_object_type('alt.' + name, data_type='number:float' if name in ('s', 't', 'n') else 'string:0:mc:u')
                et.create_property(name, 'alt.' + name).make_optional().make_multivalued()
            ev = EDXMLEvent({name: ['1.5'] if name in ('s', 't', 'n') else ['text'] for name in PROPS}, 't', '/s/')
            Template(' '.join('[[%s]]' % name for name in PROPS)).evaluate(et, ev.get_properties(), {}, capitalize=False)
        except Exception:
            pass

    @staticmethod
    def refused_evaluation(et):
        """The story of the event type is evaluated for an event whose values cannot be rendered (this raises); the event type is
        used again afterwards."""
        from edxml.event import EDXMLEvent
        try:
            # (values that can be prepared for display, but not rendered by the date, boolean and coordinate formatters)
            bad = EDXMLEvent({'s': ['POISON'], 't': ['POISON'], 'm': ['POISON'], 'd1': ['yesterday'], 'd2': ['never'], 'b': ['maybe'],
                              'bm': ['maybe'], 'g': ['nowhere'], 'f': ['2.500000E+00'], 'n': ['9']}, 't', '/s/')
            et.evaluate_template(bad, 'story')
        except Exception:
            pass

    def requests(self, case):
        envs = [self.env_of(ev, case['rep']) for ev in case['events']]
        req = {'op': 'template', 'template': case['template'], 'props': [[k, v[0]] for k, v in PROPS.items()], 'attachments': ATTACHMENTS}
        return [dict(req, envs=envs), dict(req, envs=[dict(env, atts=[]) for env in envs])]

    def predict(self, case, replies):
        r = replies[0]
        tpl = case['template']
        if not r['valid']:
            return {'template': tpl, 'verdict': 'invalid', 'evals': []}
        evals = []
        for out, bare in zip(r['outs'], replies[1]['outs']):
            if isinstance(out, dict):
                s = out['ok']
                evals.append({'outs': [s, s, cap(s), 'n/a' if not rel_ok(tpl) else bare['ok'] if isinstance(bare, dict) else 'model:' + bare],
                              'unchanged': True, 'order': 'undecided', 'changed': None})
            else:
                evals.append({'outs': ['model:' + out] * 4, 'unchanged': True, 'order': 'undecided', 'changed': None})
        return {'template': tpl, 'verdict': 'ok', 'evals': evals}

    def fill_undecided(self, case, obs, pred):
        for o, p in zip(obs.get('evals', []), pred.get('evals', [])):
            p['order'] = o['order']
        return pred

    # -- oracle
    def oracle(self, case, obs):
        tpl = obs['template']
        try:
            nodes = ref_parse(tpl)
            ref_validate(nodes)
            want = 'ok'
        except Invalid:
            want = 'invalid'
        if obs['verdict'].startswith('raised:'):
            return 'validating %r raised %s' % (tpl, obs['verdict'][7:])
        if obs['verdict'] != want:
            if want == 'invalid':
                # accepted although a placeholder is not valid: say what evaluation then does
                for ev, r in zip(case['events'], obs['evals']):
                    for out in r['outs']:
                        if isinstance(out, str) and out.startswith('raised:'):
                            return 'template %r passes validation; evaluating it for %s event %s raised %s' % (
                                tpl, case['rep'], json.dumps(ev, ensure_ascii=False)[:300], out[7:])
            return 'template %r is %s but validation says %s' % (tpl, 'valid' if want == 'ok' else 'not valid', obs['verdict'])
        if want != 'ok':
            return None
        for ev, r in zip(case['events'], obs['evals']):
            objs = r['order']
            atts = {k: [v for _i, v in items] for k, items in ev.get('atts', [])}
            where = 'template %r, %s event %s' % (tpl, case['rep'], json.dumps(ev, ensure_ascii=False)[:300])
            if not r['unchanged']:
                return '%s: evaluating the template changed the event: %s' % (where, json.dumps(r['changed'], ensure_ascii=False)[:300])
            for out in r['outs']:
                if isinstance(out, str) and out.startswith('raised:'):
                    return '%s: evaluation raised %s' % (where, out[7:])
            # floats are shown with six decimals; the second evaluation must equal the first
            if r['outs'][0] != r['outs'][1]:
                return '%s: evaluating twice gives %r and then %r' % (where, r['outs'][0], r['outs'][1])
            pattern = ref_eval(nodes, objs, atts)
            got = r['outs'][0]
            if pattern == '':
                if got != '':
                    return '%s: every placeholder of the outer scope... expected the empty string, got %r' % (where, got)
            elif not re.fullmatch(pattern, got, re.S):
                return '%s: evaluates to %r, expected something matching %r' % (where, got, pattern[:300])
            bare = ref_eval(nodes, objs, {})
            if r['outs'][3] == 'n/a':
                pass
            elif (bare == '') != (r['outs'][3] == '') or (bare and not re.fullmatch(bare, r['outs'][3], re.S)):
                return '%s: as a relation description it evaluates to %r, expected something matching %r' % (where, r['outs'][3], bare[:300])
            if r['outs'][2] != cap(got) and not got.startswith('\n'):
                return '%s: EventType.evaluate_template gives %r, Template.evaluate %r' % (where, r['outs'][2], got)
        return None

    def neighbours(self, case, rng):
        return [dict(case, events=[gen_event(rng) for _ in range(3)]) for _ in range(20)]

    def reductions(self, case):
        evs = case['events']
        for i in range(len(evs)):
            if len(evs) > 1:
                yield dict(case, events=evs[:i] + evs[i + 1:])

    def nontrivial_obs(self, case, obs):
        # an accepted template with a scope, and an event that lacks a property a placeholder inside a scope refers to
        if not isinstance(obs, dict) or obs.get('verdict') != 'ok' or '{' not in case['template']:
            return None
        try:
            nodes = ref_parse(case['template'])
        except Invalid:
            return None
        inside = set()

        def walk(ns, depth):
            for n in ns:
                if n[0] == 'scope':
                    walk(n[1], depth + 1)
                elif n[0] == 'ph' and depth > 0:
                    inside.update(a for a in n[2] if a in PROPS)
        walk(nodes, 0)
        for ev in case['events']:
            have = {k for k, v in ev['props'] if v}
            if inside - have:
                return json.dumps(case, sort_keys=True)
        return None

    def sample_view(self, case):
        return {'template': case['template']}


PROPERTY = C16()
