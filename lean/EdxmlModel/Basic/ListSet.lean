/-
Finite sets as strictly sorted, duplicate-free lists.

Python `set`s whose iteration order must not matter are modelled as the canonical
(strictly sorted) list of their members under a Boolean strict total order `lt`.
`sorted(set(xs))` in Python is `canon lt xs` here.
-/
namespace Edxml

/-- Insert `x` into a strictly sorted list, dropping it when already present. -/
def insertU (lt : α → α → Bool) (x : α) : List α → List α
  | [] => [x]
  | y :: ys =>
    if lt x y then x :: y :: ys
    else if lt y x then y :: insertU lt x ys
    else y :: ys

/-- `sorted(set(l))`. -/
def canon (lt : α → α → Bool) (l : List α) : List α := l.foldr (insertU lt) []

/-- Set union of two canonical lists (`a | b`). -/
def unionU (lt : α → α → Bool) (a b : List α) : List α := canon lt (a ++ b)

/-- Lexicographic strict order on lists, from a strict order on elements. -/
def lexLt (lt : α → α → Bool) : List α → List α → Bool
  | [], [] => false
  | [], _ :: _ => true
  | _ :: _, [] => false
  | a :: as, b :: bs => lt a b || (!lt b a && lexLt lt as bs)

/-- Byte strings compare like Python `bytes`: lexicographically by unsigned byte value. -/
def bytesLt (a b : List UInt8) : Bool := lexLt (fun x y => decide (x < y)) a b

/-- Python `str` ordering: lexicographic by code point. -/
def strLt (a b : String) : Bool := lexLt (fun x y => decide (x.toNat < y.toNat)) a.toList b.toList

/-- `sorted(set(strs))` for Python strings. -/
def canonS (l : List String) : List String := canon strLt l

end Edxml
