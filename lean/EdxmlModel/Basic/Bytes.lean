/-
Bytes, hexadecimal, UTF-8 and base64 helpers (import-free).
-/
namespace Edxml

abbrev Bytes := List UInt8

/-- UTF-8 encoding of one Unicode scalar value, written out arithmetically so that
facts about the produced bytes can be proved by case analysis and `omega`. -/
def utf8Char (c : Char) : Bytes :=
  let n := c.toNat
  if n < 0x80 then [UInt8.ofNat n]
  else if n < 0x800 then [UInt8.ofNat (0xC0 + n / 64), UInt8.ofNat (0x80 + n % 64)]
  else if n < 0x10000 then
    [UInt8.ofNat (0xE0 + n / 4096), UInt8.ofNat (0x80 + n / 64 % 64), UInt8.ofNat (0x80 + n % 64)]
  else
    [UInt8.ofNat (0xF0 + n / 262144), UInt8.ofNat (0x80 + n / 4096 % 64),
     UInt8.ofNat (0x80 + n / 64 % 64), UInt8.ofNat (0x80 + n % 64)]

/-- Python `str.encode()` (UTF-8) for strings without lone surrogates. -/
def utf8 (s : String) : Bytes := s.toList.flatMap utf8Char

def hexDigit (n : Nat) : Char :=
  if n < 10 then Char.ofNat (48 + n) else Char.ofNat (87 + n)

def hexOfBytes (b : Bytes) : String :=
  String.ofList (b.flatMap fun x => [hexDigit (x.toNat / 16), hexDigit (x.toNat % 16)])

def hexVal (c : Char) : Option Nat :=
  let n := c.toNat
  if 48 ≤ n ∧ n ≤ 57 then some (n - 48)
  else if 97 ≤ n ∧ n ≤ 102 then some (n - 87)
  else if 65 ≤ n ∧ n ≤ 70 then some (n - 55)
  else none

def bytesOfHexAux : List Char → Option Bytes
  | [] => some []
  | [_] => none
  | a :: b :: rest => do
    let x ← hexVal a
    let y ← hexVal b
    let r ← bytesOfHexAux rest
    pure (UInt8.ofNat (x * 16 + y) :: r)

def bytesOfHex (s : String) : Option Bytes := bytesOfHexAux s.toList

def b64Char (n : Nat) : Char :=
  if n < 26 then Char.ofNat (65 + n)
  else if n < 52 then Char.ofNat (97 + n - 26)
  else if n < 62 then Char.ofNat (48 + n - 52)
  else if n = 62 then '+' else '/'

/-- Standard base64 with padding, no line breaks. -/
def base64Chars : Bytes → List Char
  | [] => []
  | [a] =>
    let n := a.toNat
    [b64Char (n / 4), b64Char (n % 4 * 16), '=', '=']
  | [a, b] =>
    let n := a.toNat * 256 + b.toNat
    [b64Char (n / 1024), b64Char (n / 16 % 64), b64Char (n % 16 * 4), '=']
  | a :: b :: c :: rest =>
    let n := a.toNat * 65536 + b.toNat * 256 + c.toNat
    b64Char (n / 262144) :: b64Char (n / 4096 % 64) :: b64Char (n / 64 % 64) :: b64Char (n % 64)
      :: base64Chars rest

def base64 (b : Bytes) : String := String.ofList (base64Chars b)

end Edxml
