/-
C16. The textual side of templates (edxml/template.py): how a template string is cut into scopes
(`_split_template`), strings and placeholders (the regular expression `\[\[[^]]*]]`) and how the
inside of a placeholder is read (`_parse_placeholder`).

A placeholder starts at the leftmost `[[` that is followed, after characters other than `]`, by
`]]`; everything else is literal text. The expression cannot match anywhere inside a `[[` whose
first `]` is not doubled, so one left-to-right pass decides every position.
-/
import EdxmlModel.Template.Template
namespace Edxml.Tpl

/-- `str.split(c)` on a list of characters: never empty -/
def splitOnChar (c : Char) : List Char → List (List Char)
  | [] => [[]]
  | x :: xs =>
    if x == c then [] :: splitOnChar c xs else
    match splitOnChar c xs with
    | h :: t => (x :: h) :: t
    | [] => [[x]]

/-- `s.split(':', 1)`: what precedes the first colon and what follows it -/
def splitFirst (c : Char) : List Char → Option (List Char × List Char)
  | [] => none
  | x :: xs =>
    if x == c then some ([], xs) else
    match splitFirst c xs with
    | some (a, b) => some (x :: a, b)
    | none => none

/-- the arguments as the evaluator reads them: `argument_string.split(',')` -/
def rawArgs (cs : List Char) : List String := (splitOnChar ',' cs).map String.ofList

/-- the arguments as `_parse_placeholder` reads them: `['']` counts as no arguments -/
def argsOf (cs : List Char) : List String := if cs.isEmpty then [] else rawArgs cs

/-- `_parse_placeholder` on what is between `[[` and `]]` -/
def parsePh (body : List Char) : Seg :=
  match splitFirst ':' body with
  | some (f, a) => .ph (some (String.ofList f)) (argsOf a)
  | none => .ph none (argsOf body)

/-- what is between `[[` and the next `]]`, and what follows, provided no single `]` comes first -/
def closeOf (cs : List Char) : Option (List Char × List Char) :=
  match (cs.span (· != ']')).2 with
  | ']' :: ']' :: tail => some ((cs.span (· != ']')).1, tail)
  | _ => none

def pushChar (c : Char) : List Seg → List Seg
  | .text s :: r => .text (String.singleton c ++ s) :: r
  | r => .text (String.singleton c) :: r

/-- `re.findall(r'\[\[[^]]*]]', string)` together with the text in between -/
def scanF : Nat → List Char → List Seg
  | 0, _ => []
  | _, [] => []
  | n + 1, c :: cs =>
    if c == '[' && cs.head? == some '[' then
      match closeOf cs.tail with
      | some (body, tail) => parsePh body :: scanF n tail
      | none => pushChar c (scanF n cs)
    else pushChar c (scanF n cs)

def scan (cs : List Char) : List Seg := scanF cs.length cs

/-- the brace-free strings of a template and the curly brackets between them, in order -/
def tokenizeAux : List Char → List Char → List Tok
  | acc, [] => [.run (scan acc.reverse)]
  | acc, c :: cs =>
    if c == '{' then .run (scan acc.reverse) :: .openScope :: tokenizeAux [] cs
    else if c == '}' then .run (scan acc.reverse) :: .closeScope :: tokenizeAux [] cs
    else tokenizeAux (c :: acc) cs

def tokenize (s : String) : List Tok := tokenizeAux [] s.toList

/-- `Template(s).validate(event_type)` -/
def validateStr (et : EType) (s : String) : Bool := validate et (tokenize s)

/-- `Template(s).evaluate(...)` -/
def evaluateStr (env : Env) (s : String) : Except Err String := evaluate env (tokenize s)

end Edxml.Tpl
