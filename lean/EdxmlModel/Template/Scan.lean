/-
C16. The textual side of templates (edxml/template.py): how a template string is cut into scopes
(`_split_template`), strings and placeholders (the regular expressions `\[\[[^]]*]]` of the evaluator
and `\[\[[^]{}]*]]` = TEMPLATE_PATTERN of the validator) and how the inside of a placeholder is read
(`_parse_placeholder`).

A placeholder starts at the leftmost `[[` that is followed, after characters the expression allows,
by `]]`; everything else is literal text. The validator searches the whole template, the evaluator
each string between curly brackets.
-/
import EdxmlModel.Template.Template
namespace Edxml.Tpl

/-- `str.split(c)` on a list of characters: never empty -/
def splitOnChar (c : Char) : List Char → List (List Char)
  | [] => [[]]
  | x :: xs =>
    if x == c then [] :: splitOnChar c xs else
    match splitOnChar c xs with
    | h :: t => (x :: h) :: t
    | [] => [[x]]

/-- `s.split(':', 1)`: what precedes the first colon and what follows it -/
def splitFirst (c : Char) : List Char → Option (List Char × List Char)
  | [] => none
  | x :: xs =>
    if x == c then some ([], xs) else
    match splitFirst c xs with
    | some (a, b) => some (x :: a, b)
    | none => none

/-- the arguments as the evaluator reads them: `argument_string.split(',')` -/
def rawArgs (cs : List Char) : List String := (splitOnChar ',' cs).map String.ofList

/-- the arguments as `_parse_placeholder` reads them: `['']` counts as no arguments -/
def argsOf (cs : List Char) : List String := if cs.isEmpty then [] else rawArgs cs

/-- `_parse_placeholder` on what is between `[[` and `]]` -/
def parsePh (body : List Char) : Seg :=
  match splitFirst ':' body with
  | some (f, a) => .ph (some (String.ofList f)) (argsOf a)
  | none => .ph none (argsOf body)

/-- what may not occur inside a placeholder for the evaluator: `[^]]` -/
def stopEval (c : Char) : Bool := c == ']'
/-- ... and for the validator's TEMPLATE_PATTERN: `[^]{}]` -/
def stopValidate (c : Char) : Bool := c == ']' || c == '{' || c == '}'
def isBrace (c : Char) : Bool := c == '{' || c == '}'

/-- what is between `[[` and the next `]]`, and what follows, provided no other stop character comes first -/
def closeOfBy (stop : Char → Bool) (cs : List Char) : Option (List Char × List Char) :=
  match cs.dropWhile (fun c => !stop c) with
  | ']' :: ']' :: tail => some (cs.takeWhile (fun c => !stop c), tail)
  | _ => none

/-- `re.findall(pattern, string)`: the insides of the matches, leftmost first, not overlapping -/
def findAllF (stop : Char → Bool) : Nat → List Char → List (List Char)
  | 0, _ => []
  | _, [] => []
  | n + 1, c :: cs =>
    if c == '[' && cs.head? == some '[' then
      match closeOfBy stop cs.tail with
      | some (body, tail) => body :: findAllF stop n tail
      | none => findAllF stop n cs
    else findAllF stop n cs

def findAll (stop : Char → Bool) (cs : List Char) : List (List Char) := findAllF stop cs.length cs

def pushChar (c : Char) : List Seg → List Seg
  | .text s :: r => .text (String.singleton c ++ s) :: r
  | r => .text (String.singleton c) :: r

/-- the evaluator's `re.findall(r'(\[\[([^]]*)]])', string)` together with the text in between -/
def scanF : Nat → List Char → List Seg
  | 0, _ => []
  | _, [] => []
  | n + 1, c :: cs =>
    if c == '[' && cs.head? == some '[' then
      match closeOfBy stopEval cs.tail with
      | some (body, tail) => parsePh body :: scanF n tail
      | none => pushChar c (scanF n cs)
    else pushChar c (scanF n cs)

def scan (cs : List Char) : List Seg := scanF cs.length cs

/-- the strings between the curly brackets of a template -/
def runsOf : List Char → List (List Char)
  | [] => [[]]
  | c :: cs =>
    if isBrace c then [] :: runsOf cs else
    match runsOf cs with
    | h :: t => (c :: h) :: t
    | [] => [[c]]

/-- the strings of a template, scanned, and the curly brackets between them, in order -/
def tokenizeAux : List Char → List Char → List Tok
  | acc, [] => [.run (scan acc.reverse)]
  | acc, c :: cs =>
    if c == '{' then .run (scan acc.reverse) :: .openScope :: tokenizeAux [] cs
    else if c == '}' then .run (scan acc.reverse) :: .closeScope :: tokenizeAux [] cs
    else tokenizeAux (c :: acc) cs

def tokenize (s : String) : List Tok := tokenizeAux [] s.toList

/-- the nesting counter of `Template.validate` -/
def braceBalanced : Nat → List Char → Bool
  | d, [] => d == 0
  | d, c :: cs =>
    if c == '{' then braceBalanced (d + 1) cs
    else if c == '}' then (if d == 0 then false else braceBalanced (d - 1) cs)
    else braceBalanced d cs

/-- `Template(s).validate(event_type)`: balanced curly brackets, and every match of TEMPLATE_PATTERN
in the whole template is a valid placeholder -/
def validateStr (et : EType) (s : String) : Bool :=
  braceBalanced 0 s.toList && (findAll stopValidate s.toList).all fun body => validSeg et (parsePh body)

/-- `Template(s).evaluate(...)`: the template is cut into scopes and strings first -/
def evaluateStr (env : Env) (s : String) : Except Err String := evaluate env (tokenize s)

/-- a scanned piece written out again -/
def segText : Seg → String
  | .text t => t
  | .ph f args => "[[" ++ (match f with | some n => n ++ ":" | none => "") ++ String.intercalate "," args ++ "]]"

end Edxml.Tpl
