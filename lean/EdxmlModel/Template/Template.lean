/-
C16. EDXML templates (edxml/template.py): `Template.validate` and `Template.evaluate`.

A template is modelled as the token sequence that `_split_template` sees: plain strings (runs of
literal text and placeholders), `{` and `}`. `_process_split_template` evaluates the strings of a
scope from left to right; a non-empty string that evaluates to the empty string makes its scope
evaluate to the empty string; a nested scope contributes what it evaluates to.
How a date, a time span, a duration, a float or a coordinate is written out is an input of the
model (`Env`).
-/
import EdxmlModel.Event.Merge
namespace Edxml.Tpl
open Edxml

inductive Seg
  | text (s : String)
  | ph (formatter : Option String) (args : List String)
deriving Repr, DecidableEq

inductive Tok
  | run (segs : List Seg)
  | openScope
  | closeScope
deriving Repr, DecidableEq

structure EType where
  /-- property name ↦ data type -/
  props : List (String × String)
  attachments : List String
deriving Repr

def EType.dataType (et : EType) (p : String) : Option String := (et.props.find? (·.1 == p)).map (·.2)

/-! ### validation -/

def knownFormatters : List String :=
  ["time_span", "date_time", "duration", "merge", "attachment", "boolean_string_choice", "boolean_on_off",
   "boolean_is_is_not", "empty", "unless_empty", "url"]

def propertyCount : Option String → Option Nat
  | none => some 1
  | some "time_span" => some 2
  | some "date_time" => some 1
  | some "duration" => some 2
  | some "boolean_string_choice" => some 1
  | some "boolean_on_off" => some 1
  | some "boolean_is_is_not" => some 1
  | some "empty" => some 1
  | some "attachment" => some 0
  | some "url" => some 1
  | some _ => none

def argumentCount : Option String → Option Nat
  | some "time_span" => some 2
  | some "date_time" => some 2
  | some "duration" => some 2
  | some "boolean_string_choice" => some 3
  | some "boolean_on_off" => some 1
  | some "boolean_is_is_not" => some 1
  | some "empty" => some 2
  | some "attachment" => some 1
  | some "url" => some 2
  | _ => none

def accuracies : List String := ["year", "month", "date", "hour", "minute", "second", "millisecond", "microsecond"]

/-- `_get_placeholder_arguments`: (property arguments, other arguments), or `none` when rejected -/
def splitArgs (f : Option String) (args : List String) : Option (List String × List String) :=
  match propertyCount f with
  | some n => if args.length < n then none else some (args.take n, args.drop n)
  | none =>
    if f == some "merge" then (if args.isEmpty then none else some (args, []))
    else if f == some "unless_empty" then (if args.length < 2 then none else some (args.dropLast, [args.getLast!]))
    else none

/-- one placeholder passes `Template.validate` -/
def validPh (et : EType) (f : Option String) (args : List String) : Bool :=
  (match f with | some name => knownFormatters.contains name | none => true) &&
  match splitArgs f args with
  | none => false
  | some (pargs, oargs) =>
    pargs.all (fun p => p != "" && (et.dataType p).isSome) &&
    (match argumentCount f with | some n => args.length == n | none => true) &&
    (if f == some "time_span" || f == some "duration" || f == some "date_time"
      then pargs.all (fun p => et.dataType p == some "datetime") else true) &&
    (if f == some "boolean_string_choice" || f == some "boolean_on_off" || f == some "boolean_is_is_not"
      then pargs.all (fun p => et.dataType p == some "boolean") else true) &&
    (if f == some "date_time" then (match oargs with | a :: _ => accuracies.contains a | [] => false) else true) &&
    (if f == some "attachment" then (match oargs with | a :: _ => et.attachments.contains a | [] => false) else true)

/-- curly brackets are balanced: never more closed than opened, all closed at the end -/
def balanced : Nat → List Tok → Bool
  | d, [] => d == 0
  | d, .openScope :: r => balanced (d + 1) r
  | d, .closeScope :: r => if d == 0 then false else balanced (d - 1) r
  | d, .run _ :: r => balanced d r

def validSeg (et : EType) : Seg → Bool
  | .text _ => true
  | .ph f args => validPh et f args

def tokValid (et : EType) : Tok → Bool
  | .run segs => segs.all (validSeg et)
  | _ => true

def validate (et : EType) (toks : List Tok) : Bool := balanced 0 toks && toks.all (tokValid et)

/-! ### evaluation -/

structure Env where
  /-- what a placeholder without formatter shows for the objects of a property, in the order the
  event yields them (floats in fixed point notation, coordinates in degrees) -/
  shown : String → List String
  /-- the object strings as the formatters see them (floats in fixed point notation) -/
  raw : String → List String
  atts : String → List String
  renderDate : String → String → Option String
  renderSpan : String → String → Option String
  renderDuration : String → String → Option String

inductive Err
  /-- `ValueError`: not a boolean -/
  | badBoolean
  /-- dateutil `ParserError` -/
  | badDate
  /-- tuple unpacking / indexing of the argument list failed, unknown formatter -/
  | badArguments
  | unbalanced
deriving Repr, DecidableEq

inductive PhOut
  | strings (l : List String)
  /-- `return ''`: the string evaluates to nothing -/
  | collapse
  | error (e : Err)
deriving Repr

def mapM' (f : String → Option String) (e : Err) (l : List String) : PhOut :=
  match l.mapM f with
  | some r => .strings r
  | none => .error e

/-- Python `min()` of a set of strings -/
def minStr (l : List String) : Option String :=
  match l with
  | [] => none
  | x :: xs => some (xs.foldl (fun m y => if y < m then y else m) x)

def phOut (env : Env) (f : Option String) (args : List String) : PhOut :=
  match f, args with
  | none, p :: _ => .strings (env.shown p)
  | some "merge", ps => .strings (ps.flatMap env.raw)
  | some "empty", [p, t] => .strings (if (env.raw p).isEmpty then [t] else [])
  | some "unless_empty", ps =>
    match ps.getLast? with
    | some t => .strings (if (ps.dropLast.flatMap env.raw).isEmpty then [] else [t])
    | none => .error .badArguments
  | some "url", [p, name] => .strings ((env.raw p).map fun v => name ++ " (" ++ v ++ ")")
  | some "boolean_string_choice", [p, t, fl] =>
    mapM' (fun v => if v == "true" then some t else if v == "false" then some fl else none) .badBoolean (env.raw p)
  | some "boolean_on_off", p :: _ =>
    mapM' (fun v => if v == "true" then some "on" else if v == "false" then some "off" else none) .badBoolean (env.raw p)
  | some "boolean_is_is_not", p :: _ =>
    mapM' (fun v => if v == "true" then some "is" else if v == "false" then some "is not" else none) .badBoolean (env.raw p)
  | some "date_time", p :: acc :: _ => mapM' (env.renderDate acc) .badDate (env.raw p)
  | some "time_span", a :: b :: _ =>
    match minStr (env.raw a), minStr (env.raw b) with
    | some x, some y => (match env.renderSpan x y with | some s => .strings [s] | none => .error .badDate)
    | _, _ => .collapse
  | some "duration", a :: b :: _ =>
    match minStr (env.raw a), minStr (env.raw b) with
    | some x, some y => (match env.renderDuration x y with | some s => .strings [s] | none => .error .badDate)
    | _, _ => .collapse
  | some "attachment", a :: _ => .strings ((env.atts a).map fun v => "\n\n" ++ v ++ "\n\n")
  | _, _ => .error .badArguments

/-- several objects are listed: `a`, `a and b`, `a, b and c` -/
def joinObjects (l : List String) : String :=
  match l with
  | [] => ""
  | [x] => x
  | _ =>
    if String.join l == "" then "" else
    String.intercalate ", " l.dropLast ++ " and " ++ l.getLast!

inductive StrOut
  | ok (s : String)
  | error (e : Err)
deriving Repr, DecidableEq

/-- the replacements of the placeholders of a string, in order; `none` = the string collapses -/
def replacements (env : Env) : List Seg → Except Err (Option (List String))
  | [] => .ok (some [])
  | .text s :: r =>
    match replacements env r with
    | .ok (some l) => .ok (some (s :: l))
    | other => other
  | .ph f args :: r =>
    match phOut env f args with
    | .error e => .error e
    | .collapse => .ok none
    | .strings l =>
      match replacements env r with
      | .ok (some rest) => .ok (some (joinObjects l :: rest))
      | other => other

def isPh : Seg → Bool
  | .ph .. => true
  | _ => false

/-- `_process_simple_placeholder_string` -/
def evalStr (env : Env) (segs : List Seg) : StrOut :=
  match replacements env segs with
  | .error e => .error e
  | .ok none => .ok ""
  | .ok (some parts) =>
    -- a placeholder that produces the empty string empties the whole string
    if (segs.zip parts).any (fun sp => isPh sp.1 && sp.2 == "") then .ok "" else .ok (String.join parts)

def runText (segs : List Seg) : String :=
  String.join (segs.map fun s => match s with
    | .text t => t
    | .ph f args => "[[" ++ (match f with | some n => n ++ ":" | none => "") ++ String.intercalate "," args ++ "]]")

/-- a scope being evaluated: what it has produced so far, and whether one of its strings came out empty -/
structure Frame where
  acc : String := ""
  dead : Bool := false
deriving Repr, DecidableEq

/-- `_process_split_template` as a machine over the tokens; the stack holds the enclosing scopes -/
def step (env : Env) (stack : List Frame) (t : Tok) : Except Err (List Frame) :=
  match t, stack with
  | .run segs, top :: rest =>
    if top.dead || runText segs == "" then .ok (top :: rest) else
    match evalStr env segs with
    | .error e => .error e
    | .ok "" => .ok ({ top with dead := true } :: rest)
    | .ok s => .ok ({ top with acc := top.acc ++ s } :: rest)
  | .openScope, top :: rest => .ok ({ acc := "", dead := top.dead } :: top :: rest)   -- nothing inside an emptied scope is evaluated
  | .closeScope, top :: parent :: rest =>
    let v := if top.dead then "" else top.acc
    .ok ((if parent.dead then parent else { parent with acc := parent.acc ++ v }) :: rest)
  | _, _ => .error .unbalanced

def runToks (env : Env) : List Frame → List Tok → Except Err (List Frame)
  | stack, [] => .ok stack
  | stack, t :: r =>
    match step env stack t with
    | .ok s => runToks env s r
    | .error e => .error e

/-- `Template.evaluate(..., capitalize=False)` -/
def evaluate (env : Env) (toks : List Tok) : Except Err String :=
  match runToks env [{}] toks with
  | .ok [top] => .ok (if top.dead then "" else top.acc)
  | .ok _ => .error .unbalanced
  | .error e => .error e

end Edxml.Tpl
