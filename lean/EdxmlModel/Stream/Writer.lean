/-
C02. The writer side: `EDXMLWriter.add_ontology` / `add_event` (edxml/writer.py) as a machine that
emits the children of `<edxml>`, and XML character data as lxml serializes and parses it.
-/
import EdxmlModel.Stream.Parser
namespace Edxml

/-! ### character data -/

/-- element text as `etree.xmlfile` / `tostring` write it -/
def escapeText : List Char → List Char
  | [] => []
  | '&' :: r => '&' :: 'a' :: 'm' :: 'p' :: ';' :: escapeText r
  | '<' :: r => '&' :: 'l' :: 't' :: ';' :: escapeText r
  | '>' :: r => '&' :: 'g' :: 't' :: ';' :: escapeText r
  | '\r' :: r => '&' :: '#' :: '1' :: '3' :: ';' :: escapeText r
  | c :: r => c :: escapeText r

/-- attribute values (written between double quotes) -/
def escapeAttr : List Char → List Char
  | [] => []
  | '&' :: r => '&' :: 'a' :: 'm' :: 'p' :: ';' :: escapeAttr r
  | '<' :: r => '&' :: 'l' :: 't' :: ';' :: escapeAttr r
  | '>' :: r => '&' :: 'g' :: 't' :: ';' :: escapeAttr r
  | '"' :: r => '&' :: 'q' :: 'u' :: 'o' :: 't' :: ';' :: escapeAttr r
  | '\n' :: r => '&' :: '#' :: '1' :: '0' :: ';' :: escapeAttr r
  | '\t' :: r => '&' :: '#' :: '9' :: ';' :: escapeAttr r
  | '\r' :: r => '&' :: '#' :: '1' :: '3' :: ';' :: escapeAttr r
  | c :: r => c :: escapeAttr r

/-- what an XML parser makes of character data in element content: the predefined and the numeric
references used above are resolved; a literal carriage return (alone or before a line feed) is a
line feed (XML 1.0 section 2.11) -/
def unescapeText : List Char → List Char
  | [] => []
  | '&' :: 'a' :: 'm' :: 'p' :: ';' :: r => '&' :: unescapeText r
  | '&' :: 'l' :: 't' :: ';' :: r => '<' :: unescapeText r
  | '&' :: 'g' :: 't' :: ';' :: r => '>' :: unescapeText r
  | '&' :: 'q' :: 'u' :: 'o' :: 't' :: ';' :: r => '"' :: unescapeText r
  | '&' :: '#' :: '1' :: '3' :: ';' :: r => '\r' :: unescapeText r
  | '&' :: '#' :: '1' :: '0' :: ';' :: r => '\n' :: unescapeText r
  | '&' :: '#' :: '9' :: ';' :: r => '\t' :: unescapeText r
  | '\r' :: '\n' :: r => '\n' :: unescapeText r
  | '\r' :: r => '\n' :: unescapeText r
  | c :: r => c :: unescapeText r

/-- attribute value normalisation on top of that: literal white space characters become spaces -/
def unescapeAttr : List Char → List Char
  | [] => []
  | '&' :: 'a' :: 'm' :: 'p' :: ';' :: r => '&' :: unescapeAttr r
  | '&' :: 'l' :: 't' :: ';' :: r => '<' :: unescapeAttr r
  | '&' :: 'g' :: 't' :: ';' :: r => '>' :: unescapeAttr r
  | '&' :: 'q' :: 'u' :: 'o' :: 't' :: ';' :: r => '"' :: unescapeAttr r
  | '&' :: '#' :: '1' :: '3' :: ';' :: r => '\r' :: unescapeAttr r
  | '&' :: '#' :: '1' :: '0' :: ';' :: r => '\n' :: unescapeAttr r
  | '&' :: '#' :: '9' :: ';' :: r => '\t' :: unescapeAttr r
  | '\r' :: '\n' :: r => ' ' :: unescapeAttr r
  | '\r' :: r => ' ' :: unescapeAttr r
  | '\n' :: r => ' ' :: unescapeAttr r
  | '\t' :: r => ' ' :: unescapeAttr r
  | c :: r => c :: unescapeAttr r

/-! ### the writer machine -/

inductive WOp
  /-- `add_ontology`: an ontology (update) defining these event types and sources; `ok` = it is
  valid and compatible with what the writer has -/
  | addOntology (types sources : List String) (ok : Bool)
  /-- `add_event` -/
  | addEvent (idx : Nat) (type source : String) (gateOk : Bool)
  | addForeign (idx : Nat)
deriving Repr, DecidableEq

structure WState where
  types : List String := []
  sources : List String := []
  /-- the children of `<edxml>` written so far -/
  out : List Item := []
deriving Repr

/-- one call; a rejected call raises and leaves the output as it was -/
def wstep (validate : Bool) (s : WState) : WOp → WState × Option PErr
  | .addOntology ts ss ok =>
    if ok then
      ({ types := canonS (s.types ++ ts), sources := canonS (s.sources ++ ss), out := s.out ++ [Item.ont .ok ts ss] }, none)
    else (s, some .ontologyValidation)
  | .addEvent i t src g =>
    if !s.sources.contains src then (s, some .eventValidation)
    else if !s.types.contains t then (s, some .eventValidation)
    else if validate && !g then (s, some .eventValidation)
    else ({ s with out := s.out ++ [Item.event i t src g] }, none)
  | .addForeign i => ({ s with out := s.out ++ [Item.foreign i] }, none)

/-- a session: rejected calls are reported to the caller, who carries on -/
def wrun (validate : Bool) (s : WState) (ops : List WOp) : WState :=
  ops.foldl (fun s op => (wstep validate s op).1) s

/-- the indices of the events among the children -/
def eventIdxs (items : List Item) : List Nat :=
  items.filterMap fun it => match it with
    | .event i _ _ _ => some i
    | _ => none

end Edxml
