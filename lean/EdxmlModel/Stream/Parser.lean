/-
C06 / C14 / C19. The EDXML parser state machine: `EDXMLParserBase._parse_edxml`,
`__process_ontology`, `__parse_event`, `_get_event_handlers` (edxml/parser.py).

The machine consumes the *completed* top-level children of `<edxml>` in document order (lxml `end`
events); what lxml has already received of later siblings is not an input of any step — that is
the content of C06 and is what the correspondence check compares under every chunking.
Ontology elements are abstracted to what the parser logic uses: validity, and the event type
names and source URIs they define. The validation gate's verdict on an event is an input bit
(C03 decides it).
-/
import EdxmlModel.Basic.ListSet
namespace Edxml

/-- Validity of an `<ontology>` element: schema-valid and mergeable; schema-valid but rejected by
`Ontology.update`; schema-invalid and rejected by `update`; schema-invalid but accepted by `update`
(both are rejected; the difference only shows in the message). -/
inductive OntV | ok | semFail | schemaSemFail | schemaSemOk
deriving Repr, DecidableEq

inductive Item
  | ont (v : OntV) (types sources : List String)
  | event (idx : Nat) (type source : String) (gateOk : Bool)
  | foreign (idx : Nat)
deriving Repr, DecidableEq

inductive Callback
  | ontology (types sources : List String)
  | handler (h : Nat) (event : Nat)
  | fallback (event : Nat)
  | foreign (idx : Nat)
deriving Repr, DecidableEq

/-- EDXMLValidationError / EDXMLEventValidationError / EDXMLOntologyValidationError -/
inductive PErr | validation | eventValidation | ontologyValidation
deriving Repr, DecidableEq

inductive Kind | ont | event | foreign
deriving Repr, DecidableEq

/-- Registered handlers (ids) and the parser configuration. -/
structure Registry where
  /-- event type name ↦ handler ids in registration order -/
  typeH : List (String × List Nat)
  /-- source pattern ↦ handler ids in registration order; patterns in registration order -/
  srcH : List (String × List Nat)
  /-- pairs (pattern, uri) for which `re.match(pattern, uri)` succeeds -/
  reMatch : List (String × String)
  /-- `_parsed_event` is overridden by the parser class -/
  overridden : Bool
  validate : Bool
deriving Repr

structure PState where
  /-- kinds of the children of the root element that are still in the tree -/
  children : List Kind := []
  ont : Option (List String × List String) := none
  initialSeen : Bool := false
  nEvents : Nat := 0
  typeCount : List (String × Nat) := []
  patMap : List (String × List String) := []
  log : List Callback := []
  /-- (event index, number of children under the root) at the dispatch of each event -/
  sizes : List (Nat × Nat) := []
deriving Repr

def lookupD (k : String) (d : β) : List (String × β) → β
  | [] => d
  | (k', v) :: r => if k' == k then v else lookupD k d r

def setDefault (k : String) (v : Nat) : List (String × Nat) → List (String × Nat)
  | [] => [(k, v)]
  | (k', w) :: r => if k' == k then (k', w) :: r else (k', w) :: setDefault k v r

def increment (k : String) : List (String × Nat) → List (String × Nat)
  | [] => [(k, 1)]
  | (k', w) :: r => if k' == k then (k', w + 1) :: r else (k', w) :: increment k r

/-- `__source_uri_pattern_map` as rebuilt by `__process_ontology`. -/
def buildPatMap (reg : Registry) (sources : List String) : List (String × List String) :=
  reg.srcH.map fun ph => (ph.1, sources.filter fun uri => reg.reMatch.contains (ph.1, uri))

/-- `_get_event_handlers`: type handlers, then the handlers of every matching source pattern. -/
def handlersFor (reg : Registry) (patMap : List (String × List String)) (type source : String) : List Nat :=
  lookupD type [] reg.typeH ++
    reg.srcH.flatMap fun ph => if (lookupD ph.1 [] patMap).contains source then ph.2 else []

def dispatch (reg : Registry) (patMap : List (String × List String)) (idx : Nat) (type source : String) :
    List Callback :=
  match handlersFor reg patMap type source with
  | [] => if reg.overridden then [.fallback idx] else []
  | hs => hs.map fun h => .handler h idx

/-- `__process_ontology`: merge the definitions, initialise counters of new event types, invoke
the ontology callback, rebuild the source pattern map. -/
def processOnt (reg : Registry) (s : PState) (types sources : List String) : PState :=
  let cur := s.ont.getD ([], [])
  let ts := canonS (cur.1 ++ types)
  let ss := canonS (cur.2 ++ sources)
  { s with
    ont := some (ts, ss)
    typeCount := ts.foldl (fun tc t => setDefault t 0 tc) s.typeCount
    log := s.log ++ [Callback.ontology ts ss]
    patMap := buildPatMap reg ss }

/-- Re-processing an ontology element that was merged before changes nothing but invokes the
callback again. -/
def reprocess (reg : Registry) : Nat → PState → PState
  | 0, s => s
  | n + 1, s => reprocess reg n (processOnt reg s [] [])

/-- One `end` event. The state is returned also when an error is raised, so that the callbacks
delivered before the error stay observable. -/
def pstep (reg : Registry) (s : PState) : Item → PState × Option PErr
  | .ont v types sources =>
    let s := { s with children := s.children ++ [Kind.ont] }
    match v with
    | .ok =>
      let s := processOnt reg s types sources
      if s.initialSeen then ({ s with children := s.children.eraseIdx 1 }, none)
      else ({ s with initialSeen := true }, none)
    | .semFail => (s, some .ontologyValidation)
    | .schemaSemFail | .schemaSemOk =>
      -- schema validation failed: the element is tried on a scratch copy of the ontology to obtain a better
      -- message; neither the parser's ontology nor any callback sees it
      (s, some .ontologyValidation)
  | .event idx type source gateOk =>
    let s := { s with children := s.children ++ [Kind.event] }
    match s.ont with
    | none => (s, some .validation)
    | some (ts, ss) =>
      if !ss.contains source then (s, some .eventValidation) else
      if !ts.contains type then (s, some .eventValidation) else
      if reg.validate && !gateOk then (s, some .eventValidation) else
      let s := { s with
        log := s.log ++ dispatch reg s.patMap idx type source
        sizes := s.sizes ++ [(idx, s.children.length)]
        nEvents := s.nEvents + 1
        typeCount := increment type s.typeCount }
      if s.nEvents > 1 then ({ s with children := s.children.eraseIdx 1 }, none) else (s, none)
  | .foreign idx =>
    ({ s with children := s.children ++ [Kind.foreign], log := s.log ++ [Callback.foreign idx] }, none)

/-- Process the children in order; stop at the first error. -/
def prun (reg : Registry) (s : PState) : List Item → PState × Option PErr
  | [] => (s, none)
  | it :: rest =>
    match pstep reg s it with
    | (s', none) => prun reg s' rest
    | (s', some e) => (s', some e)

/-- A push parser whose owner catches the error of a refused event and keeps feeding: the refused
event is skipped, everything else goes on as before; any other error ends it. Returns the errors
that were raised, in order. -/
def prunResilient (reg : Registry) (s : PState) : List Item → PState × List PErr
  | [] => (s, [])
  | it :: rest =>
    match pstep reg s it with
    | (s', none) => prunResilient reg s' rest
    | (s', some .eventValidation) =>
      let r := prunResilient reg s' rest
      (r.1, .eventValidation :: r.2)
    | (s', some e) => (s', [e])

/-- A whole document: the children, then the root's end tag where the version is checked. -/
def parseDoc (reg : Registry) (items : List Item) (versionOk : Bool) : PState × Option PErr :=
  match prun reg {} items with
  | (s, none) => if versionOk then (s, none) else (s, some .validation)
  | r => r

/-- `_init()`: what a parser forgets when it is given another document (`parse()` again). The
ontology, the per-type counters and the source pattern map stay. -/
def PState.nextDoc (s : PState) : PState := { s with children := [], initialSeen := false, nEvents := 0 }

/-- Feeding in chunks: each `feed` processes the elements completed by that chunk, carrying the
state over. -/
def feedAll (reg : Registry) (s : PState) : List (List Item) → PState × Option PErr
  | [] => (s, none)
  | c :: cs =>
    match prun reg s c with
    | (s', none) => feedAll reg s' cs
    | (s', some e) => (s', some e)

end Edxml
