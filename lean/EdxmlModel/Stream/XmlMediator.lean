/-
C19 (second anchor). `XmlTranscoderMediator._clean_after_transcode` / `_clean_child_elements`
(edxml/transcode/xml/xml_transcoder_mediator.py): after transcoding a record element the previously
transcoded element is deleted, together with the siblings in between that belong to a
`NullTranscoder` path. Children of one parent element are `rec` (has a record transcoder),
`note` (NullTranscoder: may be discarded) or `other` (no transcoder: never visited, never deleted).
-/
namespace Edxml.XMed

inductive XKind | record | note | other
deriving DecidableEq, Repr

structure MState where
  children : List XKind := []
  /-- index of the last transcoded element in `children` -/
  last : Option Nat := none
  /-- at each record delivery: (its index in the parent, notes received since the previous record) -/
  log : List (Nat × Nat) := []
  notesSince : Nat := 0
  /-- an element of another parent was transcoded before: the first clean-up in this parent also
  covers the children that precede the first record -/
  cross : Bool := false
deriving Repr

def mstep (s : MState) : XKind → MState
  | .record =>
    let idx := s.children.length
    let ch := s.children ++ [XKind.record]
    let log := s.log ++ [(idx, s.notesSince)]
    match s.last with
    | none =>
      if s.cross then
        let lead := s.children.filter (· != XKind.note)
        { s with children := lead ++ [XKind.record], last := some lead.length, log := log, notesSince := 0 }
      else { s with children := ch, last := some idx, log := log, notesSince := 0 }
    | some j =>
      let ch1 := ch.eraseIdx j
      let pre := ch1.take j
      let mid := ((ch1.drop j).take (idx - 1 - j)).filter (· != XKind.note)
      let post := ch1.drop (idx - 1)
      { s with children := pre ++ mid ++ post, last := some (pre.length + mid.length), log := log, notesSince := 0 }
  | .note => { s with children := s.children ++ [XKind.note], notesSince := s.notesSince + 1 }
  | .other => { s with children := s.children ++ [XKind.other] }

def mrun (s : MState) (ks : List XKind) : MState := ks.foldl mstep s

end Edxml.XMed
