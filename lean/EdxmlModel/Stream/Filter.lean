/-
C02. The pass-through filter (edxml/filter.py): a parser whose callbacks feed a writer.
`_parsed_ontology` hands the writer the whole ontology the parser holds after each ontology element,
`_parsed_event` the event; foreign elements are not copied.
-/
import EdxmlModel.Stream.Writer
namespace Edxml

/-- the parser side of a filter: `_parsed_event` is overridden, no handlers are registered -/
def filterReg (validate : Bool) : Registry :=
  { typeH := [], srcH := [], reMatch := [], overridden := true, validate := validate }

structure FState where
  p : PState := {}
  w : WState := {}

/-- one completed child of the input: the parser processes it and its callback feeds the writer.
`_parsed_ontology` hands the writer the whole ontology the parser holds now; foreign elements are
not copied. -/
def fstep (validate : Bool) (s : FState) (it : Item) : FState × Option PErr :=
  match (pstep (filterReg validate) s.p it).2 with
  | some e => ({ s with p := (pstep (filterReg validate) s.p it).1 }, some e)
  | none =>
    match it with
    | .ont _ _ _ =>
      let cur := ((pstep (filterReg validate) s.p it).1.ont).getD ([], [])
      ({ p := (pstep (filterReg validate) s.p it).1, w := (wstep validate s.w (.addOntology cur.1 cur.2 true)).1 },
        (wstep validate s.w (.addOntology cur.1 cur.2 true)).2)
    | .event i t src g =>
      ({ p := (pstep (filterReg validate) s.p it).1, w := (wstep validate s.w (.addEvent i t src g)).1 },
        (wstep validate s.w (.addEvent i t src g)).2)
    | .foreign _ => ({ s with p := (pstep (filterReg validate) s.p it).1 }, none)

def frun (validate : Bool) (s : FState) : List Item → FState × Option PErr
  | [] => (s, none)
  | it :: rest =>
    match fstep validate s it with
    | (s', none) => frun validate s' rest
    | r => r

/-- the children the filter writes for a document it accepts -/
def filterOut (validate : Bool) (items : List Item) : Option (List Item) :=
  match frun validate {} items with
  | (s, none) => some s.w.out
  | _ => none

end Edxml
