/-
C20. The reasoning pass of concept mining (`ConceptInstanceGraph._reason_from`,
edxml/miner/graph/graph.py): the variant of Dijkstra's algorithm that assigns every node its
confidence with respect to a seed.

The SDK's loop is not deterministic: the unvisited, touched nodes are kept in a Python `set`, so
that among equally confident candidates the next node is whichever the set yields first, and which
outgoing edges may be used (`Node.get_same_concept_inferences`) depends on concept names collected
in the seed on the way. The model is therefore a *checker of executions*: `run` replays a trace
(one entry per iteration of the `while` loop: the node that was processed and the edges that were
considered, in that order), performs the relaxations itself, and answers `none` when the trace is
not an execution of the algorithm (the processed node is not a most confident touched node, the
loop guard does not hold, or the loop stopped while it should have gone on). All theorems of
`EdxmlProps.C20` about the search hold for *every* trace `run` accepts; the correspondence check
records the traces of real mining runs, and compares the confidences `run` computes with the ones
the SDK assigned.
-/
import EdxmlModel.Miner.Confidence
namespace Edxml.Miner

/-- what the search reads of the nodes: `node.confidence` and `node.taint` (fixed during one pass) -/
structure SGraph where
  conf : Nat → Rat
  taint : Nat → Rat

/-- an outgoing edge that passed `get_same_concept_inferences`: target node and `edge.confidence` -/
structure SEdge where
  tgt : Nat
  conf : Rat
deriving Repr

structure SState where
  /-- `node.seed_confidences.get(seed.id)` -/
  sc : Nat → Option Rat
  /-- `node.depth` -/
  depth : Nat → Nat
  /-- nodes with `visited = True`, most recent first -/
  visited : List Nat
  /-- `nodes_unvisited_touched` -/
  touched : List Nat

def SState.scD (s : SState) (n : Nat) : Rat := (s.sc n).getD 0

/-- the state before the loop: the seed is visited and has confidence 1 -/
def SState.init (seed : Nat) : SState :=
  { sc := fun k => if k = seed then some 1 else none, depth := fun _ => 0, visited := [seed], touched := [] }

/-- the body of `for edge in edges` -/
def relax (g : SGraph) (min : Rat) (src : Nat) (s : SState) (e : SEdge) : SState :=
  if s.visited.contains e.tgt then s else
  let c := dijkstra (s.scD src) e.conf (g.taint e.tgt) (g.conf e.tgt)
  if min < c ∧ s.scD e.tgt < c then
    { s with sc := fun k => if k = e.tgt then some c else s.sc k,
             depth := fun k => if k = e.tgt then s.depth src + 1 else s.depth k,
             touched := if s.touched.contains e.tgt then s.touched else e.tgt :: s.touched }
  else s

/-- one iteration of the `while` loop for node `n` with the considered edges `es` -/
def visit (g : SGraph) (min : Rat) (s : SState) (n : Nat) (es : List SEdge) : SState :=
  let s' := es.foldl (relax g min n) s
  { s' with visited := if s'.visited.contains n then s'.visited else n :: s'.visited,
            touched := s'.touched.filter (· != n) }

/-- the loop guard: `node.seed_confidences[seed.id] >= min_confidence and node.depth < max_depth` -/
def guardOk (min : Rat) (maxDepth : Nat) (s : SState) (n : Nat) : Bool :=
  decide (min ≤ s.scD n) && decide (s.depth n < maxDepth)

/-- `n` may be `sorted(nodes_unvisited_touched, key=confidence, reverse=True)[0]` -/
def isMax (s : SState) (n : Nat) : Bool :=
  s.touched.contains n && s.touched.all fun m => decide (s.scD m ≤ s.scD n)

abbrev Trace := List (Nat × List SEdge)

/-- the iterations after the first; also yields the confidence each processed node had when it was
its turn -/
def steps (g : SGraph) (min : Rat) (maxDepth : Nat) : SState → Trace → Option (SState × List Rat)
  | s, [] =>
    -- the loop ended: nothing is left, or a most confident candidate fails the guard
    if s.touched.isEmpty || s.touched.any (fun m => isMax s m && !guardOk min maxDepth s m) then some (s, []) else none
  | s, (n, es) :: rest =>
    if isMax s n && guardOk min maxDepth s n then
      match steps g min maxDepth (visit g min s n es) rest with
      | some (s', cs) => some (s', s.scD n :: cs)
      | none => none
    else none

/-- the whole pass: the first iteration processes the seed -/
def run (g : SGraph) (min : Rat) (maxDepth : Nat) (seed : Nat) : Trace → Option (SState × List Rat)
  | [] => if guardOk min maxDepth (SState.init seed) seed then none else some (SState.init seed, [])
  | (n, es) :: rest =>
    if n = seed ∧ guardOk min maxDepth (SState.init seed) seed then
      match steps g min maxDepth (visit g min (SState.init seed) seed es) rest with
      | some (s', cs) => some (s', 1 :: cs)
      | none => none
    else none

/-! ### the checker used by the correspondence: the SDK computes in binary floating point

The SDK's confidences are floats, so that its products differ from the exact ones by rounding and
two paths of equal exact confidence may differ in the last bit. The annotated trace therefore also
says, for every considered edge, whether the SDK used it and which confidence it assigned (`some cf`).
`relaxC` stores the SDK's own value (every later comparison is then made on the numbers the SDK
compared), demands that it is the exact product up to the slack `eps`, and that using or not using
the edge is the right decision up to `eps`. With `eps = 0` this is `relax` (`EdxmlProps.C20.runC_zero`). -/

abbrev ATrace := List (Nat × List (SEdge × Option Rat))

def relaxC (g : SGraph) (min eps : Rat) (src : Nat) (s : SState) (er : SEdge × Option Rat) : Option SState :=
  let e := er.1
  if s.visited.contains e.tgt then (match er.2 with | none => some s | some _ => none) else
  let c := dijkstra (s.scD src) e.conf (g.taint e.tgt) (g.conf e.tgt)
  match er.2 with
  | some cf =>
    if c - eps ≤ cf ∧ cf ≤ c + eps ∧ min < cf ∧ s.scD e.tgt < cf then
      some { s with sc := fun k => if k = e.tgt then some cf else s.sc k,
                    depth := fun k => if k = e.tgt then s.depth src + 1 else s.depth k,
                    touched := if s.touched.contains e.tgt then s.touched else e.tgt :: s.touched }
    else none
  | none => if c ≤ min + eps ∨ c ≤ s.scD e.tgt + eps then some s else none

def foldC (g : SGraph) (min eps : Rat) (src : Nat) : SState → List (SEdge × Option Rat) → Option SState
  | s, [] => some s
  | s, er :: rest => match relaxC g min eps src s er with
    | some s' => foldC g min eps src s' rest
    | none => none

def visitC (g : SGraph) (min eps : Rat) (s : SState) (n : Nat) (es : List (SEdge × Option Rat)) : Option SState :=
  match foldC g min eps n s es with
  | some s' => some { s' with visited := if s'.visited.contains n then s'.visited else n :: s'.visited,
                              touched := s'.touched.filter (· != n) }
  | none => none

def stepsC (g : SGraph) (min eps : Rat) (maxDepth : Nat) : SState → ATrace → Option SState
  | s, [] =>
    if s.touched.isEmpty || s.touched.any (fun m => isMax s m && !guardOk min maxDepth s m) then some s else none
  | s, (n, es) :: rest =>
    if isMax s n && guardOk min maxDepth s n then
      match visitC g min eps s n es with
      | some s' => stepsC g min eps maxDepth s' rest
      | none => none
    else none

def runC (g : SGraph) (min eps : Rat) (maxDepth : Nat) (seed : Nat) : ATrace → Option SState
  | [] => if guardOk min maxDepth (SState.init seed) seed then none else some (SState.init seed)
  | (n, es) :: rest =>
    if n = seed ∧ guardOk min maxDepth (SState.init seed) seed then
      match visitC g min eps (SState.init seed) seed es with
      | some s' => stepsC g min eps maxDepth s' rest
      | none => none
    else none

/-- the trace without the annotations -/
def ATrace.erase (tr : ATrace) : Trace := tr.map fun p => (p.1, p.2.map (·.1))

/-- the first entry of the annotated trace at which the checker stops (for the replay file) -/
def firstBad (g : SGraph) (min eps : Rat) (maxDepth : Nat) (seed : Nat) (tr : ATrace) : Nat :=
  ((List.range (tr.length + 1)).find? fun k =>
    -- the prefix of length k is not the beginning of an accepted execution
    match tr.take k with
    | [] => false
    | (n, es) :: rest =>
      if n = seed ∧ guardOk min maxDepth (SState.init seed) seed then
        match visitC g min eps (SState.init seed) seed es with
        | some s' =>
          let rec go (s : SState) : ATrace → Bool
            | [] => false
            | (n, es) :: rest =>
              if isMax s n && guardOk min maxDepth s n then
                match visitC g min eps s n es with
                | some s' => go s' rest
                | none => true
              else true
          go s' rest
        | none => true
      else true).getD tr.length

/-! ### which edges a pass may use (`Node.get_same_concept_inferences`)

An edge to a hub is always used, an edge of an inter-concept relation never, an edge of an
intra-concept relation always; an edge from a hub to an object node only when the node's concept is
in scope: the concept names collected in the seed so far (`seed.concept_name_equivalents`: the seed's
own, plus those of every node reached through an intra-concept relation) that share a branch with
the node's concept name confirm it with their confidences (noisy-or), times the confidence of the
hub, and that must exceed the requested minimum. -/

inductive EKind | toHub | sameObject | intra | inter
deriving DecidableEq, Repr

/-- an outgoing edge as `get_same_concept_inferences` sees it -/
structure OEdge where
  tgt : Nat
  conf : Rat
  kind : EKind
  /-- concept name of the target node (object nodes) -/
  concept : String
deriving Repr

/-- `seed.concept_name_equivalents`: concept name, node, confidence -/
abbrev Equivs := List (String × Nat × Rat)

def setEquiv (q : Equivs) (cn : String) (node : Nat) (c : Rat) : Equivs :=
  if q.any (fun e => e.1 == cn && e.2.1 == node) then q.map fun e => if e.1 == cn && e.2.1 == node then (cn, node, c) else e
  else q ++ [(cn, node, c)]

/-- `Concept.concept_names_share_branch`: the shorter name is a prefix of the longer one -/
def shareBranch (a b : String) : Bool :=
  let (s, l) := if a.length > b.length then (b, a) else (a, b)
  s.toList == l.toList.take s.length

/-- `check_node_concept_in_scope` -/
def inScope (q : Equivs) (concept : String) : Rat :=
  let cs := (q.filter fun e => shareBranch e.1 concept).map (·.2.2)
  if cs.isEmpty then 0 else noisyOr cs

/-- `_inference_same_concept`, granting the product the slack `eps` on either side of the cut-off:
`some true` the edge must be used, `some false` it must not, `none` either is right -/
def admissible (q : Equivs) (min eps scSelf : Rat) (e : OEdge) : Option Bool :=
  match e.kind with
  | .toHub => some true
  | .intra => some true
  | .inter => some false
  | .sameObject =>
    let x := inScope q e.concept * scSelf
    if min + eps < x then some true else if x ≤ min - eps then some false else
    if eps = 0 then some (decide (min < x)) else none

/-- an edge of the full trace: the edge, whether the pass considered it, and the confidence it assigned through it -/
structure FEdge where
  edge : OEdge
  considered : Bool
  assigned : Option Rat
deriving Repr

abbrev FTrace := List (Nat × List FEdge)

def scopeOk (q : Equivs) (min eps scSelf : Rat) (es : List FEdge) : Bool :=
  es.all fun f => (match admissible q min eps scSelf f.edge with
    | some b => b == f.considered
    | none => true) && (f.considered || f.assigned.isNone)

/-- what the pass is checked on by `runC`: the considered edges, in order -/
def proj (es : List FEdge) : List (SEdge × Option Rat) :=
  (es.filter (·.considered)).map fun f => (({ tgt := f.edge.tgt, conf := f.edge.conf } : SEdge), f.assigned)

/-- `RelationInference.reason`: reaching a node through an intra-concept relation adds its concept name -/
def learn (q : Equivs) (es : List FEdge) : Equivs :=
  es.foldl (fun q f => match f.edge.kind, f.considered, f.assigned with
    | .intra, true, some c => setEquiv q f.edge.concept f.edge.tgt c
    | _, _, _ => q) q

def stepsC2 (g : SGraph) (min eps : Rat) (maxDepth : Nat) : SState → Equivs → FTrace → Option (SState × Equivs)
  | s, q, [] => (stepsC g min eps maxDepth s []).map fun s' => (s', q)
  | s, q, (n, es) :: rest =>
    if isMax s n && guardOk min maxDepth s n && scopeOk q min eps (s.scD n) es then
      match visitC g min eps s n (proj es) with
      | some s' => stepsC2 g min eps maxDepth s' (learn q es) rest
      | none => none
    else none

/-- the whole pass with the scope filter checked -/
def runC2 (g : SGraph) (min eps : Rat) (maxDepth : Nat) (seed : Nat) (seedConcept : String) : FTrace → Option (SState × Equivs)
  | [] => (runC g min eps maxDepth seed []).map fun s => (s, [(seedConcept, seed, 1)])
  | (n, es) :: rest =>
    if n = seed ∧ guardOk min maxDepth (SState.init seed) seed ∧ scopeOk [(seedConcept, seed, 1)] min eps 1 es = true then
      match visitC g min eps (SState.init seed) seed (proj es) with
      | some s' => stepsC2 g min eps maxDepth s' (learn [(seedConcept, seed, 1)] es) rest
      | none => none
    else none

def FTrace.proj (tr : FTrace) : ATrace := tr.map fun p => (p.1, Edxml.Miner.proj p.2)

/-! ### seed selection (`find_optimal_seed` as `_auto_mine` calls it)

`sorted(candidates, key=(1 - taint, association confidence), reverse=True)[0]` over the event object
nodes whose taint is not above 0; `none` ends mining. Equally good candidates come out in the order
of a dictionary, so the model checks a choice rather than making it. -/

structure Cand where
  id : Nat
  taint : Rat
  conf : Rat
deriving Repr

def seedKeyLe (a b : Cand) : Bool :=
  decide (1 - a.taint < 1 - b.taint) || (decide (1 - a.taint = 1 - b.taint) && decide (a.conf ≤ b.conf))

def pickOk (cands : List Cand) (choice : Option Nat) : Bool :=
  let free := cands.filter fun c => decide (c.taint ≤ 0)
  match choice with
  | none => free.isEmpty
  | some k => free.any fun c => c.id == k && free.all fun d => seedKeyLe d c

end Edxml.Miner
