/-
C20. `ConceptInstanceGraph.extract_result_set` (edxml/miner/graph/graph.py): which object nodes end up
in which concept instance. Every event object node with a confidence of at least the requested
minimum with respect to a seed goes into the instance of that seed, under the attribute
(attribute name, object value) it stands for; hubs are left out (they are not event data).
-/
namespace Edxml.Miner.Extract

/-- what `extract_result_set` reads of an `EventObjectNode` -/
structure ONode where
  id : Nat
  /-- `node.attribute_name` -/
  attr : String
  value : String
  /-- `node.seed_confidences`: seed id → confidence (a dictionary: the first entry of a seed counts) -/
  sc : List (Nat × Rat)
deriving Repr

/-- remove repetitions, keeping the last occurrence's position (only membership matters) -/
def dedup {α : Type} [BEq α] : List α → List α
  | [] => []
  | x :: xs => if (dedup xs).contains x then dedup xs else x :: dedup xs

/-- `confidence < min_confidence` does not hold for the node's confidence with respect to seed `s` -/
def qualifies (min : Rat) (n : ONode) (s : Nat) : Bool :=
  match n.sc.lookup s with
  | some c => decide (min ≤ c)
  | none => false

/-- the keys of `concept_value_nodes`: seeds with at least one qualifying node -/
def seedsOf (nodes : List ONode) (min : Rat) : List Nat :=
  dedup (nodes.flatMap fun n => (n.sc.map (·.1)).filter (qualifies min n))

/-- the attributes of the instance of seed `s` -/
def attrsOf (nodes : List ONode) (min : Rat) (s : Nat) : List (String × String) :=
  dedup ((nodes.filter (qualifies min · s)).map fun n => (n.attr, n.value))

/-- `MinedConceptAttribute.nodes` -/
def attrNodes (nodes : List ONode) (min : Rat) (s : Nat) (a v : String) : List Nat :=
  (nodes.filter fun n => qualifies min n s && n.attr == a && n.value == v).map (·.id)

structure Attribute where
  name : String
  value : String
  nodes : List Nat
deriving Repr

structure Instance where
  seed : Nat
  attrs : List Attribute
deriving Repr

def extract (nodes : List ONode) (min : Rat) : List Instance :=
  (seedsOf nodes min).map fun s =>
    { seed := s, attrs := (attrsOf nodes min s).map fun av => ⟨av.1, av.2, attrNodes nodes min s av.1 av.2⟩ }

end Edxml.Miner.Extract
