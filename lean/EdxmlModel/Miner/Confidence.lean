/-
C20. Concept mining: the confidence arithmetic (edxml/miner/node.py, graph.py, result.py,
inference.py) over exact rationals, the seed selection loop of `_auto_mine`, and universals mining
(edxml/miner/miner.py).
-/
import EdxmlModel.Event.Event
namespace Edxml.Miner
open Edxml

/-- `1.0 - reduce(mul, [1.0 - c for c in cs])`: the probability that not all confirmations are wrong
(`NodeCollection.compute_net_confidence`, `compute_concept_name_confidences`,
`MinedConceptInstance.get_related_concepts`) -/
def noisyOr (cs : List Rat) : Rat := 1 - (cs.map (1 - ·)).foldl (· * ·) 1

/-- `functools.reduce(f, l)` for a non-empty list -/
def reduce1 (f : Rat → Rat → Rat) : List Rat → Rat
  | [] => 0
  | x :: xs => xs.foldl f x

/-- `_update_seed_taints`: the new taint of a node from its confidences with respect to the seeds
used so far (zero, one, or `1 - reduce(lambda x, y: (1-x)*(1-y), confidences)`) -/
def taintOf (cs : List Rat) : Rat :=
  match cs with
  | [] => 0
  | [c] => c
  | cs => 1 - reduce1 (fun x y => (1 - x) * (1 - y)) cs

/-- the taint of a node after a sequence of mining rounds: `_update_seed_taints` runs after every
round and keeps the maximum (`node.taint = max(node.taint, new_taint)`); `cs` are the node's seed
confidences in the order the seeds were mined; a node that was a seed itself has taint 1 -/
def taintHistory (isSeed : Bool) (cs : List Rat) : Rat :=
  if isSeed then 1 else
  (List.range (cs.length + 1)).foldl (fun t k => max t (taintOf (cs.take k))) 0

/-- `Inference.compute_dijkstra_confidence` -/
def dijkstra (sourceConf edgeConf targetTaint targetConf : Rat) : Rat :=
  sourceConf * edgeConf * (1 - targetTaint) * targetConf

/-- related concept instance: source confidence × inference confidence × target confidence -/
def relatedStep (a b c : Rat) : Rat := a * b * c

/-! ### `_auto_mine`: seeds are picked among the untainted nodes; mining a seed taints it -/

structure ANode where
  id : Nat
  taint : Rat
deriving Repr

def untainted (ns : List ANode) : List ANode := ns.filter (·.taint ≤ 0)

/-! ### universals -/

structure URel where
  kind : String
  source : String
  target : String
  sourceType : String
  targetType : String
deriving Repr, DecidableEq

/-- `_mine_universals`: for every name / description / container relation of the event type and
every pair of objects: (target type, target object, source type, source object) -/
def universalsOf (rels : List URel) (kind : String) (e : Event) : List (String × String × String × String) :=
  (rels.filter (·.kind == kind)).flatMap fun r =>
    (e.objects r.target).flatMap fun t => (e.objects r.source).map fun s => (r.targetType, t, r.sourceType, s)

end Edxml.Miner
