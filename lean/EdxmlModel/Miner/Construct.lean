/-
C20. Graph construction from events (`GraphConstructor.add` / `_add_relation_nodes`,
edxml/miner/graph/construct.py): which object nodes an event yields and which of them are linked
by the concept relations (inter / intra) of its event type.

A node is identified the way `EventObjectNode.id` is built: event number, property name, concept
name of the association, object value. Per event the constructor
* walks the concept relations of the event type: one node per object of the source property (for
  the source concept the relation names), one per object of the target property (target concept),
  every source node linked with every target node, in both directions;
* walks the properties that take part in no concept relation: one node per concept association
  and object.
`eventNodesOld` is the constructor before /repo commit 019d0ed: target nodes were added to the graph
from inside the loop over the source nodes, so an event without objects for the source property
lost the objects of the target property (`EdxmlProps.C20.old_construction_misses`).
-/
namespace Edxml.Miner.Construct

structure PropDef where
  name : String
  /-- object type name -/
  ot : String
  /-- concept names the property is associated with, in definition order -/
  assocs : List String
deriving Repr, DecidableEq

inductive RelKind
  | inter | intra | other
deriving Repr, DecidableEq

structure RelDef where
  kind : RelKind
  source : String
  target : String
  /-- source / target concept (only read for concept relations) -/
  sc : String
  tc : String
deriving Repr, DecidableEq

structure EtDef where
  props : List PropDef
  rels : List RelDef
deriving Repr

/-- an event: property name → objects (a property may be listed more than once) -/
abbrev Ev := List (String × List String)

/-- `event[property_name]` -/
def objects (ev : Ev) (p : String) : List String :=
  (ev.filter (fun kv => kv.1 == p)).flatMap (·.2)

structure NodeId where
  event : Nat
  prop : String
  concept : String
  value : String
deriving Repr, DecidableEq

structure Link where
  src : NodeId
  dst : NodeId
deriving Repr, DecidableEq

def RelDef.isConcept (r : RelDef) : Bool := r.kind == .inter || r.kind == .intra

def sourceNodes (k : Nat) (r : RelDef) (ev : Ev) : List NodeId :=
  (objects ev r.source).map (fun v => ⟨k, r.source, r.sc, v⟩)

def targetNodes (k : Nat) (r : RelDef) (ev : Ev) : List NodeId :=
  (objects ev r.target).map (fun v => ⟨k, r.target, r.tc, v⟩)

/-- the nodes `_add_relation_nodes` adds to the graph for one relation -/
def relNodes (k : Nat) (r : RelDef) (ev : Ev) : List NodeId :=
  sourceNodes k r ev ++ targetNodes k r ev

/-- before 019d0ed: `self._graph.add(target_node)` sat inside `for source_node in source_nodes` -/
def relNodesOld (k : Nat) (r : RelDef) (ev : Ev) : List NodeId :=
  sourceNodes k r ev ++ (if (sourceNodes k r ev).isEmpty then [] else targetNodes k r ev)

/-- `source_node.link_relation(target_node, relation)`: nothing for a node and itself, else an edge
in each direction -/
def relLinks (k : Nat) (r : RelDef) (ev : Ev) : List Link :=
  (sourceNodes k r ev).flatMap (fun s =>
    (targetNodes k r ev).flatMap (fun t => if s = t then [] else [⟨s, t⟩, ⟨t, s⟩]))

/-- `relation_properties` -/
def relationProps (et : EtDef) : List String :=
  (et.rels.filter (·.isConcept)).flatMap (fun r => [r.source, r.target])

/-- the second loop of `add`: properties outside every concept relation -/
def plainNodes (k : Nat) (et : EtDef) (ev : Ev) : List NodeId :=
  (et.props.filter (fun p => !(relationProps et).contains p.name)).flatMap (fun p =>
    p.assocs.flatMap (fun c => (objects ev p.name).map (fun v => ⟨k, p.name, c, v⟩)))

/-- all nodes event number `k` contributes -/
def eventNodes (k : Nat) (et : EtDef) (ev : Ev) : List NodeId :=
  (et.rels.filter (·.isConcept)).flatMap (fun r => relNodes k r ev) ++ plainNodes k et ev

def eventNodesOld (k : Nat) (et : EtDef) (ev : Ev) : List NodeId :=
  (et.rels.filter (·.isConcept)).flatMap (fun r => relNodesOld k r ev) ++ plainNodes k et ev

def eventLinks (k : Nat) (et : EtDef) (ev : Ev) : List Link :=
  (et.rels.filter (·.isConcept)).flatMap (fun r => relLinks k r ev)

/-- the whole graph: events are numbered in the order they are added (`_next_event_id`); each comes
with the definition of its event type that is in force when it is added -/
def graphNodes : Nat → List (EtDef × Ev) → List NodeId
  | _, [] => []
  | k, (et, ev) :: rest => eventNodes k et ev ++ graphNodes (k + 1) rest

def graphLinks : Nat → List (EtDef × Ev) → List Link
  | _, [] => []
  | k, (et, ev) :: rest => eventLinks k et ev ++ graphLinks (k + 1) rest

end Edxml.Miner.Construct
