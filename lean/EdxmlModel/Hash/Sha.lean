/-
SHA-1 and SHA-256, executable only. Nothing is proved about them: they exist so that the
driver can be compared with Python's `hashlib` digest-for-digest. Identity theorems are about
the hash *input*.
-/
import EdxmlModel.Basic.Bytes
namespace Edxml

def rotl32 (x : UInt32) (n : UInt32) : UInt32 := (x <<< n) ||| (x >>> (32 - n))
def rotr32 (x : UInt32) (n : UInt32) : UInt32 := (x >>> n) ||| (x <<< (32 - n))

/-- Merkle–Damgård padding shared by SHA-1 and SHA-256 (big-endian 64-bit length). -/
def shaPad (msg : Bytes) : Array UInt8 :=
  let ml := msg.length * 8
  let m := msg.toArray.push 0x80
  let padLen := (120 - m.size % 64) % 64
  let m := m ++ Array.replicate padLen (0 : UInt8)
  (List.range 8).foldl (fun acc i => acc.push (UInt8.ofNat ((ml >>> (8 * (7 - i))) % 256))) m

def be32 (a : Array UInt8) (i : Nat) : UInt32 :=
  ((a[i]!).toUInt32 <<< 24) ||| ((a[i+1]!).toUInt32 <<< 16) ||| ((a[i+2]!).toUInt32 <<< 8)
    ||| (a[i+3]!).toUInt32

def be32Bytes (x : UInt32) : Bytes :=
  [(x >>> 24).toUInt8, (x >>> 16).toUInt8, (x >>> 8).toUInt8, x.toUInt8]

structure Sha1State where
  h0 : UInt32
  h1 : UInt32
  h2 : UInt32
  h3 : UInt32
  h4 : UInt32

def sha1Block (st : Sha1State) (m : Array UInt8) (off : Nat) : Sha1State := Id.run do
  let mut w : Array UInt32 := Array.replicate 80 0
  for i in [0:16] do
    w := w.set! i (be32 m (off + 4 * i))
  for i in [16:80] do
    w := w.set! i (rotl32 (w[i-3]! ^^^ w[i-8]! ^^^ w[i-14]! ^^^ w[i-16]!) 1)
  let mut a := st.h0
  let mut b := st.h1
  let mut c := st.h2
  let mut d := st.h3
  let mut e := st.h4
  for i in [0:80] do
    let (f, k) : UInt32 × UInt32 :=
      if i < 20 then ((b &&& c) ||| ((~~~b) &&& d), 0x5A827999)
      else if i < 40 then (b ^^^ c ^^^ d, 0x6ED9EBA1)
      else if i < 60 then ((b &&& c) ||| (b &&& d) ||| (c &&& d), 0x8F1BBCDC)
      else (b ^^^ c ^^^ d, 0xCA62C1D6)
    let t := rotl32 a 5 + f + e + k + w[i]!
    e := d
    d := c
    c := rotl32 b 30
    b := a
    a := t
  return { h0 := st.h0 + a, h1 := st.h1 + b, h2 := st.h2 + c, h3 := st.h3 + d, h4 := st.h4 + e }

def sha1 (msg : Bytes) : Bytes :=
  let m := shaPad msg
  let st := (List.range (m.size / 64)).foldl (fun st i => sha1Block st m (64 * i))
    { h0 := 0x67452301, h1 := 0xEFCDAB89, h2 := 0x98BADCFE, h3 := 0x10325476, h4 := 0xC3D2E1F0 }
  be32Bytes st.h0 ++ be32Bytes st.h1 ++ be32Bytes st.h2 ++ be32Bytes st.h3 ++ be32Bytes st.h4

def sha256K : Array UInt32 := #[
  0x428a2f98, 0x71374491, 0xb5c0fbcf, 0xe9b5dba5, 0x3956c25b, 0x59f111f1, 0x923f82a4, 0xab1c5ed5,
  0xd807aa98, 0x12835b01, 0x243185be, 0x550c7dc3, 0x72be5d74, 0x80deb1fe, 0x9bdc06a7, 0xc19bf174,
  0xe49b69c1, 0xefbe4786, 0x0fc19dc6, 0x240ca1cc, 0x2de92c6f, 0x4a7484aa, 0x5cb0a9dc, 0x76f988da,
  0x983e5152, 0xa831c66d, 0xb00327c8, 0xbf597fc7, 0xc6e00bf3, 0xd5a79147, 0x06ca6351, 0x14292967,
  0x27b70a85, 0x2e1b2138, 0x4d2c6dfc, 0x53380d13, 0x650a7354, 0x766a0abb, 0x81c2c92e, 0x92722c85,
  0xa2bfe8a1, 0xa81a664b, 0xc24b8b70, 0xc76c51a3, 0xd192e819, 0xd6990624, 0xf40e3585, 0x106aa070,
  0x19a4c116, 0x1e376c08, 0x2748774c, 0x34b0bcb5, 0x391c0cb3, 0x4ed8aa4a, 0x5b9cca4f, 0x682e6ff3,
  0x748f82ee, 0x78a5636f, 0x84c87814, 0x8cc70208, 0x90befffa, 0xa4506ceb, 0xbef9a3f7, 0xc67178f2]

def sha256Block (h : Array UInt32) (m : Array UInt8) (off : Nat) : Array UInt32 := Id.run do
  let mut w : Array UInt32 := Array.replicate 64 0
  for i in [0:16] do
    w := w.set! i (be32 m (off + 4 * i))
  for i in [16:64] do
    let x := w[i-15]!
    let y := w[i-2]!
    let s0 := rotr32 x 7 ^^^ rotr32 x 18 ^^^ (x >>> 3)
    let s1 := rotr32 y 17 ^^^ rotr32 y 19 ^^^ (y >>> 10)
    w := w.set! i (w[i-16]! + s0 + w[i-7]! + s1)
  let mut a := h[0]!
  let mut b := h[1]!
  let mut c := h[2]!
  let mut d := h[3]!
  let mut e := h[4]!
  let mut f := h[5]!
  let mut g := h[6]!
  let mut hh := h[7]!
  for i in [0:64] do
    let s1 := rotr32 e 6 ^^^ rotr32 e 11 ^^^ rotr32 e 25
    let ch := (e &&& f) ^^^ ((~~~e) &&& g)
    let t1 := hh + s1 + ch + sha256K[i]! + w[i]!
    let s0 := rotr32 a 2 ^^^ rotr32 a 13 ^^^ rotr32 a 22
    let maj := (a &&& b) ^^^ (a &&& c) ^^^ (b &&& c)
    let t2 := s0 + maj
    hh := g
    g := f
    f := e
    e := d + t1
    d := c
    c := b
    b := a
    a := t1 + t2
  return #[h[0]! + a, h[1]! + b, h[2]! + c, h[3]! + d, h[4]! + e, h[5]! + f, h[6]! + g, h[7]! + hh]

def sha256 (msg : Bytes) : Bytes :=
  let m := shaPad msg
  let h := (List.range (m.size / 64)).foldl (fun h i => sha256Block h m (64 * i))
    #[0x6a09e667, 0xbb67ae85, 0x3c6ef372, 0xa54ff53a, 0x510e527f, 0x9b05688c, 0x1f83d9ab, 0x5be0cd19]
  h.toList.flatMap be32Bytes

end Edxml
