/-
C01. The sticky hash: `EDXMLEvent.compute_sticky_hash` (edxml/event.py).

    object_strings = set(('%s:%s' % (p, v)).encode() for p in objects if p in hash_properties for v in objects[p])
    hash_function(b'%s\n%s\n%s' % (source.encode(), type.encode(), b'\xff\xff\xff\xff'.join(sorted(object_strings))))
-/
import EdxmlModel.Event.Event
import EdxmlModel.Hash.Sha
namespace Edxml

def objectSeparator : Bytes := [0xFF, 0xFF, 0xFF, 0xFF]

/-- `sep.join(items)` on byte strings. -/
def joinSep (sep : Bytes) : List Bytes → Bytes
  | [] => []
  | [x] => x
  | x :: y :: r => x ++ sep ++ joinSep sep (y :: r)

/-- `'%s:%s' % (p, v)).encode()` -/
def objString (p v : String) : Bytes := utf8 p ++ [0x3A] ++ utf8 v

/-- The encoded `property:value` strings of the hashed properties (before `set`/`sorted`). -/
def objStrings (hashed : List String) (e : Event) : List Bytes :=
  (e.pairs.filter fun pv => hashed.contains pv.1).map fun pv => objString pv.1 pv.2

/-- The byte string that is fed to the hash function. -/
def hashInput (hashed : List String) (e : Event) : Bytes :=
  utf8 e.source ++ [0x0A] ++ utf8 e.type ++ [0x0A] ++
    joinSep objectSeparator (canon bytesLt (objStrings hashed e))

inductive HashFn | sha1 | sha256
inductive HashEnc | hex | base64

/-- `codecs.encode(digest, 'base64')` appends a newline (digests fit in one 76-column line). -/
def stickyHash (fn : HashFn) (enc : HashEnc) (hashed : List String) (e : Event) : String :=
  let digest := match fn with
    | .sha1 => sha1 (hashInput hashed e)
    | .sha256 => sha256 (hashInput hashed e)
  match enc with
  | .hex => hexOfBytes digest
  | .base64 => base64 digest ++ "\n"

/-! ### The hashed-property memo of `EventType`

`EventType.get_hashed_properties` memoises `{name: prop for ... if prop.is_hashed()}`; the memo
is dropped by `_child_modified_callback`, which every property mutator reaches. -/

structure HashedMemo where
  /-- (property name, merge strategy) in definition order -/
  props : List (String × String)
  cache : Option (List String)

inductive MemoOp
  | getHashed
  | setMerge (name strategy : String)
  | addProp (name strategy : String)
  | removeProp (name : String)

def hashedOf (props : List (String × String)) : List String :=
  (props.filter (·.2 == "match")).map (·.1)

def HashedMemo.step (s : HashedMemo) : MemoOp → HashedMemo × List String
  | .getHashed =>
    match s.cache with
    | some c => (s, c)
    | none => let c := hashedOf s.props; ({ s with cache := some c }, c)
  | .setMerge n st =>
    -- `_set_attr` only notifies when the value changes
    let props' := s.props.map fun p => if p.1 == n then (p.1, st) else p
    if props' == s.props then (s, []) else ({ props := props', cache := none }, [])
  | .addProp n st =>
    if s.props.any (·.1 == n) then (s, []) else ({ props := s.props ++ [(n, st)], cache := none }, [])
  | .removeProp n =>
    if s.props.any (·.1 == n) then ({ props := s.props.filter (·.1 != n), cache := none }, [])
    else (s, [])

end Edxml
