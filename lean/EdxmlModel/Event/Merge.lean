/-
C04 / C05. `EventType.merge_events` and `_check_merge_conflict` (edxml/ontology/event_type.py),
`EventCollection.resolve_collisions`, and the two stream mergers of `edxml-merge`.
-/
import EdxmlModel.Event.Hash
namespace Edxml

inductive Strategy | match_ | any | add | replace | set | min | max
deriving Repr, DecidableEq

/-- One property of an event type, as far as merging is concerned. -/
structure PropSpec where
  name : String
  merge : Strategy
  /-- comparison type of min/max: `true` for the numerical families and `sequence`
  (`int`, `float`, `Decimal`), `false` for `datetime` (compared as `str`) -/
  numeric : Bool
deriving Repr

/-! ### Numeric keys

`int(s)`, `float(s)`, `Decimal(s)` on the lexical forms the validation gate admits
(optional sign, digits, optional fraction, optional exponent), as exact rationals. For the
seven-significant-digit float forms this coincides with binary64 comparison. -/

def digitsVal (cs : List Char) : Nat := cs.foldl (fun n c => 10 * n + (c.toNat - 48)) 0

def isDigit (c : Char) : Bool := 48 ≤ c.toNat && c.toNat ≤ 57

def pow10 (q : Rat) (x : Int) : Rat :=
  if x ≥ 0 then q * ((10 : Rat) ^ x.toNat) else q / ((10 : Rat) ^ (-x).toNat)

/-- Parse `[+-]?d+(.d*)?([eE][+-]?d+)?`; anything else is outside the modelled domain. -/
def parseNum (s : String) : Option Rat :=
  let cs := s.toList
  let (neg, cs) := match cs with
    | '-' :: r => (true, r)
    | '+' :: r => (false, r)
    | r => (false, r)
  let ip := cs.takeWhile isDigit
  let r1 := cs.dropWhile isDigit
  let (fp, r2) := match r1 with
    | '.' :: r => (r.takeWhile isDigit, r.dropWhile isDigit)
    | r => ([], r)
  if ip.isEmpty && fp.isEmpty then none else
  let mant : Rat := ((digitsVal (ip ++ fp) : Nat) : Rat)
  let base := pow10 mant (-(fp.length : Int))
  let signed := if neg then -base else base
  match r2 with
  | [] => some signed
  | e :: r =>
    if e == 'E' || e == 'e' then
      let (eneg, ds) := match r with
        | '-' :: t => (true, t)
        | '+' :: t => (false, t)
        | t => (false, t)
      if ds.isEmpty || !ds.all isDigit then none
      else
        let x : Int := digitsVal ds
        some (pow10 signed (if eneg then -x else x))
    else none

def numKey (s : String) : Rat := (parseNum s).getD 0

/-- `key(a) <= key(b)` for the comparison type of the property. -/
def keyLe (numeric : Bool) (a b : String) : Bool :=
  if numeric then decide (numKey a ≤ numKey b) else !strLt b a

/-- Python `min(xs, key=...)`: the first minimal element. -/
def pyMin (le : α → α → Bool) : List α → Option α
  | [] => none
  | x :: xs => some (xs.foldl (fun m y => if le m y then m else y) x)

/-- Python `max(xs, key=...)`: the first maximal element. -/
def pyMax (le : α → α → Bool) : List α → Option α
  | [] => none
  | x :: xs => some (xs.foldl (fun m y => if le y m then m else y) x)

/-- Stable insertion sort by an integer key (Python `sorted(events, key=...)`). -/
def insertByKey (k : α → Int) (x : α) : List α → List α
  | [] => [x]
  | y :: ys => if k x < k y then x :: y :: ys else y :: insertByKey k x ys

def stableSort (k : α → Int) (l : List α) : List α := l.foldl (fun acc x => insertByKey k x acc) []

/-- The version string of an event: `event.get_any(version_property)`. -/
def versionStr (vp : String) (e : Event) : Option String := (e.objects vp).head?

/-- `int(event.get_any(version_property))` -/
def versionInt (vp : String) (e : Event) : Int :=
  match versionStr vp e with
  | some s => match s.toList with
    | '-' :: r => -(digitsVal r : Int)
    | '+' :: r => (digitsVal r : Int)
    | r => (digitsVal r : Int)
  | none => 0

/-- The first non-empty object set of a property, in the given event order. -/
def firstNonEmpty (p : String) : List Event → List String
  | [] => []
  | e :: es => if (e.objects p).isEmpty then firstNonEmpty p es else e.objects p

/-- The merged object set of one property. `es` is already in version order. -/
def mergeProp (s : PropSpec) (es : List Event) : List String :=
  let acc := es.flatMap (·.objects s.name)
  match s.merge with
  | .min => (pyMin (keyLe s.numeric) acc).toList
  | .max => (pyMax (keyLe s.numeric) acc).toList
  | .add => canonS acc
  | .replace => match es.getLast? with
    | some e => e.objects s.name
    | none => []
  | .set | .any | .match_ => firstNonEmpty s.name es

/-- Two events conflict when they share a version (as an integer) and differ in the objects of a
property. -/
def conflictPair (specs : List PropSpec) (vp : String) (a b : Event) : Bool :=
  versionInt vp a == versionInt vp b && specs.any fun s => a.objects s.name != b.objects s.name

def hasConflict (specs : List PropSpec) (vp : String) (es : List Event) : Bool :=
  es.any fun a => es.any fun b => conflictPair specs vp a b

inductive MergeErr | conflict | empty
deriving Repr, DecidableEq

/-- The events in the order `merge_events` processes them: stably sorted by integer version when
the event type has a version property, arrival order otherwise. -/
def versionOrder (vp : Option String) (es : List Event) : List Event :=
  match vp with
  | some v => stableSort (versionInt v) es
  | none => es

def conflictIn (specs : List PropSpec) (vp : Option String) (es : List Event) : Bool :=
  match vp with
  | some v => hasConflict specs v es
  | none => false

/-- `EventType.merge_events`. -/
def mergeEvents (specs : List PropSpec) (vp : Option String) (events : List Event) :
    Except MergeErr Event :=
  let sorted := versionOrder vp events
  if conflictIn specs vp sorted then .error .conflict else
  match sorted with
  | [] => .error .empty
  | first :: _ =>
    .ok { first with
      props := specs.map fun s => (s.name, mergeProp s sorted)
      parents := canonS (sorted.flatMap (·.parents)) }

/-! ### Collections and stream mergers

`EventCollection.resolve_collisions`, `EDXMLEventMerger` and `BufferingEDXMLEventMerger` all keep a
Python dict from sticky hash to events. What they compute for one hash depends only on the
subsequence of events with that hash, so the model works per key: keys in order of first
appearance, events of a key in arrival order. -/

def hashedNames (specs : List PropSpec) : List String :=
  (specs.filter (·.merge == .match_)).map (·.name)

/-- Distinct elements in order of first appearance (the key order of a Python dict). -/
def firstOccurrences [BEq α] : List α → List α
  | [] => []
  | x :: xs => x :: (firstOccurrences xs).filter (fun y => !(y == x))

def keysOf (key : Event → Bytes) (es : List Event) : List Bytes := firstOccurrences (es.map key)

def groupOf (key : Event → Bytes) (h : Bytes) (es : List Event) : List Event :=
  es.filter fun e => key e == h

/-- A group of one event is passed on as it is, larger groups are merged. -/
def mergeGroup (specs : List PropSpec) (vp : Option String) (g : List Event) : Except MergeErr Event :=
  match g with
  | [e] => .ok e
  | _ => mergeEvents specs vp g

/-- `mapM` for `Except`, by structural recursion. -/
def mapE (f : α → Except ε β) : List α → Except ε (List β)
  | [] => .ok []
  | x :: xs => match f x with
    | .error e => .error e
    | .ok y => match mapE f xs with
      | .error e => .error e
      | .ok ys => .ok (y :: ys)

/-- Apply `F` to the group of every key, keys in order of first appearance. -/
def perKey (key : Event → Bytes) (F : List Event → Except MergeErr Event) (es : List Event) :
    Except MergeErr (List Event) :=
  mapE (fun h => F (groupOf key h es)) (keysOf key es)

/-- `EventCollection.resolve_collisions`, for an arbitrary key function. -/
def resolveBy (key : Event → Bytes) (specs : List PropSpec) (vp : Option String) (es : List Event) :
    Except MergeErr (List Event) :=
  perKey key (mergeGroup specs vp) es

/-- Fold events into a running merge one at a time (`merge_events([buffered, event])`). -/
def foldEvents (specs : List PropSpec) (vp : Option String) : Event → List Event → Except MergeErr Event
  | e, [] => .ok e
  | e, y :: ys => match mergeEvents specs vp [e, y] with
    | .ok m => foldEvents specs vp m ys
    | .error err => .error err

def foldGroup (specs : List PropSpec) (vp : Option String) (g : List Event) : Except MergeErr Event :=
  match g with
  | [] => .error .empty
  | e :: rest => foldEvents specs vp e rest

/-- `EDXMLEventMerger`: every event is folded into the buffered event of its hash; the buffer is
written at close. -/
def foldMergerBy (key : Event → Bytes) (specs : List PropSpec) (vp : Option String) (es : List Event) :
    Except MergeErr (List Event) :=
  perKey key (foldGroup specs vp) es

/-- Cut a list into consecutive pieces of length `k` (the last one may be shorter). -/
def chunksL (k : Nat) (l : List α) : List (List α) :=
  if h : k = 0 ∨ l = [] then (if l = [] then [] else [l]) else
    have : (l.drop k).length < l.length := by
      have : l ≠ [] := fun e => h (Or.inr e)
      have : 0 < l.length := List.length_pos_iff.mpr this
      simp only [List.length_drop]; omega
    l.take k :: chunksL k (l.drop k)
termination_by l.length

/-- `BufferingEDXMLEventMerger` with buffer size `k` (time-based flushing off): every `k` events
the buffered groups are merged and written; the rest is written at close. -/
def bufferMergerBy (key : Event → Bytes) (specs : List PropSpec) (vp : Option String) (k : Nat)
    (es : List Event) : Except MergeErr (List Event) :=
  match mapE (resolveBy key specs vp) (chunksL k es) with
  | .ok outs => .ok outs.flatten
  | .error e => .error e

def stickyKey (specs : List PropSpec) (e : Event) : Bytes := hashInput (hashedNames specs) e

def resolve (specs : List PropSpec) (vp : Option String) (es : List Event) :=
  resolveBy (stickyKey specs) specs vp es
def foldMerger (specs : List PropSpec) (vp : Option String) (es : List Event) :=
  foldMergerBy (stickyKey specs) specs vp es
def bufferMerger (specs : List PropSpec) (vp : Option String) (k : Nat) (es : List Event) :=
  bufferMergerBy (stickyKey specs) specs vp k es

end Edxml
