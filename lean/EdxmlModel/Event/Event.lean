/-
The logical content of an EDXML event, as every representation exposes it.
-/
import EdxmlModel.Basic.ListSet
import EdxmlModel.Basic.Bytes
namespace Edxml

structure Event where
  type : String
  source : String
  /-- property name ↦ objects; any order, names and objects may repeat (a Python set is the
  set of members of the concatenation) -/
  props : List (String × List String)
  /-- attachment name ↦ (id ↦ value) -/
  atts : List (String × List (String × String)) := []
  parents : List String := []
  foreign : List (String × String) := []
deriving Repr, DecidableEq

/-- All (property, object) pairs of an event. -/
def Event.pairs (e : Event) : List (String × String) :=
  e.props.flatMap fun pv => pv.2.map fun v => (pv.1, v)

/-- The object set of one property (`event[p]` as a sorted list). -/
def Event.objects (e : Event) (p : String) : List String :=
  canonS ((e.pairs.filter (·.1 == p)).map (·.2))

end Edxml
