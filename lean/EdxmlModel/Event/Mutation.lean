/-
C07. The XML-backed event representations (`EventElement`, `ParsedEvent`): an `<event>` element
whose `<properties>` and `<attachments>` children are rewritten by `__update_property` and
`__update_attachment` whenever the event is mutated through its public interface.

`__update_property(key, values)`: remove every child of the property, append one child per object.
`__update_attachment(name, id, value)`: remove the children of the attachment (all of them, or the
one with that id), append one child when a value is given.
The cached `PropertySet` / `AttachmentSet` is what the element holds (that the cache follows the
element is what the correspondence check looks for).
-/
import EdxmlModel.Event.Merge
namespace Edxml.Mut
open Edxml

structure XmlEv where
  type : String
  source : String
  /-- the `parents` attribute, split -/
  parents : List String := []
  /-- attributes other than event-type, source-uri, parents -/
  foreign : List (String × String) := []
  /-- children of `<properties>`: (tag, text), in document order -/
  props : List (String × String) := []
  /-- children of `<attachments>`: (tag, id, text), in document order -/
  atts : List (String × String × String) := []
deriving Repr, DecidableEq

/-- distinct elements, first occurrence kept (iteration over a Python set yields each member once) -/
abbrev dedup [BEq α] (l : List α) : List α := firstOccurrences l

/-! ### what the element holds -/

/-- the objects of a property, as the element has them -/
def XmlEv.objects (x : XmlEv) (p : String) : List String :=
  canonS ((x.props.filter (·.1 == p)).map (·.2))

/-- the value of attachment `name` with identifier `id` -/
def XmlEv.attValue (x : XmlEv) (name id : String) : Option String :=
  (x.atts.find? fun a => a.1 == name && a.2.1 == id).map (·.2.2)

def XmlEv.parentSet (x : XmlEv) : List String := canonS x.parents

def XmlEv.foreignValue (x : XmlEv) (k : String) : Option String :=
  (x.foreign.find? (·.1 == k)).map (·.2)

/-! ### the two update callbacks -/

def updateProp (x : XmlEv) (key : String) (values : List String) : XmlEv :=
  { x with props := x.props.filter (·.1 != key) ++ (dedup values).map (key, ·) }

def updateAtt (x : XmlEv) (name : String) (id : Option String) (value : Option String) : XmlEv :=
  let kept := match id with
    | none => x.atts.filter (·.1 != name)
    | some i => x.atts.filter fun a => !(a.1 == name && a.2.1 == i)
  match id, value with
  | some i, some v => { x with atts := kept ++ [(name, i, v)] }
  | _, _ => { x with atts := kept }

/-! ### public mutations -/

inductive Op
  /-- `e[p] = values`, `e[p].update(...)`, … : every operation that ends with the property holding `values` -/
  | setProp (p : String) (values : List String)
  | delProp (p : String)
  | addObj (p v : String)
  | removeObj (p v : String)
  | updateObjs (p : String) (values : List String)
  | clearObjs (p : String)
  | setProperties (props : List (String × List String))
  /-- `set_attachment(name, {id: value})` (lists and strings are dictionaries keyed by SHA1 of the value) -/
  | setAttachment (name : String) (items : List (String × String))
  | delAttachment (name : String)
  | setAttValue (name id value : String)
  | delAttValue (name id : String)
  | setAttachments (atts : List (String × List (String × String)))
  | setParents (ps : List String)
  | addParents (ps : List String)
  | setType (t : String)
  | setSource (s : String)
  | setForeign (kv : List (String × String))
  | read
deriving Repr

def setAttachment (x : XmlEv) (name : String) (items : List (String × String)) : XmlEv :=
  -- a Python dict holds one value per identifier: the last one given
  items.foldl (fun x iv => updateAtt x name (some iv.1) (some iv.2)) (updateAtt x name none none)

def step (x : XmlEv) : Op → XmlEv
  | .setProp p vs => updateProp x p vs
  | .delProp p => updateProp x p []
  | .addObj p v => updateProp x p (x.objects p ++ [v])
  | .removeObj p v => updateProp x p ((x.objects p).filter (· != v))
  | .updateObjs p vs => updateProp x p (x.objects p ++ vs)
  | .clearObjs p => updateProp x p []
  | .setProperties ps => ps.foldl (fun x pv => updateProp x pv.1 pv.2) { x with props := [] }
  | .setAttachment n items => setAttachment x n items
  | .delAttachment n => updateAtt x n none none
  | .setAttValue n i v => updateAtt x n (some i) (some v)
  | .delAttValue n i => updateAtt x n (some i) none
  | .setAttachments as => as.foldl (fun x a => setAttachment x a.1 a.2) x
  | .setParents ps => { x with parents := dedup ps }
  | .addParents ps => { x with parents := dedup (x.parents ++ ps) }
  | .setType t => { x with type := t }
  | .setSource s => { x with source := s }
  | .setForeign kv => { x with foreign := kv.foldl (fun acc p => acc.filter (·.1 != p.1) ++ [p]) [] }
  | .read => x

/-! ### several live objects: an original and its copies -/

inductive Cmd
  | op (on : Nat) (o : Op)
  | copy (on : Nat)

def runCmd (xs : List XmlEv) : Cmd → List XmlEv
  | .op i o => match xs[i]? with
    | some x => xs.set i (step x o)
    | none => xs
  | .copy i => match xs[i]? with
    | some x => xs ++ [x]
    | none => xs

def run (xs : List XmlEv) (cs : List Cmd) : List XmlEv := cs.foldl runCmd xs

/-- `EDXMLEvent.__eq__`: type, source, properties, attachment identifiers, parents -/
def sameEvent (names : List String) (anames : List String) (ids : List String) (a b : XmlEv) : Bool :=
  a.type == b.type && a.source == b.source && names.all (fun p => a.objects p == b.objects p) &&
    anames.all (fun n => ids.all fun i => (a.attValue n i).isSome == (b.attValue n i).isSome) &&
    a.parentSet == b.parentSet

end Edxml.Mut
