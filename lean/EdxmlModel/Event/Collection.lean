/-
C18. `EventCollection.is_equivalent_of` and `EDXMLEvent.__eq__` (edxml/event_collection.py,
edxml/event.py).
-/
import EdxmlModel.Event.Merge
namespace Edxml

/-- What `EDXMLEvent.__eq__` observes: type, source, the non-empty property object sets, the
attachment *identifiers* per attachment name (values are ignored by design) and the set of parents.
Foreign attributes are not compared. -/
structure EventView where
  type : String
  source : String
  props : List (String × List String)
  attIds : List (String × List String)
  parents : List String
deriving DecidableEq, Repr

def attIdsOf (atts : List (String × List (String × String))) (name : String) : List String :=
  canonS ((atts.filter (·.1 == name)).flatMap fun a => a.2.map (·.1))

/-- attachment name ↦ identifiers, for attachments that have any -/
def attIdsView (atts : List (String × List (String × String))) : List (String × List String) :=
  (canonS (atts.map (·.1))).filterMap fun n =>
    let ids := attIdsOf atts n
    if ids.isEmpty then none else some (n, ids)

def eventView (e : Event) : EventView where
  type := e.type
  source := e.source
  props := (canonS (e.props.map (·.1))).filterMap fun n =>
    let o := e.objects n
    if o.isEmpty then none else some (n, o)
  attIds := attIdsView e.atts
  parents := canonS e.parents

/-- `event == other_event` -/
def eventEq (a b : Event) : Bool := decide (eventView a = eventView b)

/-- `is_equivalent_of`: ontologies equal, then both sides are collision-resolved and compared hash
by hash in both directions. `ontEq` is the verdict of the ontology comparison (C09). -/
def equivBy (key : Event → Bytes) (specs : List PropSpec) (vp : Option String) (ontEq : Bool)
    (a b : List Event) : Except MergeErr Bool :=
  if !ontEq then .ok false else
  match resolveBy key specs vp a with
  | .error e => .error e
  | .ok ra =>
    match resolveBy key specs vp b with
    | .error e => .error e
    | .ok rb =>
      let ka := keysOf key ra
      let kb := keysOf key rb
      if !(ka.all (kb.contains ·) && kb.all (ka.contains ·)) then .ok false else
      .ok (ka.all fun h =>
        match groupOf key h ra, groupOf key h rb with
        | x :: _, y :: _ => eventEq x y
        | _, _ => false)

def equiv (specs : List PropSpec) (vp : Option String) (ontEq : Bool) (a b : List Event) :=
  equivBy (stickyKey specs) specs vp ontEq a b

end Edxml
