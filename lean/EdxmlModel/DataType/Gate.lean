/-
C03. The validation gate: `EventType.generate_relax_ng`, `DataType.generate_relaxng` and the
`_generate_schema_*` family (edxml/ontology), as libxml2 evaluates the generated schema.

`accepts dt regex value` is our executable reading of "libxml2 accepts `value` for the `<data>`
pattern generated for data type `dt`". It is validated against libxml2's verdicts on every run;
for the families listed in `Props/C03.lean` it is proved equal to a declarative value space.
Values with leading/trailing XML whitespace and a few engine-specific corners (float overflow,
`anyURI`) are outside the modelled domain (see DESIGN.md, C03).
-/
import EdxmlModel.Event.Event
import EdxmlModel.Ontology.Cmp
namespace Edxml.Gate
open Edxml Edxml.Ont

def isDigit (c : Char) : Bool := '0' ≤ c && c ≤ '9'
def isLowerHex (c : Char) : Bool := isDigit c || ('a' ≤ c && c ≤ 'f')
def natVal (cs : List Char) : Nat := cs.foldl (fun n c => 10 * n + (c.toNat - 48)) 0
def allDigits (cs : List Char) : Bool := !cs.isEmpty && cs.all isDigit

/-- `([1-9]\d*)|0` -/
def canonNat (cs : List Char) : Bool :=
  match cs with
  | ['0'] => true
  | c :: r => '1' ≤ c && c ≤ '9' && r.all isDigit
  | [] => false

/-- `(-?[1-9]\d*)|0` -/
def canonInt (cs : List Char) : Bool :=
  match cs with
  | '-' :: c :: r => '1' ≤ c && c ≤ '9' && r.all isDigit
  | _ => canonNat cs

def intVal (cs : List Char) : Int :=
  match cs with
  | '-' :: r => -(natVal r : Int)
  | r => (natVal r : Int)

def digitChar : Nat → Char
  | 0 => '0' | 1 => '1' | 2 => '2' | 3 => '3' | 4 => '4' | 5 => '5' | 6 => '6' | 7 => '7' | 8 => '8' | _ => '9'

/-- canonical decimal rendering of a natural number (`str(n)`) -/
def renderNat (n : Nat) : List Char :=
  if n < 10 then [digitChar n] else renderNat (n / 10) ++ [digitChar (n % 10)]
termination_by n
decreasing_by omega

/-- `str(z)` -/
def renderInt (z : Int) : List Char :=
  if z < 0 then '-' :: renderNat z.natAbs else renderNat z.toNat

/-- (signed?, lower bound, upper bound) of the integer families -/
def intRange (kind : String) (signed : Bool) : Option (Int × Int) :=
  match kind, signed with
  | "tinyint", true => some (-128, 127)
  | "tinyint", false => some (0, 255)
  | "smallint", true => some (-32768, 32767)
  | "smallint", false => some (0, 65535)
  | "mediumint", true => some (-8388607, 8388607)
  | "mediumint", false => some (0, 16777215)
  | "int", true => some (-2147483648, 2147483647)
  | "int", false => some (0, 4294967295)
  | "bigint", true => some (-9223372036854775808, 9223372036854775807)
  | "bigint", false => some (0, 18446744073709551615)
  | _, _ => none

def acceptsInt (kind : String) (signed : Bool) (cs : List Char) : Bool :=
  match intRange kind signed with
  | none => false
  | some (lo, hi) =>
    (if signed then canonInt cs else canonNat cs) && decide (lo ≤ intVal cs) && decide (intVal cs ≤ hi)

/-- `unsignedLong`: optional sign, digits, value below 2^64 (only zero may be negative). -/
def acceptsSequence (cs : List Char) : Bool :=
  let (neg, ds) := match cs with
    | '-' :: r => (true, r)
    | '+' :: r => (false, r)
    | r => (false, r)
  allDigits ds && decide (natVal ds ≤ 18446744073709551615) && (!neg || natVal ds == 0)

/-- `[+-]?\d+(\.\d+)?(E[+-]\d+)?`; returns (negative and non-zero mantissa?) when it matches. -/
def floatShape (cs : List Char) : Option Bool :=
  let (neg, r) := match cs with
    | '-' :: r => (true, r)
    | '+' :: r => (false, r)
    | r => (false, r)
  let ip := r.takeWhile isDigit
  let r1 := r.dropWhile isDigit
  if ip.isEmpty then none else
  let (fp, r2, fracOk) := match r1 with
    | '.' :: t => (t.takeWhile isDigit, t.dropWhile isDigit, !(t.takeWhile isDigit).isEmpty)
    | t => ([], t, true)
  if !fracOk then none else
  let expOk := match r2 with
    | [] => true
    | 'E' :: s :: ds => (s == '+' || s == '-') && allDigits ds
    | _ => false
  if !expOk then none else some (neg && (ip ++ fp).any (· != '0'))

def acceptsFloat (signed : Bool) (cs : List Char) : Bool :=
  match floatShape cs with
  | none => false
  | some negNonZero => signed || !negNonZero

/-- libxml2 `totalDigits`: digits of the value without leading integer zeros and trailing
fractional zeros (at least one). -/
def totalDigits (ip fp : List Char) : Nat :=
  let i := ip.dropWhile (· == '0')
  let f := (fp.reverse.dropWhile (· == '0')).reverse
  max 1 (i.length + f.length)

/-- an optional minus sign: (negative?, rest) -/
def splitMinus : List Char → Bool × List Char
  | '-' :: r => (true, r)
  | r => (false, r)

/-- what follows the integer part: nothing when the type has no fractional digits, else a dot and
exactly `frac` digits -/
def fracOf (frac : Nat) (r1 : List Char) : Option (List Char) :=
  match r1, frac with
  | [], 0 => some []
  | '.' :: t, (_ + 1) => if t.all isDigit && t.length == frac then some t else none
  | _, _ => none

/-- decimal with `frac` fractional digits and at most `total` significant digits -/
def acceptsDecimal (total frac : Nat) (signed : Bool) (cs : List Char) : Bool :=
  let neg := (splitMinus cs).1
  let r := (splitMinus cs).2
  let ip := r.takeWhile isDigit
  match fracOf frac (r.dropWhile isDigit) with
  | none => false
  | some fp =>
    canonNat ip && (!neg || signed) &&
    -- zero is unsigned
    (!neg || (ip ++ fp).any (· != '0')) &&
    decide (totalDigits ip fp ≤ total)

/-- `n` further groups, each a separator followed by `k` lower-case hex digits, then the end -/
def hexTail (k : Nat) (sep : List Char) : Nat → List Char → Bool
  | 0, cs => cs.isEmpty
  | n + 1, cs =>
    sep.isPrefixOf cs &&
      let r := cs.drop sep.length
      decide (k ≤ r.length) && (r.take k).all isLowerHex && hexTail k sep n (r.drop k)

def acceptsHex (bytes : Nat) (group : Option (Nat × String)) (cs : List Char) : Bool :=
  match group with
  | none => cs.length == 2 * bytes && cs.all isLowerHex
  | some (g, sep) =>
    if g == 0 then false else
    let n := bytes / g
    let k := 2 * g
    -- n groups of 2g lower-case hex digits joined by sep (matched left to right, like the pattern)
    decide (1 ≤ n) && decide (k ≤ cs.length) && (cs.take k).all isLowerHex && hexTail k sep.toList (n - 1) (cs.drop k)

def acceptsUuid (cs : List Char) : Bool :=
  let parts := splitOnChar '-' cs
  parts.map List.length == [8, 4, 4, 4, 12] && parts.all (·.all isLowerHex)

/-- an octet without zero padding: `1[0-9]{2}|[1-9]?[0-9]|2[0-4][0-9]|25[0-5]` -/
def isOctet (cs : List Char) : Bool := canonNat cs && decide (natVal cs ≤ 255)

def acceptsIpv4 (cs : List Char) : Bool :=
  let parts := splitOnChar '.' cs
  parts.length == 4 && parts.all isOctet

def acceptsIpv6 (cs : List Char) : Bool :=
  let parts := splitOnChar ':' cs
  parts.length == 8 && parts.all fun p => p.length == 4 && p.all isLowerHex

def isLeap (y : Nat) : Bool := (y % 4 == 0 && y % 100 != 0) || y % 400 == 0
def daysIn (y m : Nat) : Nat :=
  if m == 2 then (if isLeap y then 29 else 28)
  else if m == 4 || m == 6 || m == 9 || m == 11 then 30 else 31

/-- `YYYY-MM-DDThh:mm:ss.ffffffZ`, year 1583..9999, a real calendar date and time of day -/
def acceptsDatetime (cs : List Char) : Bool :=
  match cs with
  | [y1, y2, y3, y4, '-', m1, m2, '-', d1, d2, 'T', h1, h2, ':', n1, n2, ':', s1, s2, '.', f1, f2, f3, f4, f5, f6, 'Z'] =>
    let ds := [y1, y2, y3, y4, m1, m2, d1, d2, h1, h2, n1, n2, s1, s2, f1, f2, f3, f4, f5, f6]
    let y := natVal [y1, y2, y3, y4]
    let m := natVal [m1, m2]
    let d := natVal [d1, d2]
    ds.all isDigit && decide (1583 ≤ y) && decide (1 ≤ m) && decide (m ≤ 12) && decide (1 ≤ d) &&
      decide (d ≤ daysIn y m) && decide (natVal [h1, h2] ≤ 23) && decide (natVal [n1, n2] ≤ 59) &&
      decide (natVal [s1, s2] ≤ 59)
  | _ => false

/-- six-decimal coordinate `-?int.dddddd`; returns (negative, integer part, all-zero fraction) -/
def coord (cs : List Char) : Option (Bool × Nat × Bool) :=
  let (neg, r) := match cs with
    | '-' :: r => (true, r)
    | r => (false, r)
  let ip := r.takeWhile isDigit
  match r.dropWhile isDigit with
  | '.' :: f => if canonNat ip && f.length == 6 && f.all isDigit then some (neg, natVal ip, f.all (· == '0')) else none
  | _ => none

/-- latitude in [-90,90], longitude in (-180,180]; the poles only with longitude `0.000000` -/
def acceptsGeo (cs : List Char) : Bool :=
  match splitOnChar ',' cs with
  | [la, lo] =>
    match coord la, coord lo with
    | some (_, lat, latZ), some (lonNeg, lon, lonZ) =>
      if lat == 90 then latZ && !lonNeg && lon == 0 && lonZ
      else decide (lat ≤ 89) && (decide (lon ≤ 179) || (lon == 180 && lonZ && !lonNeg))
    | _, _ => false
  | _ => false

/-- canonical base64 without whitespace; decoded length -/
def isB64 (c : Char) : Bool :=
  ('A' ≤ c && c ≤ 'Z') || ('a' ≤ c && c ≤ 'z') || isDigit c || c == '+' || c == '/'

def b64Index (c : Char) : Nat :=
  if 'A' ≤ c && c ≤ 'Z' then c.toNat - 65
  else if 'a' ≤ c && c ≤ 'z' then c.toNat - 71
  else if isDigit c then c.toNat + 4
  else if c == '+' then 62 else 63

/-- the unused low bits of the last symbol must be zero (canonical form) -/
def lastOkB (padLength : Nat) (last : Option Char) : Bool :=
  match padLength, last with
  | 1, some c => b64Index c % 4 == 0
  | 2, some c => b64Index c % 16 == 0
  | _, _ => true

def base64DecodedLength (cs : List Char) : Option Nat :=
  if cs.length % 4 != 0 || cs.isEmpty then none else
  let body := cs.takeWhile (· != '=')
  let pad := cs.dropWhile (· != '=')
  if !body.all isB64 || !pad.all (· == '=') || pad.length > 2 then none else
  if !lastOkB pad.length body.getLast? then none else some (body.length * 3 / 4)

/-- the base64 alphabet -/
def b64Alphabet : List Char := "ABCDEFGHIJKLMNOPQRSTUVWXYZabcdefghijklmnopqrstuvwxyz0123456789+/".toList

def b64Char (n : Nat) : Char := b64Alphabet.getD n '/'

/-- RFC 4648 encoding of a sequence of octets (numbers below 256) -/
def b64Encode : List Nat → List Char
  | [] => []
  | [a] => [b64Char (a / 4), b64Char (a % 4 * 16), '=', '=']
  | [a, b] => [b64Char (a / 4), b64Char (a % 4 * 16 + b / 16), b64Char (b % 16 * 4), '=']
  | a :: b :: c :: r =>
    b64Char (a / 4) :: b64Char (a % 4 * 16 + b / 16) :: b64Char (b % 16 * 4 + c / 64) :: b64Char (c % 64) :: b64Encode r

/-- the octets a canonical base64 string denotes -/
def b64Decode : List Char → List Nat
  | w :: x :: y :: z :: r =>
    if y == '=' then [b64Index w * 4 + b64Index x / 16]
    else if z == '=' then [b64Index w * 4 + b64Index x / 16, b64Index x % 16 * 16 + b64Index y / 4]
    else (b64Index w * 4 + b64Index x / 16) :: (b64Index x % 16 * 16 + b64Index y / 4) ::
      (b64Index y % 4 * 64 + b64Index z) :: b64Decode r
  | _ => []


def acceptsBase64 (maxLen : Nat) (cs : List Char) : Bool :=
  match base64DecodedLength cs with
  | some n => decide (1 ≤ n) && (maxLen == 0 || decide (n ≤ maxLen))
  | none => false

inductive Family
  | datetime | sequence | int (kind : String) (signed : Bool) | float (signed : Bool)
  | decimal (total frac : Nat) (signed : Bool) | hex (bytes : Nat) (group : Option (Nat × String))
  | uuid | boolean | enum (values : List String) | ipv4 | ipv6 | geo | base64 (maxLen : Nat)
  | string (maxLen : Nat) (case : String) (unicode : Bool) | uri | file | unknown
deriving Repr, DecidableEq

def parseNat? (s : String) : Option Nat :=
  if allDigits s.toList then some (natVal s.toList) else none

def familyOf : List String → Family
  | ["datetime"] => .datetime
  | ["sequence"] => .sequence
  | ["number", k] => if k == "float" || k == "double" then .float false
      else if k == "currency" then .decimal 19 4 true else .int k false
  | ["number", k, "signed"] => if k == "float" || k == "double" then .float true else .int k true
  | ["number", "decimal", t, f] => match parseNat? t, parseNat? f with
      | some t, some f => .decimal t f false
      | _, _ => .unknown
  | ["number", "decimal", t, f, "signed"] => match parseNat? t, parseNat? f with
      | some t, some f => .decimal t f true
      | _, _ => .unknown
  | ["hex", n] => match parseNat? n with | some n => .hex n none | none => .unknown
  | ["hex", n, g, sep] => match parseNat? n, parseNat? g with
      | some n, some g => .hex n (some (g, sep))
      | _, _ => .unknown
  | ["hex", n, g, "", ""] => match parseNat? n, parseNat? g with
      | some n, some g => .hex n (some (g, ":"))
      | _, _ => .unknown
  | ["uuid"] => .uuid
  | ["boolean"] => .boolean
  | ["ip", "v4"] => .ipv4
  | ["ip", "v6"] => .ipv6
  | ["geo", "point"] => .geo
  | ["base64", n] => match parseNat? n with | some n => .base64 n | none => .unknown
  | ["string", n, c] => match parseNat? n with | some n => .string n c false | none => .unknown
  | ["string", n, c, fl] => match parseNat? n with
      | some n => .string n c (fl.toList.contains 'u')
      | none => .unknown
  | "uri" :: _ => .uri
  | ["file"] => .file
  | _ => .unknown

def family (dt : String) : Family :=
  match splitColon dt with
  | "enum" :: vs => .enum vs
  | parts => familyOf parts

/-- Character classes for the string family are supplied by the harness per value (Unicode general
categories are data, not logic): does the value contain an upper-case (Lu) / lower-case (Ll)
letter, is every character below U+0100. -/
structure StrInfo where
  hasLu : Bool
  hasLl : Bool
  latin1 : Bool
  /-- verdict of the object type's hard regular expression on the value (none: no regex) -/
  regexOk : Option Bool

def acceptsString (maxLen : Nat) (case : String) (unicode : Bool) (info : StrInfo) (cs : List Char) : Bool :=
  decide (1 ≤ cs.length) && (maxLen == 0 || decide (cs.length ≤ maxLen)) &&
  (unicode || info.latin1) &&
  (if case == "lc" then !info.hasLu else if case == "uc" then !info.hasLl else true) &&
  (info.regexOk.getD true)

/-- The value space recogniser of a data type family. -/
def acceptsFam (f : Family) (info : StrInfo) (value : String) : Bool :=
  let cs := value.toList
  match f with
  | .datetime => acceptsDatetime cs
  | .sequence => acceptsSequence cs
  | .int k s => acceptsInt k s cs
  | .float s => acceptsFloat s cs
  | .decimal t f s => acceptsDecimal t f s cs
  | .hex n g => acceptsHex n g cs
  | .uuid => acceptsUuid cs
  | .boolean => value == "true" || value == "false"
  | .enum vs => vs.contains value
  | .ipv4 => acceptsIpv4 cs
  | .ipv6 => acceptsIpv6 cs
  | .geo => acceptsGeo cs
  | .base64 n => acceptsBase64 n cs
  | .string n c u => acceptsString n c u info cs
  | .uri | .file => true
  | .unknown => false

/-- The gate's verdict on one object value. -/
def accepts (dt : String) (info : StrInfo) (value : String) : Bool :=
  acceptsFam (family dt) info value

/-! ### structure of an event -/

structure GProp where
  name : String
  dataType : String
  optional : Bool
  multivalued : Bool
deriving Repr

structure GAttachment where
  name : String
  base64 : Bool
deriving Repr

structure GEventType where
  props : List GProp
  attachments : List GAttachment
deriving Repr

def isNameChar (c : Char) : Bool := ('a' ≤ c && c ≤ 'z') || isDigit c || c == '.' || c == '-'

/-- `[a-z0-9.-]*`, 1..64 characters -/
def eventTypeAttrOk (s : String) : Bool :=
  decide (1 ≤ s.length) && decide (s.length ≤ 64) && s.toList.all isNameChar

/-- `(/[a-z0-9-]+)*/` -/
def sourceUriOk (s : String) : Bool :=
  match splitOnChar '/' s.toList with
  | [] => false
  | first :: rest =>
    first.isEmpty && !rest.isEmpty && rest.getLast? == some [] &&
      rest.dropLast.all fun seg => !seg.isEmpty && seg.all fun c => ('a' ≤ c && c ≤ 'z') || isDigit c || c == '-'

def parentOk (s : String) : Bool := s.length == 40 && s.toList.all isLowerHex

/-- one `(property name, objects)` entry: the property is declared and every object is in the
value space of its data type (an entry without objects is no element at all) -/
def propOk (et : GEventType) (infoOf : String → String → StrInfo) (pv : String × List String) : Bool :=
  match et.props.find? (·.name == pv.1) with
  | none => pv.2.isEmpty
  | some p => pv.2.all fun v => accepts p.dataType (infoOf pv.1 v) v

/-- mandatory properties have an object, single-valued ones at most one -/
def cardOk (e : Event) (p : GProp) : Bool :=
  let n := (e.objects p.name).length
  (p.optional || decide (1 ≤ n)) && (p.multivalued || decide (n ≤ 1))

def attValueOk (base64 : Bool) (v : String) : Bool :=
  if base64 then (match base64DecodedLength v.toList with | some n => decide (1 ≤ n) | none => false)
  else decide (1 ≤ v.length)

/-- one `(attachment name, [(id, value)])` entry: declared, ids of 1..40 characters, values
non-empty and (for base64 attachments) correctly encoded -/
def attOk (et : GEventType) (a : String × List (String × String)) : Bool :=
  match et.attachments.find? (·.name == a.1) with
  | none => a.2.isEmpty
  | some d => a.2.all fun iv =>
      decide (1 ≤ iv.1.length) && decide (iv.1.length ≤ 40) && attValueOk d.base64 iv.2

/-- foreign attributes must carry a namespace other than EDXML's -/
def foreignOk (kv : String × String) : Bool :=
  kv.1.startsWith "{" && !kv.1.startsWith "{}" && !kv.1.startsWith "{http://edxml.org/edxml}"

/-- The verdict of the gate on an event. `infoOf p v` supplies the character-class facts about
object `v` of property `p`. -/
def gate (et : GEventType) (infoOf : String → String → StrInfo) (e : Event) : Bool :=
  eventTypeAttrOk e.type && sourceUriOk e.source && e.parents.all parentOk &&
  e.props.all (propOk et infoOf) && et.props.all (cardOk e) && e.atts.all (attOk et) &&
  e.foreign.all foreignOk

/-! ### the validator and its schema caches (edxml/event_validator.py)

`EventValidator` keeps, per event type name and per flavour (namespaced or not), the schema it
compiled, and `__ontology_version`, which is initialised to zero and never assigned again. The
ontology is abstracted to its event type definitions and its change counter (C12). -/

structure GOnt where
  types : List (String × GEventType) := []
  version : Nat := 0

inductive OntOp
  /-- a mutator after which event type `name` is defined as `et` (created or changed) -/
  | define (name : String) (et : GEventType)
  /-- `delete_event_type` -/
  | remove (name : String)
  /-- any other notified mutation -/
  | touch
  /-- `Ontology.clear()`: resets the counter (C12 known finding) -/
  | clear

def GOnt.lookup (o : GOnt) (name : String) : Option GEventType :=
  (o.types.find? (·.1 == name)).map (·.2)

def GOnt.apply (o : GOnt) : OntOp → GOnt
  | .define n et => { types := (n, et) :: o.types.filter (·.1 != n), version := o.version + 1 }
  | .remove n => { types := o.types.filter (·.1 != n), version := o.version + 1 }
  | .touch => { o with version := o.version + 1 }
  | .clear => { types := [], version := 0 }

structure VState where
  seen : Nat := 0
  /-- (event type name, namespaced flavour) ↦ the definition the cached schema was compiled from -/
  cache : List ((String × Bool) × GEventType) := []

/-- `EventValidator.is_valid(event)`: the verdict and the validator's next state. -/
def VState.validate (v : VState) (o : GOnt) (infoOf : String → String → StrInfo) (namespaced : Bool)
    (e : Event) : Bool × VState :=
  let cache := if o.version > v.seen then [] else v.cache
  match o.lookup e.type with
  | none => (false, { v with cache := cache })
  | some et =>
    match cache.find? (·.1 == (e.type, namespaced)) with
    | some hit => (gate hit.2 infoOf e, { v with cache := cache })
    | none => (gate et infoOf e, { v with cache := ((e.type, namespaced), et) :: cache })

/-- A history: ontology mutations interleaved with validations by one long-lived validator. Each
validation carries the character-class and regular-expression facts about its objects (computed
against the ontology as it is at that moment). -/
inductive HistOp
  | mutate (op : OntOp)
  | validate (namespaced : Bool) (e : Event) (infoOf : String → String → StrInfo)

def runHist : GOnt → VState → List HistOp → List Bool
  | _, _, [] => []
  | o, v, .mutate op :: rest => runHist (o.apply op) v rest
  | o, v, .validate ns e infoOf :: rest =>
    let r := v.validate o infoOf ns e
    r.1 :: runHist o r.2 rest

/-- What a validator without any memory answers. -/
def freshVerdict (o : GOnt) (infoOf : String → String → StrInfo) (e : Event) : Bool :=
  match o.lookup e.type with
  | none => false
  | some et => gate et infoOf e

def specHist : GOnt → List HistOp → List Bool
  | _, [] => []
  | o, .mutate op :: rest => specHist (o.apply op) rest
  | o, .validate _ e infoOf :: rest => freshVerdict o infoOf e :: specHist o rest

end Edxml.Gate
