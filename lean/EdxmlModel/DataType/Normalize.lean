/-
C13. Object value normalization: `DataType.normalize_objects` and the `_normalize_*` family,
`DataType.format_utc_datetime` (edxml/ontology/data_type.py).

Python values are abstracted to `Native`. Strings are the ASCII notations listed with each
normalizer; what Python's `int()`, `Decimal()`, `float()` and dateutil accept beyond that is
outside the modelled domain (the driver answers `undecided` and the harness compares only the
independent oracle there).
-/
import EdxmlModel.DataType.Gate
namespace Edxml.Norm
open Edxml Edxml.Gate

inductive Native
  | int (z : Int)
  /-- `Decimal`: `(-1)^neg * coeff * 10^exp`; negative zero is `dec true 0 e` -/
  | dec (neg : Bool) (coeff : Nat) (exp : Int)
  | bool (b : Bool)
  | str (s : String)
  /-- `datetime`: civil fields and the UTC offset in minutes (`none`: naive) -/
  | datetime (y mo d h mi s us : Nat) (offset : Option Int)
  | none
deriving Repr, DecidableEq

inductive Out
  | ok (s : String)
  /-- `EDXMLEventValidationError` -/
  | reject
  /-- outside the modelled domain -/
  | undecided
deriving Repr, DecidableEq

/-! ### numerals -/

/-- an optional sign: (negative?, rest) -/
def splitSign : List Char → Bool × List Char
  | '-' :: r => (true, r)
  | '+' :: r => (false, r)
  | r => (false, r)

/-- `[+-]?[0-9]+` as Python's `int()` / `Decimal()` read it -/
def parseInt (cs : List Char) : Option Int :=
  let sg := splitSign cs
  if allDigits sg.2 then some (if sg.1 then -(natVal sg.2 : Int) else natVal sg.2) else none

/-- `[+-]?[0-9]+(\.[0-9]*)?([eE][+-]?[0-9]+)?` and `[+-]?\.[0-9]+…` as `Decimal()` reads it:
(negative?, coefficient, exponent) -/
def parseDec (cs : List Char) : Option (Bool × Nat × Int) :=
  let neg := (splitSign cs).1
  let r := (splitSign cs).2
  let ip := r.takeWhile isDigit
  let r1 := r.dropWhile isDigit
  let (fp, r2) := match r1 with
    | '.' :: t => (t.takeWhile isDigit, t.dropWhile isDigit)
    | t => ([], t)
  if ip.isEmpty && fp.isEmpty then none else
  let ex : Option Int := match r2 with
    | [] => some 0
    | e :: t => if e == 'e' || e == 'E' then parseInt t else none
  match ex with
  | none => none
  | some x => some (neg, natVal (ip ++ fp), x - fp.length)

/-! ### integers: `'%d' % int(value)` -/

/-- `int(Decimal)`: truncation towards zero -/
def truncDec (neg : Bool) (coeff : Nat) (exp : Int) : Int :=
  let m : Nat := if exp ≥ 0 then coeff * 10 ^ exp.toNat else coeff / 10 ^ (-exp).toNat
  if neg then -(m : Int) else m

def normInt : Native → Out
  | .int z => .ok (String.ofList (renderInt z))
  | .bool b => .ok (if b then "1" else "0")
  | .dec neg c e => .ok (String.ofList (renderInt (truncDec neg c e)))
  | .str s => match parseInt s.toList with
    | some z => .ok (String.ofList (renderInt z))
    | none => if s.toList.all (fun c => isDigit c || c == '+' || c == '-' || c == '.' || c == 'e' || c == 'E' || ('a' ≤ c && c ≤ 'z'))
              then .reject else .undecided
  | .datetime .. => .reject
  | .none => .reject

/-! ### decimals: `format(Decimal(value), '.Nf')`, zero unsigned -/

def padLeft (n : Nat) (cs : List Char) : List Char := List.replicate (n - cs.length) '0' ++ cs

/-- the decimal numeral of `scaled / 10^frac` with exactly `frac` fractional digits -/
def renderScaled (frac : Nat) (neg : Bool) (scaled : Nat) : List Char :=
  (if neg && scaled != 0 then ['-'] else []) ++ renderNat (scaled / 10 ^ frac) ++
    (if frac = 0 then [] else '.' :: padLeft frac (renderNat (scaled % 10 ^ frac)))

/-- round half to even of `n / d` -/
def roundHalfEven (n d : Nat) : Nat :=
  let q := n / d
  let r := n % d
  if 2 * r < d then q else if 2 * r > d then q + 1 else if q % 2 = 0 then q else q + 1

/-- the value scaled by `10^frac`, rounded half-even when it has more fractional digits -/
def scaleDec (frac : Nat) (coeff : Nat) (exp : Int) : Nat :=
  let sh : Int := exp + frac
  if sh ≥ 0 then coeff * 10 ^ sh.toNat else roundHalfEven coeff (10 ^ (-sh).toNat)

def normDecimalOf (frac : Nat) (neg : Bool) (coeff : Nat) (exp : Int) : Out :=
  .ok (String.ofList (renderScaled frac neg (scaleDec frac coeff exp)))

def normDecimal (frac : Nat) : Native → Out
  | .int z => normDecimalOf frac (decide (z < 0)) z.natAbs 0
  | .bool b => normDecimalOf frac false (if b then 1 else 0) 0
  | .dec neg c e => normDecimalOf frac neg c e
  | .str s => match parseDec s.toList with
    | some (neg, c, e) => normDecimalOf frac neg c e
    | none => if s.toList.all (fun c => isDigit c || c == '+' || c == '-' || c == '.' || c == ',' || ('a' ≤ c && c ≤ 'd') || ('f' ≤ c && c ≤ 'z'))
                && !(["nan", "inf", "infinity", "snan"].contains (String.ofList ((s.toList.filter (fun c => c != '+' && c != '-')))))
              then .reject else .undecided
  | .datetime .. => .reject
  | .none => .reject

/-! ### booleans -/

def normBool : Native → Out
  | .bool b => .ok (if b then "true" else "false")
  | .int 1 => .ok "true"
  | .int 0 => .ok "false"
  | .dec false 1 0 => .ok "true"
  | .dec _ 0 _ => .ok "false"
  | .str "true" => .ok "true"
  | .str "True" => .ok "true"
  | .str "false" => .ok "false"
  | .str "False" => .ok "false"
  | .dec .. => .undecided
  | _ => .reject

/-! ### hex, strings (ASCII), base64 padding -/

def asciiLower (c : Char) : Char := if 'A' ≤ c && c ≤ 'Z' then Char.ofNat (c.toNat + 32) else c
def asciiUpper (c : Char) : Char := if 'a' ≤ c && c ≤ 'z' then Char.ofNat (c.toNat - 32) else c
def isAscii (s : String) : Bool := s.toList.all fun c => c.toNat < 128

def normHex : Native → Out
  | .str s => if isAscii s then .ok (String.ofList (s.toList.map asciiLower)) else .undecided
  | .int _ | .bool _ | .dec .. | .datetime .. | .none => .reject

def normString (maxLen : Nat) (case : String) : Native → Out
  | .str s =>
    if !isAscii s then .undecided
    else if maxLen > 0 && s.length > maxLen then .reject
    else if case == "lc" then .ok (String.ofList (s.toList.map asciiLower))
    else if case == "uc" then .ok (String.ofList (s.toList.map asciiUpper))
    else .ok s
  | _ => .undecided

/-- pad to a multiple of four; then the value must decode (`base64.decodebytes` skips characters
outside the alphabet and fails on a lone sextet) -/
def normBase64 : Native → Out
  | .str s =>
    let cs := s.toList
    if !isAscii s then .undecided else
    let padded := cs ++ List.replicate ((4 - cs.length % 4) % 4) '='
    -- decodebytes discards everything outside the alphabet; undecided unless the value is clean
    if cs.all (fun c => isB64 c || c == '=') then
      (if (cs.takeWhile (· != '=')).length % 4 == 1 then .reject
       else if (cs.dropWhile (· != '=')).all (· == '=') then .ok (String.ofList padded) else .undecided)
    else .undecided
  | .int _ | .bool _ | .dec .. | .datetime .. | .none => .reject

/-! ### datetime: conversion to UTC and formatting -/

/-- days since 1970-01-01 of a proleptic Gregorian date (Hinnant) -/
def daysFromCivil (y m d : Int) : Int :=
  let y := if m ≤ 2 then y - 1 else y
  let era := (if y ≥ 0 then y else y - 399) / 400
  let yoe := y - era * 400
  let mp := (m + 9) % 12
  let doy := (153 * mp + 2) / 5 + d - 1
  let doe := yoe * 365 + yoe / 4 - yoe / 100 + doy
  era * 146097 + doe - 719468

def civilFromDays (z : Int) : Int × Int × Int :=
  let z := z + 719468
  let era := (if z ≥ 0 then z else z - 146096) / 146097
  let doe := z - era * 146097
  let yoe := (doe - doe / 1460 + doe / 36524 - doe / 146096) / 365
  let y := yoe + era * 400
  let doy := doe - (365 * yoe + yoe / 4 - yoe / 100)
  let mp := (5 * doy + 2) / 153
  let d := doy - (153 * mp + 2) / 5 + 1
  let m := if mp < 10 then mp + 3 else mp - 9
  (if m ≤ 2 then y + 1 else y, m, d)

def pad (n : Nat) (v : Nat) : List Char := padLeft n (renderNat v)

/-- `strftime('%Y-%m-%dT%H:%M:%S.%fZ')` for years 1000..9999 -/
def formatUtc (y mo d h mi s us : Nat) : String :=
  String.ofList (pad 4 y ++ '-' :: pad 2 mo ++ '-' :: pad 2 d ++ 'T' :: pad 2 h ++ ':' :: pad 2 mi ++ ':' :: pad 2 s
    ++ '.' :: pad 6 us ++ ['Z'])

def normDatetime : Native → Out
  | .datetime y mo d h mi s us off =>
    match off with
    | none => if 1000 ≤ y then .ok (formatUtc y mo d h mi s us) else .undecided
    | some o =>
      -- minutes since the epoch in UTC
      let total : Int := (daysFromCivil y mo d * 24 + h) * 60 + mi - o
      let days := total.fdiv 1440
      let rem := (total.fmod 1440).toNat
      let (y', mo', d') := civilFromDays days
      if 1000 ≤ y' && y' ≤ 9999 then .ok (formatUtc y'.toNat mo'.toNat d'.toNat (rem / 60) (rem % 60) s us)
      else .undecided
  | .int _ | .bool _ | .dec .. | .none => .reject
  | .str _ => .undecided

/-- `DataType.normalize_objects([value])` for the families the model covers -/
def normalize (dt : String) (x : Native) : Out :=
  match family dt with
  | .int _ _ => normInt x
  | .decimal _ f _ => normDecimal f x
  | .boolean => normBool x
  | .hex _ _ => normHex x
  | .string n c _ => normString n c x
  | .base64 _ => normBase64 x
  | .datetime => normDatetime x
  | _ => .undecided

end Edxml.Norm
