/-
C17. How `ObjectTranscoder.generate` (edxml/transcode/object/object_transcoder.py) takes object
values from a record: the keys of PROPERTY_MAP are dotted paths into the record (dictionaries by
key, lists by index, a path that leads nowhere gives nothing), a list gives its members, a boolean
is rendered, empty values are left out, and every property named for the path receives the values.

Records are JSON-like values. Outside the model: objects with attributes (only dictionaries, lists
and scalars), field names that are attributes of Python's builtin types (`getattr('x', 'upper')`),
notations of list indexes beyond an optional sign and ASCII digits, floats.
-/
namespace Edxml.Transcode

inductive RVal
  | null
  | bool (b : Bool)
  | int (n : Int)
  | str (s : String)
  | list (l : List RVal)
  | obj (kv : List (String × RVal))
deriving Repr

/-- `int(field)` for an optional sign and ASCII digits -/
def parseIdx (s : String) : Option Int :=
  let cs := s.toList
  let (neg, ds) := match cs with
    | '-' :: r => (true, r)
    | '+' :: r => (false, r)
    | r => (false, r)
  if ds.isEmpty || !(ds.all Char.isDigit) then none
  else
    let n : Nat := ds.foldl (fun a c => a * 10 + (c.toNat - '0'.toNat)) 0
    some (if neg then -(n : Int) else (n : Int))

/-- Python's `seq[i]`: negative indexes count from the end; `none` is an IndexError -/
def pyIndex (l : List α) (i : Int) : Option α :=
  if 0 ≤ i then l[i.toNat]? else
  if (-i).toNat ≤ l.length then l[l.length - (-i).toNat]? else none

def lookupKey (kv : List (String × RVal)) (k : String) : Option RVal := (kv.find? (·.1 == k)).map (·.2)

/-- one step down: `value.get(field)`, else `value[int(field)]`; `null` is Python's `None` (a key
that is missing, an index that does not exist, a scalar that has no fields) -/
def step (v : RVal) (field : String) : RVal :=
  match v with
  | .obj kv => (lookupKey kv field).getD .null
  | .list l => match parseIdx field with
    | some i => (pyIndex l i).getD .null
    | none => .null
  | .str s => match parseIdx field with
    | some i => match pyIndex s.toList i with
      | some c => .str (String.singleton c)
      | none => .null
    | none => .null
  | _ => .null

/-- follow a path -/
def descend (v : RVal) : List String → RVal
  | [] => v
  | f :: rest => descend (step v f) rest

/-- Python's `==` between scalars: `True == 1`, `False == 0`; containers never equal a scalar -/
def pyEq : RVal → RVal → Bool
  | .null, .null => true
  | .bool a, .bool b => a == b
  | .int a, .int b => a == b
  | .str a, .str b => a == b
  | .bool a, .int b => (if a then 1 else 0) == b
  | .int a, .bool b => a == (if b then 1 else 0)
  | _, _ => false

def isEmptyVal (empty : List RVal) (v : RVal) : Bool := empty.any (pyEq v)

/-- the object values a found field gives; `none`: the field was not found (`None`) -/
def fieldValues (empty : List RVal) : RVal → Option (List RVal)
  | .null => none
  | .list l => some (l.filter fun x => !isEmptyVal empty x)
  | .bool b => some [.str (if b then "true" else "false")]
  | v => some (if isEmptyVal empty v then [] else [v])

/-- `selector.split('.')` -/
def splitDot : List Char → List Char → List (List Char)
  | [], acc => [acc.reverse]
  | '.' :: r, acc => acc.reverse :: splitDot r []
  | c :: r, acc => splitDot r (c :: acc)

def pathOf (selector : String) : List String := (splitDot selector.toList []).map String.ofList

structure MapEntry where
  selector : String
  props : List String
  /-- `[''] + EMPTY_VALUES.get(selector, ())` -/
  empty : List RVal

def setProp (ps : List (String × List RVal)) (p : String) (vs : List RVal) : List (String × List RVal) :=
  if ps.any (·.1 == p) then ps.map fun kv => if kv.1 == p then (p, vs) else kv else ps ++ [(p, vs)]

/-- the loop over PROPERTY_MAP: the property dictionary of the generated event -/
def generateProps (rec : RVal) (pmap : List MapEntry) : List (String × List RVal) :=
  pmap.foldl (fun ps e =>
    match fieldValues e.empty (descend rec (pathOf e.selector)) with
    | none => ps
    | some vs => e.props.foldl (fun ps p => setProp ps p vs) ps) []

def getProp (ps : List (String × List RVal)) (p : String) : Option (List RVal) := (ps.find? (·.1 == p)).map (·.2)

end Edxml.Transcode
