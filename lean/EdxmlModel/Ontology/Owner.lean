/-
C12 / C11. Who is told about a change: every ontology element keeps a reference to the element that
contains it (an object type, concept, source or event type to its ontology; a property, relation,
attachment or parent definition to its event type; a concept association to its property), and
`_child_modified_callback()` walks these references up to an ontology, whose change counter moves
(edxml/ontology/*.py). `Ontology.update()` and `EventType.update()` adopt definitions from another
ontology: they must be copied or re-pointed (`_set_event_type`), or their changes are reported to the
ontology they came from.

Objects are numbered; `owner x` is the back reference of object `x` (`none` for an ontology);
`children y` are the objects that `y` holds (what the public getters of `y` return).
-/
namespace Edxml.Owner

structure Heap where
  owner : Nat → Option Nat
  children : Nat → List Nat

/-- `_child_modified_callback()` on object `x`: the object at which the walk ends (an ontology when
the references are sound). `fuel` bounds the walk (ontologies are at most three levels up). -/
def notified (h : Heap) : Nat → Nat → Nat
  | 0, x => x
  | fuel + 1, x => match h.owner x with
    | none => x
    | some y => notified h fuel y

/-- the containment edges of a finite part of the heap: (container, element) -/
def ownedB (h : Heap) (edges : List (Nat × Nat)) : Bool :=
  edges.all fun e => h.owner e.2 == some e.1

/-- a definition is put into container `y`: by creating it there, or by adopting it with its back
reference re-pointed -/
def attach (h : Heap) (y x : Nat) : Heap :=
  { owner := fun k => if k = x then some y else h.owner k,
    children := fun k => if k = y then x :: h.children k else h.children k }

/-- adoption by reference without re-pointing: the element keeps the owner it had -/
def attachStale (h : Heap) (y x : Nat) : Heap :=
  { h with children := fun k => if k = y then x :: h.children k else h.children k }

def detach (h : Heap) (y x : Nat) : Heap :=
  { h with children := fun k => if k = y then (h.children k).filter (· != x) else h.children k }

end Edxml.Owner
