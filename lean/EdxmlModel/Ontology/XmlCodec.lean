/-
C08. Ontology <-> XML: the `generate_xml` / `create_from_xml` pairs of the ontology elements
(edxml/ontology/*.py) at the level of XML attributes.

Every element class keeps a dictionary of attributes; `generate_xml` leaves out attributes that are
at their default or absent and renders booleans and integers; `create_from_xml` reads them back,
filling in the defaults. Each class is described by a table of attribute rules; the tables are
compared with the code by the correspondence check.
-/
import EdxmlModel.DataType.Gate
namespace Edxml.Codec
open Edxml Edxml.Gate

inductive VKind | str | bool | nat
deriving DecidableEq, Repr

/-- how an attribute is written and read back -/
inductive Rule
  /-- always written; must be present -/
  | req
  /-- `None` in memory ↔ absent in XML -/
  | opt
  /-- left out when equal to the default; absent means the default -/
  | dflt (d : String)
  /-- always written; absent means the default -/
  | always (d : String)
  /-- `None` or the default in memory are both left out; absent means `None` (prefix-radix) -/
  | dfltNone (d : String)
  /-- left out when falsy (`None` or empty); must be present (event type attributes) -/
  | falsyReq
  /-- left out when falsy; absent means `None` -/
  | falsyOpt
  /-- `None` in memory is written as the default; absent means `None` (relation confidence) -/
  | noneDflt (d : String)
deriving DecidableEq, Repr

structure ASpec where
  name : String
  kind : VKind
  rule : Rule
  /-- only written when this other attribute is a non-empty string (attribute extension group) -/
  onlyIf : Option String := none
deriving Repr

/-- in-memory attribute values, rendered: `none` is Python's `None` -/
abbrev Rec := List (String × Option String)
abbrev Attrs := List (String × String)

def lookupA (a : Attrs) (n : String) : Option String := (a.find? (·.1 == n)).map (·.2)
def lookupR (r : Rec) (n : String) : Option String := ((r.find? (·.1 == n)).map (·.2)).join

def stripPlus : List Char → List Char
  | '+' :: r => r
  | r => r

/-- canonical rendering of a value of the kind, `none` when the string is not such a value -/
def canonVal : VKind → String → Option String
  | .str, s => some s
  | .bool, s => if s == "true" || s == "false" then some s else none
  | .nat, s =>
    -- `int()` of what the schema admits: an optional plus sign, digits with any zero padding
    if allDigits (stripPlus s.toList) then some (String.ofList (renderNat (natVal (stripPlus s.toList)))) else none

def guardOpen (r : Rec) (s : ASpec) : Bool :=
  match s.onlyIf with
  | none => true
  | some g => match lookupR r g with
    | some v => v != ""
    | none => false

/-- is the attribute written, and with which value -/
def written (r : Rec) (s : ASpec) : Option String :=
  if !guardOpen r s then none else
  match s.rule, lookupR r s.name with
  | .req, some v => some v
  | .opt, some v => some v
  | .dflt d, some v => if v == d then none else some v
  | .always _, some v => some v
  | .dfltNone d, some v => if v == d then none else some v
  | .falsyReq, some v => if v == "" then none else some v
  | .falsyOpt, some v => if v == "" then none else some v
  | .noneDflt _, some v => some v
  | .noneDflt d, none => some d
  | _, none => none

/-- `generate_xml`: the attributes of the element -/
def encode (table : List ASpec) (r : Rec) : Attrs :=
  table.filterMap fun s => (written r s).map fun v => (s.name, v)

/-- what an attribute is in memory after `create_from_xml`; the outer `none` is a failure
(mandatory attribute missing, value not of the kind) -/
def readBack (a : Attrs) (s : ASpec) : Option (Option String) :=
  match lookupA a s.name with
  | some v => (canonVal s.kind v).map some
  | none =>
    match s.rule with
    | .req | .falsyReq => none
    | .opt | .dfltNone _ | .falsyOpt | .noneDflt _ => some none
    | .dflt d | .always d => some (some d)

/-- `create_from_xml` -/
def decode (table : List ASpec) (a : Attrs) : Option Rec :=
  table.mapM fun s => (readBack a s).map fun v => (s.name, v)

/-! ### the tables -/

def objectTypeTable : List ASpec := [
  ⟨"name", .str, .req, none⟩, ⟨"display-name-singular", .str, .req, none⟩, ⟨"display-name-plural", .str, .req, none⟩,
  ⟨"description", .str, .req, none⟩, ⟨"data-type", .str, .req, none⟩, ⟨"unit-name", .str, .opt, none⟩,
  ⟨"unit-symbol", .str, .opt, none⟩, ⟨"prefix-radix", .nat, .dfltNone "10", none⟩, ⟨"compress", .bool, .dflt "false", none⟩,
  ⟨"xref", .str, .opt, none⟩, ⟨"fuzzy-matching", .str, .opt, none⟩, ⟨"regex-hard", .str, .opt, none⟩,
  ⟨"regex-soft", .str, .opt, none⟩, ⟨"version", .nat, .req, none⟩]

def conceptTable : List ASpec := [
  ⟨"name", .str, .req, none⟩, ⟨"display-name-singular", .str, .req, none⟩, ⟨"display-name-plural", .str, .req, none⟩,
  ⟨"description", .str, .req, none⟩, ⟨"version", .nat, .req, none⟩]

def sourceTable : List ASpec := [
  ⟨"uri", .str, .req, none⟩, ⟨"description", .str, .req, none⟩, ⟨"date-acquired", .str, .opt, none⟩,
  ⟨"version", .nat, .req, none⟩]

def eventTypeTable : List ASpec := [
  ⟨"name", .str, .falsyReq, none⟩, ⟨"display-name-singular", .str, .falsyReq, none⟩,
  ⟨"display-name-plural", .str, .falsyReq, none⟩, ⟨"description", .str, .falsyReq, none⟩,
  ⟨"summary", .str, .falsyReq, none⟩, ⟨"story", .str, .falsyReq, none⟩, ⟨"timespan-start", .str, .falsyOpt, none⟩,
  ⟨"timespan-end", .str, .falsyOpt, none⟩, ⟨"event-version", .str, .falsyOpt, none⟩, ⟨"sequence", .str, .falsyOpt, none⟩,
  ⟨"version", .nat, .falsyReq, none⟩]

def propertyTable : List ASpec := [
  ⟨"name", .str, .req, none⟩, ⟨"object-type", .str, .req, none⟩, ⟨"description", .str, .req, none⟩,
  ⟨"optional", .bool, .always "false", none⟩, ⟨"multivalued", .bool, .always "false", none⟩,
  ⟨"merge", .str, .dflt "any", none⟩, ⟨"similar", .str, .dflt "", none⟩, ⟨"confidence", .nat, .req, none⟩]

def assocTable : List ASpec := [
  ⟨"name", .str, .req, none⟩, ⟨"confidence", .nat, .req, none⟩, ⟨"cnp", .nat, .req, none⟩,
  ⟨"attr-extension", .str, .dflt "", none⟩, ⟨"attr-display-name-singular", .str, .always "", some "attr-extension"⟩,
  ⟨"attr-display-name-plural", .str, .always "", some "attr-extension"⟩]

def relationTable (type : String) : List ASpec :=
  [⟨"source", .str, .req, none⟩, ⟨"target", .str, .req, none⟩] ++
  (if type == "inter" || type == "intra" then
    [⟨"source-concept", .str, .req, none⟩, ⟨"target-concept", .str, .req, none⟩] else []) ++
  (if type == "name" || type == "description" || type == "container" || type == "original" then []
   else [⟨"description", .str, .req, none⟩, ⟨"predicate", .str, .req, none⟩, ⟨"confidence", .nat, .noneDflt "10", none⟩])

def attachmentTable : List ASpec := [
  ⟨"name", .str, .req, none⟩, ⟨"media-type", .str, .req, none⟩, ⟨"display-name-singular", .str, .req, none⟩,
  ⟨"display-name-plural", .str, .req, none⟩, ⟨"description", .str, .req, none⟩, ⟨"encoding", .str, .req, none⟩]

def parentTable : List ASpec := [
  ⟨"event-type", .str, .req, none⟩, ⟨"property-map", .str, .req, none⟩, ⟨"parent-description", .str, .req, none⟩,
  ⟨"siblings-description", .str, .req, none⟩]

def tableOf (tag : String) : Option (List ASpec) :=
  match tag with
  | "object-type" => some objectTypeTable
  | "concept" => some conceptTable
  | "source" => some sourceTable
  | "event-type" => some eventTypeTable
  | "property" => some propertyTable
  | "property-concept" => some assocTable
  | "attachment" => some attachmentTable
  | "parent" => some parentTable
  | t => if ["inter", "intra", "other", "name", "description", "container", "original"].contains t
         then some (relationTable t) else none

/-- parse an element and serialize the result: `generate_xml(create_from_xml(element))` -/
def cycle (tag : String) (a : Attrs) : Option Attrs := do
  let t ← tableOf tag
  let r ← decode t a
  pure (encode t r)

end Edxml.Codec
