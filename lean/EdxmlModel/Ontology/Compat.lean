/-
C10. The bridge between ontology definitions (what `__cmp__` compares, C09) and the validation
gate (what `generate_relax_ng` generates from them, C03): which gate an event type definition,
together with the object types it refers to, stands for.
-/
import EdxmlModel.Ontology.Cmp
import EdxmlModel.DataType.Gate
import EdxmlModel.Event.Hash
import EdxmlModel.Event.Merge
namespace Edxml.Ont
open Edxml Edxml.Gate

/-- The meaning of hard regular expressions is external to the model (libxml2's regular expression
engine). What C10 needs from it: alternation. `regexUpgradeOk` only accepts a new expression of
the form `old|…`, and such an expression matches whatever `old` matches. -/
structure RegexSem where
  «matches» : String → String → Bool
  alt : ∀ r x v, (r ++ "|").toList.isPrefixOf x.toList = true → «matches» r v = true → «matches» x v = true

def gProp (ots : List ObjectTypeDef) (p : PropDef) : GProp :=
  { name := p.name,
    dataType := ((findBy (·.name) p.objectType ots).map (·.dataType)).getD "",
    optional := p.optional, multivalued := p.multivalued }

def gAtt (a : AttachmentDef) : GAttachment := { name := a.name, base64 := a.encoding == "base64" }

/-- the gate's view of an event type: `EventType.generate_relax_ng(ontology)` -/
def gateType (ots : List ObjectTypeDef) (et : EventTypeDef) : GEventType where
  props := et.props.map (gProp ots)
  attachments := et.attachments.map gAtt

/-- the hard regular expression that applies to the objects of a property -/
def regexOfProp (ots : List ObjectTypeDef) (et : EventTypeDef) (prop : String) : Option String := do
  let p ← findBy (·.name) prop et.props
  let ot ← findBy (·.name) p.objectType ots
  ot.regexHard

/-- character classes come from the value alone; the regular expression verdict from the ontology -/
def infoOf (sem : RegexSem) (cls : String → Bool × Bool × Bool) (ots : List ObjectTypeDef) (et : EventTypeDef)
    (prop value : String) : StrInfo :=
  { hasLu := (cls value).1, hasLl := (cls value).2.1, latin1 := (cls value).2.2,
    regexOk := (regexOfProp ots et prop).map (sem.«matches» · value) }

/-- `EventValidator(ontology).is_valid(event)` for an event of type `et` -/
def validUnder (sem : RegexSem) (cls : String → Bool × Bool × Bool) (ots : List ObjectTypeDef) (et : EventTypeDef)
    (e : Event) : Bool :=
  gate (gateType ots et) (infoOf sem cls ots et) e

/-- `EventType.get_hashed_properties()` -/
def hashedOfType (et : EventTypeDef) : List String := (et.props.filter (·.merge == "match")).map (·.name)

/-- the merge strategy an event type definition names -/
def strategyOf : String → Strategy
  | "match" => .match_
  | "add" => .add
  | "replace" => .replace
  | "set" => .set
  | "min" => .min
  | "max" => .max
  | _ => .any

/-- min/max compare numerically for the number families and `sequence`, as strings otherwise -/
def numericDt (dt : String) : Bool :=
  match family dt with
  | .int _ _ | .float _ | .decimal _ _ _ | .sequence => true
  | _ => false

/-- what `EventType.merge_events` reads from the definition of an event type -/
def mergeSpecs (ots : List ObjectTypeDef) (et : EventTypeDef) : List PropSpec :=
  et.props.map fun p =>
    { name := p.name, merge := strategyOf p.merge,
      numeric := numericDt (((findBy (·.name) p.objectType ots).map (·.dataType)).getD "") }


end Edxml.Ont
