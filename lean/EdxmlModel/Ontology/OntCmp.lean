/-
C09. `Ontology.__cmp__` / `==` / `!=` (edxml/ontology/ontology.py): two ontologies are equal when
they hold the same object types, concepts, event types and sources and every pair of definitions
compares equal; a pair of definitions that is in conflict makes the comparison raise; anything else
is "different" (an ontology has no version: older and newer are not told apart).
-/
import EdxmlModel.Ontology.Update
namespace Edxml.Ont

inductive OntEq | equal | different | conflict
deriving DecidableEq, Repr

/-- the verdicts `other[key] == a` for every definition `a` of `A` that `B` holds as well -/
def sharedVerdicts (key : α → String) (cmp : α → α → Cmp) (A B : List α) : List Cmp :=
  A.filterMap fun a => (findBy key (key a) B).map fun b => cmp b a

/-- one kind of definitions -/
def listsEq (key : α → String) (cmp : α → α → Cmp) (A B : List α) : OntEq :=
  let vs := sharedVerdicts key cmp A B
  if vs.contains .incompat then .conflict
  else if keysEq (A.map key) (B.map key) && vs.all (· == .eq) then .equal else .different

def OntEq.and : OntEq → OntEq → OntEq
  | .conflict, _ => .conflict
  | _, .conflict => .conflict
  | .equal, .equal => .equal
  | _, _ => .different

/-- `A == B` -/
def ontEq (A B : OntologyDef) : OntEq :=
  (((listsEq (·.name) cmpObjectType A.objectTypes B.objectTypes).and
    (listsEq (·.name) cmpConcept A.concepts B.concepts)).and
    (listsEq (·.name) cmpEventType A.eventTypes B.eventTypes)).and
    (listsEq (·.name) cmpSource A.sources B.sources)

end Edxml.Ont
