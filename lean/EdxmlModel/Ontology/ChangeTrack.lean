/-
C12. Ontology change tracking: `Ontology.__version`, `_child_modified_callback`, `_set_attr`
(edxml/ontology/*.py) and the consumers that decide by the counter.

An ontology is abstracted to what it serializes to — a `Store` (attribute path ↦ value, as
flattened from `generate_xml()`) — plus the change counter. Every public mutator falls into one of
three classes, by how it reaches the counter:
* `set`    — goes through `_set_attr`: notifies iff the attribute value differs;
* `always` — structural mutators (`create_*`, `add_*`, `delete_*`, `identifies`, …) that call
             `_child_modified_callback()` unconditionally when they perform their change;
* `clear`  — `Ontology.clear()`, which (pinned by the SDK's own test suite) resets the counter.
-/
namespace Edxml.Track

abbrev Store := List (String × String)

structure OntState where
  store : Store := []
  version : Nat := 0
deriving DecidableEq, Repr

inductive MutKind | set | always | clear
deriving DecidableEq, Repr

/-- A mutator call of the given class whose effect on the serialization is `store'`. -/
def step (s : OntState) (k : MutKind) (store' : Store) : OntState :=
  match k with
  | .set => if store' = s.store then s else { store := store', version := s.version + 1 }
  | .always => { store := store', version := s.version + 1 }
  | .clear => { store := store', version := 0 }

def run (s : OntState) (ops : List (MutKind × Store)) : OntState :=
  ops.foldl (fun s op => step s op.1 op.2) s

/-- `Ontology.is_modified_since(version)` -/
def modifiedSince (s : OntState) (v : Nat) : Bool := decide (s.version > v)

/-- A consumer that keeps something derived from the ontology (compiled schemas, "the ontology
already written to the output") together with the counter value it was derived at, and recomputes
only when `is_modified_since` says so. -/
structure Consumer where
  seen : Option (Nat × Store) := none

/-- What the consumer acts on when asked now. -/
def Consumer.view (c : Consumer) (s : OntState) : Store × Consumer :=
  match c.seen with
  | some (v, st) => if modifiedSince s v then (s.store, { seen := some (s.version, s.store) }) else (st, c)
  | none => (s.store, { seen := some (s.version, s.store) })

end Edxml.Track
