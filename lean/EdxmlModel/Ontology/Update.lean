/-
C11. `Ontology.update` and the `update()` methods of the versioned elements: the updated
ontology holds, for every element of either ontology, the newer of its two definitions; an
incompatible pair makes the update fail.

`element.update(other)` copies the fields of `other` when `other > self`; for accepted upgrades
that makes the element equal to `other` (frozen attributes are equal, sub-elements of the old
definition all occur in the new one). The model therefore replaces the definition.
-/
import EdxmlModel.Ontology.Cmp
namespace Edxml.Ont

inductive UpdErr | incompatible
deriving DecidableEq, Repr

/-- `a.update(b)` -/
def updElem (cmp : α → α → Cmp) (a b : α) : Except UpdErr α :=
  match cmp a b with
  | .lt => .ok b
  | .eq | .gt => .ok a
  | .incompat => .error .incompatible

def replaceBy (key : α → String) (n : String) (r : α) : List α → List α
  | [] => []
  | a :: rest => if key a == n then r :: rest else a :: replaceBy key n r rest

/-- `for b in B: A._add(b)`: adopt definitions that are new, update the ones that exist. -/
def updList (key : α → String) (cmp : α → α → Cmp) : List α → List α → Except UpdErr (List α)
  | A, [] => .ok A
  | A, b :: bs =>
    match findBy key (key b) A with
    | none => updList key cmp (A ++ [b]) bs
    | some a =>
      match updElem cmp a b with
      | .ok r => updList key cmp (replaceBy key (key b) r A) bs
      | .error e => .error e

structure OntologyDef where
  objectTypes : List ObjectTypeDef := []
  concepts : List ConceptDef := []
  eventTypes : List EventTypeDef := []
  sources : List SourceDef := []
deriving DecidableEq, Repr

/-- `A.update(B)` (both update paths: from an `Ontology` instance and from an lxml element). -/
def updateOntology (A B : OntologyDef) : Except UpdErr OntologyDef := do
  let ot ← updList (·.name) cmpObjectType A.objectTypes B.objectTypes
  let c ← updList (·.name) cmpConcept A.concepts B.concepts
  let et ← updList (·.name) cmpEventType A.eventTypes B.eventTypes
  let s ← updList (·.name) cmpSource A.sources B.sources
  pure { objectTypes := ot, concepts := c, eventTypes := et, sources := s }

end Edxml.Ont
