/-
C08. Ontology <-> XML at the level of the element tree: which elements are nested in which, and in
which order `generate_xml` writes them (`Ontology.generate_xml`, `EventType.generate_xml`,
`EventProperty.generate_xml`: the definitions of every container sorted by name, URI or relation
id). The attributes of every element go through the attribute level cycle of `XmlCodec`.

The tree has the shape the EDXML schema prescribes: an ontology holds object types, concepts,
event types and sources; an event type holds an optional parent, properties (each with its concept
associations), relations and attachments. Within one container the definitions have distinct keys
(`Ontology.update` merges or rejects repeated definitions: C11).
-/
import EdxmlModel.Ontology.XmlCodec
namespace Edxml.Codec

structure PropX where
  attrs : Attrs
  concepts : List Attrs
deriving Repr, DecidableEq

structure RelX where
  tag : String
  attrs : Attrs
deriving Repr, DecidableEq

structure EtX where
  attrs : Attrs
  parent : Option Attrs
  props : List PropX
  rels : List RelX
  atts : List Attrs
deriving Repr, DecidableEq

structure OntX where
  objectTypes : List Attrs
  concepts : List Attrs
  eventTypes : List EtX
  sources : List Attrs
deriving Repr, DecidableEq

def attr (a : Attrs) (k : String) : String := (lookupA a k).getD ""

/-- `sorted(d.keys())`: by the key, in the order of Python strings (code points) -/
def sortBy (key : α → String) (l : List α) : List α := l.mergeSort fun x y => decide (key x ≤ key y)

/-- the part of `PropertyRelation.get_persistent_id()` that differs within one event type -/
def relKey (r : RelX) : String := r.tag ++ ":" ++ attr r.attrs "source" ++ "," ++ attr r.attrs "target"

def cycleProp (p : PropX) : Option PropX := do
  let a ← cycle "property" p.attrs
  let cs ← p.concepts.mapM (cycle "property-concept")
  pure { attrs := a, concepts := sortBy (attr · "name") cs }

def relationTags : List String := ["inter", "intra", "other", "name", "description", "container", "original"]

/-- a child of `<relations>` is one of the seven relation elements -/
def cycleRel (r : RelX) : Option RelX :=
  if relationTags.contains r.tag then do
    let a ← cycle r.tag r.attrs
    pure { tag := r.tag, attrs := a }
  else none

def cycleParent : Option Attrs → Option (Option Attrs)
  | none => some none
  | some p => (cycle "parent" p).map some

def cycleEt (e : EtX) : Option EtX := do
  let a ← cycle "event-type" e.attrs
  let parent ← cycleParent e.parent
  let props ← e.props.mapM cycleProp
  let rels ← e.rels.mapM cycleRel
  let atts ← e.atts.mapM (cycle "attachment")
  pure { attrs := a, parent := parent, props := sortBy (attr ·.attrs "name") props, rels := sortBy relKey rels,
         atts := sortBy (attr · "name") atts }

/-- `generate_xml(create_from_xml(ontology element))` -/
def cycleOnt (o : OntX) : Option OntX := do
  let ots ← o.objectTypes.mapM (cycle "object-type")
  let cs ← o.concepts.mapM (cycle "concept")
  let ets ← o.eventTypes.mapM cycleEt
  let ss ← o.sources.mapM (cycle "source")
  pure { objectTypes := sortBy (attr · "name") ots, concepts := sortBy (attr · "name") cs,
         eventTypes := sortBy (attr ·.attrs "name") ets, sources := sortBy (attr · "uri") ss }

end Edxml.Codec
