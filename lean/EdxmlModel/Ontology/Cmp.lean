/-
C09 (and the basis of C10, C11). Version comparison of ontology definitions: the `__cmp__`
methods of the ten element classes in edxml/ontology.

Every `__cmp__` has the same shape: pick old/new by version, accumulate three flags from the
attributes and sub-elements (`equal`, `is_valid_upgrade`, and whether a nested comparison raised),
then decide. Attributes that may change freely between versions are kept as an association list
`free`; frozen and monotone attributes are explicit fields.
-/
namespace Edxml.Ont

inductive Cmp | eq | lt | gt | incompat
deriving DecidableEq, Repr

/-- `cmp b a` in terms of `cmp a b` for a consistent order. -/
def Cmp.flip : Cmp → Cmp
  | .lt => .gt
  | .gt => .lt
  | c => c

structure Flags where
  equal : Bool := true
  valid : Bool := true
  raised : Bool := false
deriving DecidableEq, Repr

abbrev Free := List (String × Option String)

/-- Fold the result of a nested comparison `old_sub.__cmp__(new_sub)` into the flags:
`if old != new: equal = False; valid &= new > old`; an exception propagates. -/
def Flags.sub (f : Flags) : Cmp → Flags
  | .eq => f
  | .lt => { f with equal := false }
  | .gt => { f with equal := false, valid := false }
  | .incompat => { f with raised := true }

def Flags.andEqual (f : Flags) (b : Bool) : Flags := { f with equal := f.equal && b }
/-- a frozen attribute differs: `equal = is_valid_upgrade = False` -/
def Flags.frozen (f : Flags) (same : Bool) : Flags :=
  if same then f else { f with equal := false, valid := false }
/-- a monotone attribute: when it differs, `equal = False; valid &= ok` -/
def Flags.mono (f : Flags) (same ok : Bool) : Flags :=
  if same then f else { f with equal := false, valid := f.valid && ok }

/-- First element with the given key (Python dict lookup; keys are unique). -/
def findBy (key : α → String) (n : String) : List α → Option α
  | [] => none
  | a :: r => if key a == n then some a else findBy key n r

/-- `for key, sub in new.items(): if key in old: if old[key] != sub: equal = False; valid &= sub > old[key]` -/
def subFold (key : α → String) (cmp : α → α → Cmp) (old new : List α) (f : Flags) : Flags :=
  new.foldl (fun f a =>
    match findBy key (key a) old with
    | some o => f.sub (cmp o a)
    | none => f) f

/-- The common skeleton. `flags old new vOld vNew` is evaluated with `old` the operand of lower
version; with equal versions `new = self`, `old = other`, exactly as in the code. -/
def cmpGen (vSelf vOther : Nat) (flags : α → α → Nat → Nat → Flags) (self other : α) : Cmp :=
  let otherNewer := decide (vOther > vSelf)
  let f := if otherNewer then flags self other vSelf vOther else flags other self vOther vSelf
  if f.raised then .incompat
  else if vOther == vSelf && f.equal then .eq
  else if f.valid && vOther != vSelf then (if otherNewer then .lt else .gt)
  else .incompat

/-! ### versioned root elements -/

structure ConceptDef where
  name : String
  version : Nat
  free : Free
deriving DecidableEq, Repr

def conceptFlags (old new : ConceptDef) (_ _ : Nat) : Flags := ({} : Flags).andEqual (old.free == new.free)
def cmpConcept (a b : ConceptDef) : Cmp := cmpGen a.version b.version conceptFlags a b

/-- Event sources have the same shape as concepts (`uri`, `version`, free attributes). -/
abbrev SourceDef := ConceptDef
def cmpSource (a b : SourceDef) : Cmp := cmpConcept a b

/-- `DataType.is_valid_upgrade_of`: an enumeration may be extended with further values. -/
def splitOnChar (c : Char) : List Char → List (List Char)
  | [] => [[]]
  | x :: xs =>
    if x == c then [] :: splitOnChar c xs
    else match splitOnChar c xs with
      | [] => [[x]]
      | h :: t => (x :: h) :: t

/-- Python `s.split(':')` -/
def splitColon (s : String) : List String := (splitOnChar ':' s.toList).map String.ofList

def dataTypeUpgradeOk (old new : String) : Bool :=
  let o := splitColon old
  let n := splitColon new
  o.head? == some "enum" && n.head? == some "enum" && o.length < n.length && n.take o.length == o

/-- `regex-hard`: may be dropped, or extended as `old|...`; never introduced or replaced. -/
def regexUpgradeOk (old new : Option String) : Bool :=
  match old, new with
  | none, _ => false
  | some _, none => true
  | some o, some n => (o ++ "|").toList.isPrefixOf n.toList

structure ObjectTypeDef where
  name : String
  version : Nat
  free : Free
  regexHard : Option String
  dataType : String
deriving DecidableEq, Repr

def objectTypeFlags (old new : ObjectTypeDef) (_ _ : Nat) : Flags :=
  let f := ({} : Flags).andEqual (old.free == new.free)
  let f := f.mono (old.regexHard == new.regexHard) (regexUpgradeOk old.regexHard new.regexHard)
  f.mono (old.dataType == new.dataType) (dataTypeUpgradeOk old.dataType new.dataType)

def cmpObjectType (a b : ObjectTypeDef) : Cmp := cmpGen a.version b.version objectTypeFlags a b

/-! ### sub-elements of event types (their version is the event type's) -/

structure AssocDef where
  concept : String
  property : String
  ext : String
  free : Free
deriving DecidableEq, Repr

def assocFlags (old new : AssocDef) (_ _ : Nat) : Flags :=
  let f := ({} : Flags).frozen (old.property == new.property)
  let f := f.frozen (old.ext == new.ext)
  f.andEqual (old.free == new.free)

def cmpAssoc (va vb : Nat) (a b : AssocDef) : Cmp := cmpGen va vb assocFlags a b

structure RelationDef where
  id : String
  source : String
  target : String
  sourceConcept : Option String
  targetConcept : Option String
  type : String
  free : Free
deriving DecidableEq, Repr

def relationFlags (old new : RelationDef) (_ _ : Nat) : Flags :=
  let f := ({} : Flags).frozen (old.source == new.source)
  let f := f.frozen (old.target == new.target)
  let f := f.frozen (old.sourceConcept == new.sourceConcept)
  let f := f.frozen (old.targetConcept == new.targetConcept)
  let f := f.frozen (old.type == new.type)
  f.andEqual (old.free == new.free)

def cmpRelation (va vb : Nat) (a b : RelationDef) : Cmp := cmpGen va vb relationFlags a b

structure ParentDef where
  parentType : String
  /-- property map as sorted (child property, parent property) pairs -/
  propertyMap : List (String × String)
  free : Free
deriving DecidableEq, Repr

def parentFlags (old new : ParentDef) (_ _ : Nat) : Flags :=
  let f := ({} : Flags).frozen (old.parentType == new.parentType)
  let f := f.frozen (old.propertyMap == new.propertyMap)
  f.andEqual (old.free == new.free)

def cmpParent (va vb : Nat) (a b : ParentDef) : Cmp := cmpGen va vb parentFlags a b

structure AttachmentDef where
  name : String
  mediaType : String
  encoding : String
  free : Free
deriving DecidableEq, Repr

def attachmentFlags (old new : AttachmentDef) (_ _ : Nat) : Flags :=
  let f := ({} : Flags).frozen (old.mediaType == new.mediaType)
  let f := f.frozen (old.encoding == new.encoding)
  f.andEqual (old.free == new.free)

def cmpAttachment (va vb : Nat) (a b : AttachmentDef) : Cmp := cmpGen va vb attachmentFlags a b

structure PropDef where
  name : String
  objectType : String
  merge : String
  optional : Bool
  multivalued : Bool
  /-- the data type of the object type is `datetime` (for `EventType.is_timeless`) -/
  datetime : Bool
  free : Free
  assocs : List AssocDef
deriving DecidableEq, Repr

def keysSubset (a b : List String) : Bool := a.all (b.contains ·)
def keysEq (a b : List String) : Bool := keysSubset a b && keysSubset b a

def propFlags (old new : PropDef) (vo vn : Nat) : Flags :=
  let f := ({} : Flags).frozen (old.objectType == new.objectType)
  let f := f.frozen (old.merge == new.merge)
  let f := f.mono (old.multivalued == new.multivalued) new.multivalued
  let f := f.mono (old.optional == new.optional) new.optional
  let ko := old.assocs.map (·.concept)
  let kn := new.assocs.map (·.concept)
  let f := f.mono (keysEq ko kn) (vo != vn && keysSubset ko kn)
  let f := subFold (·.concept) (cmpAssoc vo vn) old.assocs new.assocs f
  f.andEqual (old.free == new.free)

def cmpProp (va vb : Nat) (a b : PropDef) : Cmp := cmpGen va vb propFlags a b

structure EventTypeDef where
  name : String
  version : Nat
  free : Free
  versionProp : Option String
  seqProp : Option String
  tsStart : Option String
  tsEnd : Option String
  parent : Option ParentDef
  props : List PropDef
  relations : List RelationDef
  attachments : List AttachmentDef
deriving DecidableEq, Repr

def EventTypeDef.timeless (e : EventTypeDef) : Bool := e.props.all (!·.datetime)

/-- parent definitions: adding one is an upgrade, dropping one is not, otherwise compare them -/
def parentStep (vo vn : Nat) (old new : Option ParentDef) (f : Flags) : Flags :=
  match old, new with
  | none, some _ => { f with equal := false }
  | some _, none => { f with equal := false, valid := false }
  | some po, some pn => f.sub (cmpParent vo vn po pn)
  | none, none => f

/-- property names: properties may be added when optional (and a timeless event type stays
timeless), never removed -/
def propKeyStep (old new : EventTypeDef) (f : Flags) : Flags :=
  let ko := old.props.map (·.name)
  let kn := new.props.map (·.name)
  if keysEq ko kn then f else
    let added := new.props.filter fun p => !ko.contains p.name
    { f with equal := false,
             valid := f.valid && (keysSubset ko kn && added.all (·.optional) &&
               (added.isEmpty || !old.timeless || new.timeless)) }

/-- `_check_sub_element_upgrade` -/
def subElementFlags (old new : EventTypeDef) (vo vn : Nat) (f : Flags) : Flags :=
  let f := parentStep vo vn old.parent new.parent f
  let f := propKeyStep old new f
  let f := subFold (·.name) (cmpProp vo vn) old.props new.props f
  let f := f.mono (keysEq (old.relations.map (·.id)) (new.relations.map (·.id)))
    (keysSubset (old.relations.map (·.id)) (new.relations.map (·.id)))
  let f := subFold (·.id) (cmpRelation vo vn) old.relations new.relations f
  let f := f.mono (keysEq (old.attachments.map (·.name)) (new.attachments.map (·.name)))
    (keysSubset (old.attachments.map (·.name)) (new.attachments.map (·.name)))
  subFold (·.name) (cmpAttachment vo vn) old.attachments new.attachments f

def eventTypeFlags (old new : EventTypeDef) (vo vn : Nat) : Flags :=
  let f := ({} : Flags).andEqual (old.free == new.free)
  let f := f.frozen (old.versionProp == new.versionProp)
  let f := f.frozen (old.seqProp == new.seqProp)
  let f := f.frozen (old.tsStart == new.tsStart)
  let f := f.frozen (old.tsEnd == new.tsEnd)
  subElementFlags old new vo vn f

def cmpEventType (a b : EventTypeDef) : Cmp := cmpGen a.version b.version eventTypeFlags a b

end Edxml.Ont
