-- root of the proofs library; one module per property
import EdxmlProps.Audit
import EdxmlProps.C01
import EdxmlProps.C04
import EdxmlProps.C05
import EdxmlProps.C06
import EdxmlProps.C14
import EdxmlProps.C19
import EdxmlProps.C18
import EdxmlProps.C09
import EdxmlProps.C12
import EdxmlProps.C11
import EdxmlProps.C03
import EdxmlProps.C13
import EdxmlProps.C10
import EdxmlProps.C07
import EdxmlProps.C08
import EdxmlProps.C15
