-- root of the proofs library; one module per property
import EdxmlProps.Audit
import EdxmlProps.C01
