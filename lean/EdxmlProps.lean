-- root of the proofs library; one module per property
import EdxmlProps.Audit
import EdxmlProps.C01
import EdxmlProps.C04
import EdxmlProps.C05
