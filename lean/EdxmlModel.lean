import EdxmlModel.Basic.ListSet
import EdxmlModel.Basic.Bytes
import EdxmlModel.Hash.Sha
import EdxmlModel.Event.Event
import EdxmlModel.Event.Hash
import EdxmlModel.Event.Merge
import EdxmlModel.Stream.Parser
import EdxmlModel.Event.Collection
