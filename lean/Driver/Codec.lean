/-
JSON decoding/encoding helpers for the driver's line protocol (unverified glue, kept trivial).
-/
import Lean.Data.Json
import EdxmlModel
open Lean
namespace Driver
open Edxml

abbrev R := Except String

def str (j : Json) : R String := j.getStr?
def arr (j : Json) : R (List Json) := do pure (← j.getArr?).toList
def fld (j : Json) (k : String) : R Json := j.getObjVal? k
def fldStr (j : Json) (k : String) : R String := do str (← fld j k)
def fldArr (j : Json) (k : String) : R (List Json) := do arr (← fld j k)
def fldNat (j : Json) (k : String) : R Nat := do (← fld j k).getNat?
def fldBool (j : Json) (k : String) : R Bool := do (← fld j k).getBool?
def fldStrs (j : Json) (k : String) : R (List String) := do (← fldArr j k).mapM str
def fldOpt (j : Json) (k : String) : Option Json :=
  match j.getObjVal? k with
  | .ok Json.null => none
  | .ok v => some v
  | .error _ => none

def pairOf (f : Json → R α) (g : Json → R β) (j : Json) : R (α × β) := do
  match ← arr j with
  | [a, b] => pure (← f a, ← g b)
  | _ => throw "pair expected"

def strs (j : Json) : R (List String) := do (← arr j).mapM str

def event (j : Json) : R Event := do
  let props ← (← fldArr j "props").mapM (pairOf str strs)
  let atts ← match fldOpt j "atts" with
    | some a => (← arr a).mapM (pairOf str fun x => do (← arr x).mapM (pairOf str str))
    | none => pure []
  let parents ← match fldOpt j "parents" with
    | some a => strs a
    | none => pure []
  let foreign ← match fldOpt j "foreign" with
    | some a => (← arr a).mapM (pairOf str str)
    | none => pure []
  pure { type := ← fldStr j "type", source := ← fldStr j "source", props, atts, parents, foreign }

def jStrs (l : List String) : Json := Json.arr (l.map Json.str).toArray
def jPair (a b : Json) : Json := Json.arr #[a, b]

def eventJson (e : Event) : Json :=
  Json.mkObj [
    ("type", e.type), ("source", e.source),
    ("props", Json.arr (e.props.map fun pv => jPair pv.1 (jStrs pv.2)).toArray),
    ("atts", Json.arr (e.atts.map fun a =>
        jPair a.1 (Json.arr (a.2.map fun iv => jPair iv.1 iv.2).toArray)).toArray),
    ("parents", jStrs e.parents),
    ("foreign", Json.arr (e.foreign.map fun kv => jPair kv.1 kv.2).toArray)]

end Driver
