/-
Line-protocol driver: one JSON request per input line, one JSON reply per output line.
Unknown or malformed requests answer {"bad-op": ...}; nothing is ever defaulted.
-/
import Driver.Codec
open Lean Edxml Driver

def opHash (j : Json) : R Json := do
  let fn ← match ← fldStr j "fn" with
    | "sha1" => pure HashFn.sha1
    | "sha256" => pure HashFn.sha256
    | x => throw s!"unknown hash function {x}"
  let enc ← match ← fldStr j "enc" with
    | "hex" => pure HashEnc.hex
    | "base64" => pure HashEnc.base64
    | x => throw s!"unknown encoding {x}"
  let hashed ← fldStrs j "hashed"
  let e ← event (← fld j "event")
  pure (Json.mkObj [("hash", stickyHash fn enc hashed e),
                    ("input", hexOfBytes (hashInput hashed e))])

def memoOp (j : Json) : R MemoOp := do
  match ← fldStr j "k" with
  | "get" => pure .getHashed
  | "set" => pure (.setMerge (← fldStr j "n") (← fldStr j "s"))
  | "add" => pure (.addProp (← fldStr j "n") (← fldStr j "s"))
  | "del" => pure (.removeProp (← fldStr j "n"))
  | x => throw s!"unknown memo op {x}"

def opMemo (j : Json) : R Json := do
  let props ← (← fldArr j "props").mapM (pairOf str str)
  let ops ← (← fldArr j "ops").mapM memoOp
  let (_, outs) := ops.foldl (fun (acc : HashedMemo × List Json) op =>
      let (s', o) := acc.1.step op
      (s', acc.2 ++ [match op with | .getHashed => jStrs (canonS o) | _ => Json.null]))
    (({ props, cache := none } : HashedMemo), [])
  pure (Json.mkObj [("outs", Json.arr outs.toArray)])

def dispatch (j : Json) : R Json := do
  match ← fldStr j "op" with
  | "ping" => pure (Json.mkObj [("pong", true)])
  | "hash" => opHash j
  | "memo" => opMemo j
  | x => throw s!"unknown op {x}"

partial def loop (inp out : IO.FS.Stream) : IO Unit := do
  let line ← inp.getLine
  if line.isEmpty then return ()
  let reply := match Json.parse line with
    | .error e => Json.mkObj [("bad-op", s!"json: {e}")]
    | .ok j => match dispatch j with
      | .ok r => r
      | .error e => Json.mkObj [("bad-op", e)]
  out.putStrLn reply.compress
  out.flush
  loop inp out

def main : IO Unit := do loop (← IO.getStdin) (← IO.getStdout)
