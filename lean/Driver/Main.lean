/-
Line-protocol driver: one JSON request per input line, one JSON reply per output line.
Unknown or malformed requests answer {"bad-op": ...}; nothing is ever defaulted.
-/
import Driver.Codec
import Driver.OntCodec
open Lean Edxml Driver

def opHash (j : Json) : R Json := do
  let fn ← match ← fldStr j "fn" with
    | "sha1" => pure HashFn.sha1
    | "sha256" => pure HashFn.sha256
    | x => throw s!"unknown hash function {x}"
  let enc ← match ← fldStr j "enc" with
    | "hex" => pure HashEnc.hex
    | "base64" => pure HashEnc.base64
    | x => throw s!"unknown encoding {x}"
  let hashed ← fldStrs j "hashed"
  let e ← event (← fld j "event")
  pure (Json.mkObj [("hash", stickyHash fn enc hashed e),
                    ("input", hexOfBytes (hashInput hashed e))])

def memoOp (j : Json) : R MemoOp := do
  match ← fldStr j "k" with
  | "get" => pure .getHashed
  | "set" => pure (.setMerge (← fldStr j "n") (← fldStr j "s"))
  | "add" => pure (.addProp (← fldStr j "n") (← fldStr j "s"))
  | "del" => pure (.removeProp (← fldStr j "n"))
  | x => throw s!"unknown memo op {x}"

def opMemo (j : Json) : R Json := do
  let props ← (← fldArr j "props").mapM (pairOf str str)
  let ops ← (← fldArr j "ops").mapM memoOp
  let (_, outs) := ops.foldl (fun (acc : HashedMemo × List Json) op =>
      let (s', o) := acc.1.step op
      (s', acc.2 ++ [match op with | .getHashed => jStrs (canonS o) | _ => Json.null]))
    (({ props, cache := none } : HashedMemo), [])
  pure (Json.mkObj [("outs", Json.arr outs.toArray)])

def strategy (s : String) : R Strategy :=
  match s with
  | "match" => pure .match_ | "any" => pure .any | "add" => pure .add | "replace" => pure .replace
  | "set" => pure .set | "min" => pure .min | "max" => pure .max
  | x => throw s!"unknown strategy {x}"

def propSpec (j : Json) : R PropSpec := do
  pure { name := ← fldStr j "name", merge := ← strategy (← fldStr j "merge"), numeric := ← fldBool j "numeric" }

/-- canonical logical view of an event: non-empty properties, everything sorted -/
def viewJson (e : Event) : Json :=
  let names := canonS (e.props.map (·.1))
  let props := names.filterMap fun n =>
    let o := e.objects n
    if o.isEmpty then none else some (jPair n (jStrs o))
  Json.mkObj [("type", e.type), ("source", e.source), ("props", Json.arr props.toArray),
    ("parents", jStrs (canonS e.parents)),
    ("atts", Json.arr (e.atts.map fun a =>
        jPair a.1 (Json.arr (a.2.map fun iv => jPair iv.1 iv.2).toArray)).toArray),
    ("foreign", Json.arr (e.foreign.map fun kv => jPair kv.1 kv.2).toArray)]

def mergeErrJson : MergeErr → Json
  | .conflict => Json.mkObj [("err", "EDXMLMergeConflictError")]
  | .empty => Json.mkObj [("err", "empty")]

def opMerge (j : Json) : R Json := do
  let specs ← (← fldArr j "specs").mapM propSpec
  let vp ← match fldOpt j "vp" with
    | some v => pure (some (← str v))
    | none => pure none
  let es ← (← fldArr j "events").mapM event
  -- events carrying properties the event type does not declare are outside the model
  if es.any (fun e => e.props.any fun pv => !(specs.any (·.name == pv.1))) then throw "undeclared property"
  let many (r : Except MergeErr (List Event)) : Json := match r with
    | .ok l => Json.mkObj [("ok", Json.arr (l.map viewJson).toArray)]
    | .error e => mergeErrJson e
  let resolveAfter := match fldOpt j "resolve_after" with | some (Json.bool true) => true | _ => false
  let many (r : Except MergeErr (List Event)) : Json :=
    if resolveAfter then many (r.bind (resolve specs vp)) else many r
  match ← fldStr j "how" with
  | "merge" => pure (match mergeEvents specs vp es with
      | .ok e => Json.mkObj [("ok", viewJson e)]
      | .error e => mergeErrJson e)
  | "resolve" => pure (many (resolve specs vp es))
  | "fold" => pure (many (foldMerger specs vp es))
  | "buffer" => pure (many (bufferMerger specs vp (← fldNat j "k") es))
  | x => throw s!"unknown merge mode {x}"

/-- evaluate a merge tree: a leaf is an index into the events, a node merges its children -/
partial def evalTree (specs : List PropSpec) (vp : Option String) (es : Array Event) (t : Json) :
    R (Except MergeErr Event) := do
  match t with
  | Json.arr kids =>
    let mut acc : List Event := []
    for k in kids do
      match ← evalTree specs vp es k with
      | .ok e => acc := acc ++ [e]
      | .error e => return .error e
    pure (mergeEvents specs vp acc)
  | _ =>
    let i ← t.getNat?
    match es[i]? with
    | some e => pure (.ok e)
    | none => throw "index out of range"

def opMergeTree (j : Json) : R Json := do
  let specs ← (← fldArr j "specs").mapM propSpec
  let vp ← match fldOpt j "vp" with
    | some v => pure (some (← str v))
    | none => pure none
  let es ← (← fldArr j "events").mapM event
  if es.any (fun e => e.props.any fun pv => !(specs.any (·.name == pv.1))) then throw "undeclared property"
  match ← evalTree specs vp es.toArray (← fld j "tree") with
  | .ok e => pure (Json.mkObj [("ok", viewJson e)])
  | .error e => pure (mergeErrJson e)

def viewJsonE (v : EventView) : Json :=
  Json.mkObj [("type", v.type), ("source", v.source),
    ("props", Json.arr (v.props.map fun p => jPair p.1 (jStrs p.2)).toArray),
    ("attIds", Json.arr (v.attIds.map fun p => jPair p.1 (jStrs p.2)).toArray),
    ("parents", jStrs v.parents)]

def opEquiv (j : Json) : R Json := do
  let specs ← (← fldArr j "specs").mapM propSpec
  let vp ← match fldOpt j "vp" with
    | some v => pure (some (← str v))
    | none => pure none
  let a ← (← fldArr j "a").mapM event
  let b ← (← fldArr j "b").mapM event
  let ontEq ← fldBool j "ontEq"
  if (a ++ b).any (fun e => e.props.any fun pv => !(specs.any (·.name == pv.1))) then throw "undeclared property"
  match equiv specs vp ontEq a b with
  | .ok r => pure (Json.mkObj [("ok", r)])
  | .error e => pure (mergeErrJson e)

def opCmp (j : Json) : R Json := do
  let kind ← fldStr j "kind"
  let defs ← fldArr j "defs"
  let a := defs.toArray
  let mut rows : Array Json := #[]
  for x in a do
    let mut row : Array Json := #[]
    for y in a do
      row := row.push (cmpJson (← cmpKind kind x y))
    rows := rows.push (Json.arr row)
  pure (Json.mkObj [("cmp", Json.arr rows)])

def storeOf (j : Json) : R Edxml.Track.Store := do (← arr j).mapM (pairOf str str)

def opTrack (j : Json) : R Json := do
  let init ← storeOf (← fld j "init")
  let ops ← (← fldArr j "ops").mapM fun o => do
    let k ← match ← fldStr o "k" with
      | "set" => pure Edxml.Track.MutKind.set
      | "always" => pure Edxml.Track.MutKind.always
      | "clear" => pure Edxml.Track.MutKind.clear
      | x => throw s!"unknown mutator kind {x}"
    pure (k, ← storeOf (← fld o "store"))
  -- the counter starts at an arbitrary value (the seed ontology was built by mutator calls)
  let s0 : Edxml.Track.OntState := { store := init, version := 1000 }
  let (_, steps) := ops.foldl (fun (acc : Edxml.Track.OntState × List Json) op =>
      let s' := Edxml.Track.step acc.1 op.1 op.2
      (s', acc.2 ++ [Json.mkObj [("moved", decide (s'.version > acc.1.version)),
                                 ("decreased", decide (s'.version < acc.1.version))]])) (s0, [])
  pure (Json.mkObj [("steps", Json.arr steps.toArray)])

open Edxml.Ont in
def ontologyOf (j : Json) : R OntologyDef := do
  pure { objectTypes := ← (← fldArr j "objectTypes").mapM objectTypeOf,
         concepts := ← (← fldArr j "concepts").mapM conceptOf,
         eventTypes := ← (← fldArr j "eventTypes").mapM eventTypeOf,
         sources := ← (← fldArr j "sources").mapM conceptOf }

open Edxml.Ont in
/-- Fold a sequence of ontologies with `update`; report for every element which input ontology its
definition is equal to (the first such index), or the step at which the update failed. -/
def opUpdate (j : Json) : R Json := do
  let onts ← (← fldArr j "onts").mapM ontologyOf
  match onts with
  | [] => throw "no ontologies"
  | first :: rest =>
    let mut cur := first
    let mut step : Nat := 0
    for o in rest do
      step := step + 1
      match updateOntology cur o with
      | .ok r => cur := r
      | .error _ => return Json.mkObj [("err", "EDXMLOntologyValidationError"), ("step", step)]
    let origin {α : Type} [DecidableEq α] (sel : OntologyDef → List α) (x : α) : Json :=
      match (List.range onts.length).find? (fun i => match onts[i]? with | some o => (sel o).contains x | none => false) with
      | some i => (i : Json)
      | none => Json.null
    pure (Json.mkObj [
      ("objectTypes", Json.arr (cur.objectTypes.map fun x => jPair x.name (origin (·.objectTypes) x)).toArray),
      ("concepts", Json.arr (cur.concepts.map fun x => jPair x.name (origin (·.concepts) x)).toArray),
      ("eventTypes", Json.arr (cur.eventTypes.map fun x => jPair x.name (origin (·.eventTypes) x)).toArray),
      ("sources", Json.arr (cur.sources.map fun x => jPair x.name (origin (·.sources) x)).toArray)])

open Edxml.Ont in
/-- `A == B` for every ordered pair of the given ontologies -/
def opOntEq (j : Json) : R Json := do
  let onts ← (← fldArr j "onts").mapM ontologyOf
  let show_ (x : OntEq) : Json := match x with
    | .equal => "equal" | .different => "different" | .conflict => "conflict"
  pure (Json.mkObj [("eq", Json.arr (onts.map fun a => Json.arr (onts.map fun b => show_ (ontEq a b)).toArray).toArray)])

def opXmed (j : Json) : R Json := do
  let ks ← (← fldArr j "kinds").mapM fun k => do
    match ← str k with
    | "R" => pure Edxml.XMed.XKind.record
    | "N" => pure Edxml.XMed.XKind.note
    | "K" => pure Edxml.XMed.XKind.other
    | x => throw s!"unknown child kind {x}"
  let cross ← fldBool j "cross"
  let s := Edxml.XMed.mrun { cross := cross } ks
  pure (Json.mkObj [("log", Json.arr (s.log.map fun (p : Nat × Nat) => (p.1 : Json)).toArray),
                    ("children", s.children.length)])

def natList (j : Json) : R (List Nat) := do (← arr j).mapM fun x => x.getNat?

def itemOf (j : Json) : R Item := do
  match ← fldStr j "k" with
  | "ont" =>
    let v ← match ← fldStr j "v" with
      | "ok" => pure OntV.ok | "semFail" => pure OntV.semFail
      | "schemaSemFail" => pure OntV.schemaSemFail | "schemaSemOk" => pure OntV.schemaSemOk
      | x => throw s!"unknown ontology validity {x}"
    pure (.ont v (← fldStrs j "types") (← fldStrs j "sources"))
  | "event" => pure (.event (← fldNat j "idx") (← fldStr j "type") (← fldStr j "source") (← fldBool j "gate"))
  | "foreign" => pure (.foreign (← fldNat j "idx"))
  | x => throw s!"unknown item kind {x}"

def callbackJson : Callback → Json
  | .ontology ts ss => Json.arr #["ont", jStrs ts, jStrs ss]
  | .handler h i => Json.arr #["h", h, i]
  | .fallback i => Json.arr #["fb", i]
  | .foreign i => Json.arr #["f", i]

def perrJson : Option PErr → Json
  | none => Json.null
  | some .validation => "EDXMLValidationError"
  | some .eventValidation => "EDXMLEventValidationError"
  | some .ontologyValidation => "EDXMLOntologyValidationError"

def opParse (j : Json) : R Json := do
  let rj ← fld j "reg"
  let reg : Registry := {
    typeH := ← (← fldArr rj "typeH").mapM (pairOf str natList)
    srcH := ← (← fldArr rj "srcH").mapM (pairOf str natList)
    reMatch := ← (← fldArr rj "matches").mapM (pairOf str str)
    overridden := ← fldBool rj "overridden"
    validate := ← fldBool rj "validate" }
  let view (s : PState) (e : Option PErr) (logFrom : Nat) : Json := Json.mkObj [
    ("log", Json.arr ((s.log.drop logFrom).map callbackJson).toArray),
    ("err", perrJson e),
    ("nEvents", s.nEvents),
    ("typeCount", Json.arr (s.typeCount.map fun tc => jPair tc.1 tc.2).toArray),
    ("sizes", Json.arr (s.sizes.map fun (p : Nat × Nat) => jPair (p.1 : Json) (p.2 : Json)).toArray),
    ("children", s.children.length)]
  match j.getObjVal? "docs" with
  | .ok ds =>
    -- one parser given several documents one after the other (`PState.nextDoc` in between)
    let regOf (rj : Json) : R Registry := do
      pure { typeH := ← (← fldArr rj "typeH").mapM (pairOf str natList)
             srcH := ← (← fldArr rj "srcH").mapM (pairOf str natList)
             reMatch := ← (← fldArr rj "matches").mapM (pairOf str str)
             overridden := ← fldBool rj "overridden"
             validate := ← fldBool rj "validate" }
    -- every document may come with the handlers registered by then (registrations between the documents)
    let docs ← (← arr ds).mapM fun d => do
      let r : Registry ← match d.getObjVal? "reg" with
        | .ok rj => regOf rj
        | .error _ => pure reg
      pure ((← (← fldArr d "items").mapM itemOf), (← fldBool d "versionOk"), r)
    let rec go (s : PState) (first : Bool) : List (List Item × Bool × Registry) → List Json
      | [] => []
      | (items, vOk, r) :: rest =>
        let s0 := if first then s else s.nextDoc
        let from_ := s0.log.length
        let (s1, e) := prun r { s0 with sizes := [] } items
        let e := match e with
          | none => if vOk then none else some PErr.validation
          | some x => some x
        view s1 e from_ :: (match e with | none => go s1 false rest | some _ => [])
    pure (Json.mkObj [("docs", Json.arr (go {} true docs).toArray)])
  | .error _ =>
  match j.getObjVal? "resilient" with
  | .ok items =>
    -- a push parser that is fed on after refused events
    let its ← (← arr items).mapM itemOf
    let (s, errs) := prunResilient reg {} its
    pure (Json.mkObj [("view", view s none 0), ("errors", Json.arr (errs.map fun e => perrJson (some e)).toArray)])
  | .error _ =>
  let chunks ← (← fldArr j "chunks").mapM fun c => do (← arr c).mapM itemOf
  let rootEnd ← fldBool j "rootEnd"
  let versionOk ← fldBool j "versionOk"
  let (s, e) := feedAll reg {} chunks
  let e := match e with
    | none => if rootEnd && !versionOk then some PErr.validation else none
    | some x => some x
  pure (view s e 0)

open Edxml.Gate in
def gEventTypeOf (j : Json) : R GEventType := do
  let props ← (← fldArr j "props").mapM fun p => do
    pure ({ name := ← fldStr p "name", dataType := ← fldStr p "dt", optional := ← fldBool p "optional",
            multivalued := ← fldBool p "multivalued" } : GProp)
  let attachments ← (← fldArr j "atts").mapM fun a => do
    pure ({ name := ← fldStr a "name", base64 := ← fldBool a "base64" } : GAttachment)
  pure { props, attachments }

open Edxml.Gate in
def infoOfJson (j : Json) : R (String → String → StrInfo) := do
  -- rows: [property, value, hasLu, hasLl, latin1, regexOk|null]
  let rows ← (← arr j).mapM fun r => do
    match ← arr r with
    | [p, v, lu, ll, l1, rx] =>
      let regexOk : Option Bool ← match rx with
        | Json.null => pure none
        | x => pure (some (← x.getBool?))
      pure ((← str p, ← str v), ({ hasLu := ← lu.getBool?, hasLl := ← ll.getBool?, latin1 := ← l1.getBool?, regexOk } : StrInfo))
    | _ => throw "info row"
  pure fun p v => match rows.find? (·.1 == (p, v)) with
    | some r => r.2
    | none => { hasLu := false, hasLl := false, latin1 := true, regexOk := none }

open Edxml.Gate in
/-- base64: encode octet strings, decode accepted strings, say whether a string is in the value space -/
def opB64 (j : Json) : R Json := do
  let bytes ← (← fldArr j "bytes").mapM fun l => do (← arr l).mapM fun x => x.getNat?
  let strings ← fldStrs j "strings"
  let maxLen ← fldNat j "maxLen"
  pure (Json.mkObj [
    ("enc", Json.arr (bytes.map fun bs => Json.str (String.ofList (b64Encode bs))).toArray),
    ("accepted", Json.arr (strings.map fun s => Json.bool (acceptsBase64 maxLen s.toList)).toArray),
    ("dec", Json.arr (strings.map fun s =>
      if acceptsBase64 0 s.toList then Json.arr ((b64Decode s.toList).map fun (n : Nat) => Json.num (JsonNumber.fromNat n)).toArray else Json.null).toArray)])

open Edxml.Gate in
def opGate (j : Json) : R Json := do
  let ops ← (← fldArr j "hist").mapM fun o => do
    match ← fldStr o "k" with
    | "define" => pure (HistOp.mutate (.define (← fldStr o "name") (← gEventTypeOf (← fld o "et"))))
    | "remove" => pure (HistOp.mutate (.remove (← fldStr o "name")))
    | "touch" => pure (HistOp.mutate .touch)
    | "clear" => pure (HistOp.mutate .clear)
    | "validate" => pure (HistOp.validate (← fldBool o "ns") (← event (← fld o "event")) (← infoOfJson (← fld o "info")))
    | x => throw s!"unknown history op {x}"
  let v := runHist {} {} ops
  let s := specHist {} ops
  pure (Json.mkObj [("verdicts", Json.arr (v.map Json.bool).toArray), ("spec", Json.arr (s.map Json.bool).toArray)])

open Edxml.Norm in
def nativeOf (j : Json) : R Native := do
  match ← fldStr j "t" with
  | "int" => match (← fldStr j "v").toInt? with
    | some z => pure (.int z)
    | none => throw "bad int"
  | "dec" => match (← fldStr j "coeff").toNat? with
    | some c => pure (.dec (← fldBool j "neg") c (← (← fld j "exp").getInt?))
    | none => throw "bad coeff"
  | "bool" => pure (.bool (← fldBool j "v"))
  | "str" => pure (.str (← fldStr j "v"))
  | "datetime" =>
    let f ← (← fldArr j "f").mapM fun x => x.getNat?
    let off ← match fldOpt j "off" with
      | some Json.null => pure none
      | some x => pure (some (← x.getInt?))
      | none => pure none
    match f with
    | [y, mo, d, h, mi, s, us] => pure (.datetime y mo d h mi s us off)
    | _ => throw "datetime fields"
  | "none" => pure .none
  | x => throw s!"unknown native {x}"

open Edxml.Norm in
def outJson : Out → Json
  | .ok s => Json.mkObj [("ok", s)]
  | .reject => Json.str "reject"
  | .undecided => Json.str "undecided"

open Edxml.Norm in
def opNorm (j : Json) : R Json := do
  let dt ← fldStr j "dt"
  let vals ← (← fldArr j "values").mapM nativeOf
  let outs := vals.map (normalize dt)
  -- normalizing the output again (as a string)
  let again := outs.map fun o => match o with
    | .ok s => normalize dt (.str s)
    | o => o
  -- the gate's verdict on the output (ASCII outputs only: the character classes are then plain)
  let asciiInfo (s : String) : Edxml.Gate.StrInfo :=
    { hasLu := s.toList.any (fun c => 'A' ≤ c && c ≤ 'Z'), hasLl := s.toList.any (fun c => 'a' ≤ c && c ≤ 'z'),
      latin1 := true, regexOk := none }
  let gate := outs.map fun o => match o with
    | .ok s => if isAscii s then Json.bool (Edxml.Gate.accepts dt (asciiInfo s) s) else Json.null
    | _ => Json.null
  -- the gate's verdict on string inputs as they are (what the writer's auto repair looks at first)
  let gateIn := vals.map fun v => match v with
    | .str s => if isAscii s then Json.bool (Edxml.Gate.accepts dt (asciiInfo s) s) else Json.null
    | _ => Json.null
  pure (Json.mkObj [("out", Json.arr (outs.map outJson).toArray), ("again", Json.arr (again.map outJson).toArray),
    ("gate", Json.arr gate.toArray), ("gateIn", Json.arr gateIn.toArray)])

open Edxml.Ont Edxml.Gate in
def opCompat (j : Json) : R Json := do
  let ots ← (← fldArr j "ots").mapM objectTypeOf
  let ots2 ← (← fldArr j "ots2").mapM objectTypeOf
  let et ← eventTypeOf (← fld j "et")
  let et2 ← eventTypeOf (← fld j "et2")
  let evs ← (← fldArr j "events").mapM fun o => do
    pure (← event (← fld o "event"), ← infoOfJson (← fld o "infoOld"), ← infoOfJson (← fld o "infoNew"))
  -- object types by name: the comparison of each old definition with its new one
  let cmpOts := ots.map fun o => match findBy (·.name) o.name ots2 with
    | some n => cmpJson (cmpObjectType o n)
    | none => Json.str "missing"
  let rows := evs.map fun (e, io, inw) =>
    Json.mkObj [("validOld", gate (gateType ots et) io e), ("validNew", gate (gateType ots2 et2) inw e),
                ("hashSame", decide (hashInput (hashedOfType et) e = hashInput (hashedOfType et2) e))]
  pure (Json.mkObj [("cmpEt", cmpJson (cmpEventType et et2)), ("cmpOts", Json.arr cmpOts.toArray),
                    ("events", Json.arr rows.toArray)])

open Edxml.Mut in
def mutView (x : XmlEv) : Json :=
  let names := canonS (x.props.map (·.1))
  let props := names.filterMap fun n =>
    let vs := x.objects n
    if vs.isEmpty then none else some (jPair n (jStrs vs))
  let anames := canonS (x.atts.map (·.1))
  let atts := anames.filterMap fun n =>
    let ids := canonS ((x.atts.filter (·.1 == n)).map (·.2.1))
    let items := ids.filterMap fun i => (x.attValue n i).map fun v => jPair i v
    if items.isEmpty then none else some (jPair n (Json.arr items.toArray))
  let fkeys := canonS (x.foreign.map (·.1))
  let foreign := fkeys.filterMap fun k => (x.foreignValue k).map fun v => jPair k v
  Json.mkObj [("type", x.type), ("source", x.source), ("props", Json.arr props.toArray),
    ("atts", Json.arr atts.toArray), ("parents", jStrs x.parentSet), ("foreign", Json.arr foreign.toArray)]

def sha1Hex (v : String) : String := hexOfBytes (sha1 (utf8 v))

open Edxml.Mut in
def mutCmd (j : Json) : R Cmd := do
  let on ← fldNat j "on"
  let items (k : String) : R (List (String × String)) := do (← fldArr j k).mapM (pairOf str str)
  match ← fldStr j "k" with
  | "set" | "set1" => pure (.op on (.setProp (← fldStr j "p") (← fldStrs j "vs")))
  | "del" => pure (.op on (.delProp (← fldStr j "p")))
  | "add" => pure (.op on (.addObj (← fldStr j "p") (← fldStr j "v")))
  | "remove" | "discard" | "pop" => pure (.op on (.removeObj (← fldStr j "p") (← fldStr j "v")))
  | "update" | "iadd" => pure (.op on (.updateObjs (← fldStr j "p") (← fldStrs j "vs")))
  | "clear" => pure (.op on (.clearObjs (← fldStr j "p")))
  | "set_properties" | "props_setter" =>
    pure (.op on (.setProperties (← (← fldArr j "props").mapM (pairOf str strs))))
  | "set_attachment_dict" => pure (.op on (.setAttachment (← fldStr j "a") (← items "items")))
  | "set_attachment_str" => do
    let v ← fldStr j "v"
    pure (.op on (.setAttachment (← fldStr j "a") [(sha1Hex v, v)]))
  | "set_attachment_list" => do
    let vs ← fldStrs j "vs"
    pure (.op on (.setAttachment (← fldStr j "a") (vs.map fun v => (sha1Hex v, v))))
  | "set_attachment_none" | "att_del" => pure (.op on (.delAttachment (← fldStr j "a")))
  | "att_setitem" => pure (.op on (.setAttValue (← fldStr j "a") (← fldStr j "i") (← fldStr j "v")))
  | "att_delitem" => pure (.op on (.delAttValue (← fldStr j "a") (← fldStr j "i")))
  | "atts_setter" => pure (.op on (.setAttachments (← (← fldArr j "atts").mapM
      (pairOf str fun x => do (← arr x).mapM (pairOf str str)))))
  | "set_parents" => pure (.op on (.setParents (← fldStrs j "ps")))
  | "add_parents" => pure (.op on (.addParents (← fldStrs j "ps")))
  | "set_type" => pure (.op on (.setType (← fldStr j "v")))
  | "set_source" => pure (.op on (.setSource (← fldStr j "v")))
  | "set_foreign" => pure (.op on (.setForeign (← items "kv")))
  | "copy" => pure (.copy on)
  | "read" => pure (.op on .read)
  | x => throw s!"unknown event operation {x}"

open Edxml.Mut in
def opEvOps (j : Json) : R Json := do
  let e ← event (← fld j "initial")
  let props0 := e.props.flatMap (fun pv => (dedup pv.2).map fun v => (pv.1, v))
  let atts0 := e.atts.flatMap fun a => a.2.map fun iv => (a.1, iv.1, iv.2)
  let x0 : XmlEv := ⟨e.type, e.source, dedup e.parents, e.foreign, props0, atts0⟩
  let cmds ← (← fldArr j "ops").mapM mutCmd
  let (_, steps) := cmds.foldl (fun (acc : List XmlEv × List Json) c =>
    let xs := runCmd acc.1 c
    let objs := xs.map fun x => Json.mkObj [("abs", mutView x), ("xml", mutView x)]
    let n := xs.length
    let pairs := (List.range n).flatMap fun i => ((List.range n).filter (· > i)).map fun k => (i, k)
    let eqs := pairs.filterMap fun (i, k) => match xs[i]?, xs[k]? with
      | some a, some b =>
        let names := (a.props ++ b.props).map (·.1)
        let anames := (a.atts ++ b.atts).map (·.1)
        let ids := (a.atts ++ b.atts).map (·.2.1)
        let same := sameEvent names anames ids a b
        some (Json.arr #[i, k, same, !same])
      | _, _ => none
    (xs, acc.2 ++ [Json.mkObj [("objects", Json.arr objs.toArray), ("eq", Json.arr eqs.toArray)]])) ([x0], [])
  pure (Json.mkObj [("steps", Json.arr steps.toArray)])

open Edxml.Codec in
def opXmlCycle (j : Json) : R Json := do
  let els ← (← fldArr j "elements").mapM fun e => do
    pure (← fldStr e "tag", ← (← fldArr e "attrs").mapM (pairOf str str))
  let attrsJson (a : Attrs) : Json := Json.arr (a.map fun kv => jPair kv.1 kv.2).toArray
  let outs := els.map fun (tag, a) =>
    match cycle tag a with
    | some a1 => match cycle tag a1 with
      | some a2 => Json.mkObj [("once", attrsJson a1), ("twice", attrsJson a2)]
      | none => Json.mkObj [("once", attrsJson a1), ("twice", Json.str "fail")]
    | none => Json.str "fail"
  pure (Json.mkObj [("elements", Json.arr outs.toArray)])

open Edxml.Codec in
/-- a whole `<ontology>` element through `cycleOnt`: the serialized tree (containers in the order
`generate_xml` writes their definitions) -/
def opXmlTree (j : Json) : R Json := do
  let attrsOf (x : Json) : R Attrs := do (← arr x).mapM (pairOf str str)
  let attrsJson (a : Attrs) : Json := Json.arr (a.map fun kv => jPair kv.1 kv.2).toArray
  let ets ← (← fldArr j "eventTypes").mapM fun e => do
    let parent : Option Attrs ← match e.getObjVal? "parent" with
      | .ok Json.null => pure none
      | .ok p => do pure (some (← attrsOf p))
      | .error _ => pure none
    let props ← (← fldArr e "props").mapM fun p => do
      pure ({ attrs := ← attrsOf (← fld p "attrs"), concepts := ← (← fldArr p "concepts").mapM attrsOf } : PropX)
    let rels ← (← fldArr e "rels").mapM fun r => do
      pure ({ tag := ← fldStr r "tag", attrs := ← attrsOf (← fld r "attrs") } : RelX)
    pure ({ attrs := ← attrsOf (← fld e "attrs"), parent := parent, props := props, rels := rels,
            atts := ← (← fldArr e "atts").mapM attrsOf } : EtX)
  let o : OntX := { objectTypes := ← (← fldArr j "objectTypes").mapM attrsOf, concepts := ← (← fldArr j "concepts").mapM attrsOf,
                    eventTypes := ets, sources := ← (← fldArr j "sources").mapM attrsOf }
  let ontJson (o : OntX) : Json := Json.mkObj [
    ("objectTypes", Json.arr (o.objectTypes.map attrsJson).toArray),
    ("concepts", Json.arr (o.concepts.map attrsJson).toArray),
    ("eventTypes", Json.arr (o.eventTypes.map fun e => Json.mkObj [
      ("attrs", attrsJson e.attrs),
      ("parent", match e.parent with | some p => attrsJson p | none => Json.null),
      ("props", Json.arr (e.props.map fun p => Json.mkObj [("attrs", attrsJson p.attrs),
        ("concepts", Json.arr (p.concepts.map attrsJson).toArray)]).toArray),
      ("rels", Json.arr (e.rels.map fun r => Json.mkObj [("tag", r.tag), ("attrs", attrsJson r.attrs)]).toArray),
      ("atts", Json.arr (e.atts.map attrsJson).toArray)]).toArray),
    ("sources", Json.arr (o.sources.map attrsJson).toArray)]
  match cycleOnt o with
  | some o1 => pure (Json.mkObj [("once", ontJson o1), ("twiceSame", Json.bool (cycleOnt o1 == some o1))])
  | none => pure (Json.mkObj [("once", Json.str "fail")])

def opXmlEsc (j : Json) : R Json := do
  let vals ← fldStrs j "values"
  let rows := vals.map fun v =>
    let t := escapeText v.toList
    let a := escapeAttr v.toList
    Json.mkObj [("text", String.ofList t), ("attr", String.ofList a),
      ("textBack", String.ofList (unescapeText t)), ("attrBack", String.ofList (unescapeAttr a))]
  pure (Json.mkObj [("values", Json.arr rows.toArray)])

def opWStream (j : Json) : R Json := do
  let validate ← fldBool j "validate"
  let ops ← (← fldArr j "ops").mapM fun o => do
    match ← fldStr o "k" with
    | "ont" => pure (WOp.addOntology (← fldStrs o "types") (← fldStrs o "sources") (← fldBool o "ok"))
    | "event" => pure (WOp.addEvent (← fldNat o "idx") (← fldStr o "type") (← fldStr o "source") (← fldBool o "gate"))
    | "foreign" => pure (WOp.addForeign (← fldNat o "idx"))
    | x => throw s!"unknown writer op {x}"
  -- per call: accepted or the error raised
  let (w, verdicts) := ops.foldl (fun (acc : WState × List Json) op =>
    let r := wstep validate acc.1 op
    (r.1, acc.2 ++ [perrJson r.2])) (({} : WState), [])
  let outJson := w.out.map fun it => match it with
    | .ont _ ts ss => Json.arr #["ont", jStrs ts, jStrs ss]
    | .event i _ _ _ => Json.arr #["event", (i : Json)]
    | .foreign i => Json.arr #["foreign", (i : Json)]
  -- the validating parser on what was written
  let reg : Registry := { typeH := [], srcH := [], reMatch := [], overridden := true, validate := true }
  let (p, e) := prun reg {} w.out
  let delivered := p.log.filterMap fun c => match c with
    | .fallback i => some (i : Json)
    | .handler _ i => some (i : Json)
    | _ => none
  -- the pass-through filter on what was written, and on its own output
  let shape (items : List Item) : Json := Json.arr (items.map fun it => match it with
    | .ont _ ts ss => Json.arr #["ont", jStrs ts, jStrs ss]
    | .event _ _ _ _ => Json.arr #["event"]
    | .foreign _ => Json.arr #["foreign"]).toArray
  let f1 := filterOut true w.out
  let f2 := f1.bind (filterOut true)
  let optShape (o : Option (List Item)) : Json := match o with
    | some items => shape items
    | none => Json.null
  pure (Json.mkObj [("verdicts", Json.arr verdicts.toArray), ("out", Json.arr outJson.toArray),
    ("parseErr", perrJson e), ("delivered", Json.arr delivered.toArray),
    ("types", jStrs w.types), ("sources", jStrs w.sources), ("filter", optShape f1), ("filter2", optShape f2)])

def ratOf (j : Json) : R Rat := do
  match ← arr j with
  | [n, d] => match (← str n).toInt?, (← str d).toNat? with
    | some a, some b => pure (mkRat a b)
    | _, _ => throw "bad rational"
  | _ => throw "rational = [num, den]"

def ratJson (q : Rat) : Json := Json.arr #[Json.str (toString q.num), Json.str (toString q.den)]

open Edxml.Miner in
def opMiner (j : Json) : R Json := do
  let lists (k : String) : R (List (List Rat)) := do (← fldArr j k).mapM fun l => do (← arr l).mapM ratOf
  let noisy ← lists "noisy"
  let taint ← lists "taint"
  -- per node of "taint": was it a seed itself (absent: no node was)
  let seeds : List Bool ← match j.getObjVal? "seeds" with
    | .ok (Json.arr a) => a.toList.mapM fun x => match x with | Json.bool b => pure b | _ => throw "seeds: bool expected"
    | _ => pure (taint.map fun _ => false)
  let urels ← (← fldArr j "rels").mapM fun r => do
    pure ({ kind := ← fldStr r "kind", source := ← fldStr r "source", target := ← fldStr r "target",
            sourceType := ← fldStr r "sourceType", targetType := ← fldStr r "targetType" } : URel)
  let evs ← (← fldArr j "events").mapM event
  let uni (k : String) : Json :=
    let all := evs.flatMap (universalsOf urels k)
    Json.arr (all.map fun (a, b, c, d) => jStrs [a, b, c, d]).toArray
  pure (Json.mkObj [("noisy", Json.arr (noisy.map fun l => ratJson (noisyOr l)).toArray),
    ("taint", Json.arr (taint.map fun l => ratJson (taintOf l)).toArray),
    ("taintHistory", Json.arr (((taint.zip seeds).map fun (l, sd) => ratJson (taintHistory sd l))).toArray),
    ("names", uni "name"), ("descriptions", uni "description"), ("containers", uni "container")])

open Edxml.Miner in
/-- one reasoning pass of the miner, replayed from the trace of a real run -/
def opSearch (j : Json) : R Json := do
  let nodes ← (← fldArr j "nodes").mapM fun n => do
    match ← arr n with
    | [c, t] => pure ((← ratOf c), (← ratOf t))
    | _ => throw "node = [conf, taint]"
  let g : SGraph := { conf := fun k => (nodes.getD k (0, 0)).1, taint := fun k => (nodes.getD k (0, 0)).2 }
  let min ← ratOf (← fld j "min")
  let eps ← ratOf (← fld j "eps")
  let md ← fldNat j "maxDepth"
  let seed ← fldNat j "seed"
  -- edge = [tgt, conf, kind, concept, considered, assigned|null]
  let kindOf (x : String) : R EKind := match x with
    | "toHub" => pure .toHub | "sameObject" => pure .sameObject | "intra" => pure .intra | "inter" => pure .inter
    | k => throw s!"edge kind {k}"
  let tr : FTrace ← (← fldArr j "trace").mapM fun st => do
    match ← arr st with
    | [n, es] =>
      let es ← (← arr es).mapM fun e => do
        match ← arr e with
        | [t, c, k, cn, cons, r] =>
          let r : Option Rat ← (match r with | Json.null => pure none | x => do pure (some (← ratOf x)))
          pure ({ edge := { tgt := ← t.getNat?, conf := ← ratOf c, kind := ← kindOf (← str k), concept := ← str cn },
                  considered := ← cons.getBool?, assigned := r } : FEdge)
        | _ => throw "edge = [tgt, conf, kind, concept, considered, assigned|null]"
      pure ((← n.getNat?), es)
    | _ => throw "step = [node, edges]"
  let seedConcept ← fldStr j "seedConcept"
  match runC2 g min eps md seed seedConcept tr with
  | some (s, q) =>
    let ks := List.range nodes.length
    pure (Json.mkObj [("valid", Json.bool true),
      ("sc", Json.arr (ks.map fun k => match s.sc k with | some c => ratJson c | none => Json.null).toArray),
      ("depth", Json.arr (ks.map fun k => Json.num (s.depth k)).toArray),
      ("visited", Json.arr (s.visited.reverse.map fun (k : Nat) => Json.num (k : Nat)).toArray),
      ("equivs", Json.arr (q.map fun (cn, k, c) => Json.arr #[Json.str cn, Json.num (k : Nat), ratJson c]).toArray)])
  | none =>
    -- where it stops: the relaxations alone (the projection), or only with the scope filter
    let why := match runC g min eps md seed tr.proj with
      | some _ => "scope"
      | none => "relaxation"
    pure (Json.mkObj [("valid", Json.bool false), ("firstBad", Json.num (firstBad g min eps md seed tr.proj)), ("why", why)])

open Edxml.Miner in
/-- seed selections of a mining run: `picks` = [[candidates [id, taint, confidence]], choice | null] -/
def opPick (j : Json) : R Json := do
  let res ← (← fldArr j "picks").mapM fun p => do
    match ← arr p with
    | [cs, ch] =>
      let cands ← (← arr cs).mapM fun c => do
        match ← arr c with
        | [i, t, f] => pure ({ id := ← i.getNat?, taint := ← ratOf t, conf := ← ratOf f } : Cand)
        | _ => throw "candidate = [id, taint, confidence]"
      let choice : Option Nat ← (match ch with | Json.null => pure none | x => do pure (some (← x.getNat?)))
      pure (Json.bool (pickOk cands choice))
    | _ => throw "pick = [candidates, choice]"
  pure (Json.mkObj [("ok", Json.arr res.toArray)])

open Edxml.Miner.Construct in
/-- `GraphConstructor.add` over a sequence of events (each with the event type definition in force): node ids the way
`EventObjectNode.id` writes them, and the relation links as pairs of node ids. -/
def opConstruct (j : Json) : R Json := do
  let evs ← (← fldArr j "events").mapM fun e => do
    let et ← fld e "et"
    let props ← (← fldArr et "props").mapM fun p => do
      pure ({ name := ← fldStr p "name", ot := ← fldStr p "ot", assocs := ← fldStrs p "assocs" } : PropDef)
    let rels ← (← fldArr et "rels").mapM fun r => do
      let kind ← (match ← fldStr r "kind" with
        | "inter" => pure RelKind.inter
        | "intra" => pure RelKind.intra
        | "other" => pure RelKind.other
        | k => throw s!"relation kind {k}")
      pure ({ kind := kind, source := ← fldStr r "source", target := ← fldStr r "target", sc := ← fldStr r "sc", tc := ← fldStr r "tc" } : RelDef)
    let ev ← (← fldArr e "props").mapM fun kv => do
      match ← arr kv with
      | [k, vs] => pure ((← str k), (← (← arr vs).mapM str))
      | _ => throw "property = [name, [objects]]"
    pure (({ props := props, rels := rels } : EtDef), (ev : Ev))
  let idOf (n : NodeId) : String := s!"obj:{n.event}:{n.prop}:{n.concept}:{n.value}"
  let nodes := (graphNodes 0 evs).map fun n => Json.str (idOf n)
  let links := (graphLinks 0 evs).map fun l => Json.arr #[Json.str (idOf l.src), Json.str (idOf l.dst)]
  pure (Json.mkObj [("nodes", Json.arr nodes.toArray), ("links", Json.arr links.toArray)])

open Edxml.Miner.Extract in
/-- `extract_result_set`: nodes with their seed confidences → instances (seed, attributes, node ids) -/
def opExtract (j : Json) : R Json := do
  let min ← ratOf (← fld j "min")
  let nodes ← (← fldArr j "nodes").mapM fun n => do
    let sc ← (← fldArr n "sc").mapM fun e => do
      match ← arr e with
      | [s, c] => pure ((← s.getNat?), (← ratOf c))
      | _ => throw "seed confidence = [seed, confidence]"
    pure ({ id := ← fldNat n "id", attr := ← fldStr n "attr", value := ← fldStr n "value", sc := sc } : ONode)
  let out := (extract nodes min).map fun i =>
    Json.mkObj [("seed", Json.num (i.seed : Nat)),
      ("attrs", Json.arr (i.attrs.map fun x =>
        Json.arr #[Json.str x.name, Json.str x.value, Json.arr (x.nodes.map fun (k : Nat) => Json.num k).toArray]).toArray)]
  pure (Json.mkObj [("instances", Json.arr out.toArray)])

open Edxml.Transcode in
partial def rvalOf (j : Json) : R RVal :=
  match j with
  | Json.null => pure .null
  | Json.bool b => pure (.bool b)
  | Json.str s => pure (.str s)
  | Json.num n => if n.exponent == 0 then pure (.int n.mantissa) else throw "record values: integers only"
  | Json.arr a => do pure (.list (← a.toList.mapM rvalOf))
  | Json.obj kv => do pure (.obj (← (kv.toList.map fun (k, v) => (k, v)).mapM fun (k, v) => do pure (k, ← rvalOf v)))

open Edxml.Transcode in
partial def rvalJson (v : RVal) : Json :=
  match v with
  | .null => Json.null
  | .bool b => Json.bool b
  | .int n => Json.num (JsonNumber.fromInt n)
  | .str s => Json.str s
  | .list l => Json.arr (l.map rvalJson).toArray
  | .obj kv => Json.mkObj (kv.map fun (k, x) => (k, rvalJson x))

open Edxml.Transcode in
/-- `ObjectTranscoder.generate`: the property dictionary a record gives under a property map. The record's keys are given
as a list of pairs (insertion order is immaterial for lookups, but duplicate-free). -/
def opLookup (j : Json) : R Json := do
  let pairsOf (x : Json) : R RVal := do
    -- top level record as [[key, value], ...]
    pure (.obj (← (← arr x).mapM fun kv => do
      match ← arr kv with
      | [k, v] => pure ((← str k), (← rvalOf v))
      | _ => throw "record = [[key, value], ...]"))
  let recv ← pairsOf (← fld j "record")
  let pmap ← (← fldArr j "map").mapM fun e => do
    pure ({ selector := ← fldStr e "selector", props := ← fldStrs e "props", empty := ← (← fldArr e "empty").mapM rvalOf } : MapEntry)
  let ps := generateProps recv pmap
  pure (Json.mkObj [("props", Json.arr (ps.map fun (p, vs) => jPair (Json.str p) (Json.arr (vs.map rvalJson).toArray)).toArray)])

def opMediator (j : Json) : R Json := do
  let ig ← fldBool j "ignoreInvalid"
  let ops ← (← fldArr j "ops").mapM fun o => do
    match ← fldStr o "k" with
    | "addSource" => pure (MOp.addSource (← fldStr o "uri"))
    | "setSource" => pure (MOp.setSource (← fldStr o "uri"))
    | "record" => do
      let evs ← (← fldArr o "events").mapM fun e => do
        pure ({ idx := ← fldNat e "idx", type := ← fldStr e "type", gateOk := ← fldBool e "valid" } : GenEvent)
      pure (MOp.record evs)
    | x => throw s!"unknown mediator op {x}"
  let s0 : MState := { types := ← fldStrs j "types", sources := ← fldStrs j "sources", curSource := ← fldStr j "cur" }
  -- "ignoreFrom": ignore_invalid_events() is called just before the op with this index (mrunF)
  let ignoreFrom : Option Nat := match j.getObjVal? "ignoreFrom" with
    | .ok v => (v.getNat?).toOption
    | _ => none
  let flagged : List (Bool × MOp) := (List.zip (List.range ops.length) ops).map fun (i, op) =>
    ((match ignoreFrom with | some k => decide (k ≤ i) | none => ig), op)
  let (s, verdicts) := flagged.foldl (fun (acc : MState × List Json) op =>
    let r := mstep op.1 acc.1 op.2
    (r.1, acc.2 ++ [perrJson r.2])) (s0, [])
  let s := mclose s
  let outJson := s.w.out.map fun it => match it with
    | .ont _ ts ss => Json.arr #["ont", jStrs ts, jStrs ss]
    | .event i _ src _ => Json.arr #["event", (i : Json), Json.str src]
    | .foreign i => Json.arr #["foreign", (i : Json)]
  let reg : Registry := { typeH := [], srcH := [], reMatch := [], overridden := true, validate := true }
  let (p, e) := prun reg {} s.w.out
  let delivered := p.log.filterMap fun c => match c with
    | .fallback i => some (i : Json)
    | .handler _ i => some (i : Json)
    | _ => none
  pure (Json.mkObj [("verdicts", Json.arr verdicts.toArray), ("out", Json.arr outJson.toArray),
    ("parseErr", perrJson e), ("delivered", Json.arr delivered.toArray), ("sources", jStrs s.w.sources)])

open Edxml.Tpl in
def segOf (j : Json) : R Seg := do
  match ← arr j with
  | [k, v] =>
    if (← str k) == "text" then pure (.text (← str v)) else throw "segment"
  | [k, f, args] =>
    if (← str k) == "ph" then
      let fm : Option String ← match f with
        | Json.null => pure none
        | x => pure (some (← str x))
      pure (.ph fm (← strs args))
    else throw "segment"
  | _ => throw "segment"

open Edxml.Tpl in
partial def toksOf (nodes : List Json) : R (List Tok) := do
  -- group consecutive text / placeholder nodes into runs, scopes become brackets
  let mut out : List Tok := []
  let mut run : List Seg := []
  for n in nodes do
    let a ← arr n
    match a with
    | [k, inner] =>
      if (← str k) == "scope" then
        out := out ++ [Tok.run run, Tok.openScope] ++ (← toksOf (← arr inner)) ++ [Tok.closeScope]
        run := []
      else
        run := run ++ [← segOf n]
    | _ => run := run ++ [← segOf n]
  pure (out ++ [Tok.run run])

def tableOf (j : Json) : R (String → List String) := do
  let rows ← (← arr j).mapM (pairOf str strs)
  pure fun k => match rows.find? (·.1 == k) with
    | some r => r.2
    | none => []

def table2Of (j : Json) : R (String → String → Option String) := do
  let rows ← (← arr j).mapM fun r => do
    match ← arr r with
    | [a, b, c] => pure ((← str a, ← str b), ← str c)
    | _ => throw "table row"
  pure fun a b => (rows.find? (·.1 == (a, b))).map (·.2)

open Edxml.Tpl in
def opTemplate (j : Json) : R Json := do
  let et : EType := { props := ← (← fldArr j "props").mapM (pairOf str str), attachments := ← fldStrs j "attachments" }
  -- a template string is validated the way Template.validate does (whole string), a syntax tree by its tokens
  let (toks, valid) ← match j.getObjVal? "template" with
    | .ok (Json.str t) => pure (tokenize t, validateStr et t)
    | _ => do
      let toks ← toksOf (← fldArr j "nodes")
      pure (toks, validate et toks)
  let outs ← (← fldArr j "envs").mapM fun e => do
    let shown ← tableOf (← fld e "shown")
    let raw ← tableOf (← fld e "raw")
    let atts ← tableOf (← fld e "atts")
    let dates ← table2Of (← fld e "dates")
    let spans ← table2Of (← fld e "spans")
    let durations ← table2Of (← fld e "durations")
    let env : Env := ⟨shown, raw, atts, dates, spans, durations⟩
    match evaluate env toks with
    | .ok s => pure (Json.mkObj [("ok", s)])
    | .error err => pure (Json.str (match err with
        | .badBoolean => "badBoolean" | .badDate => "badDate" | .badArguments => "badArguments" | .unbalanced => "unbalanced"))
  pure (Json.mkObj [("valid", valid), ("outs", Json.arr outs.toArray)])

def dispatch (j : Json) : R Json := do
  match ← fldStr j "op" with
  | "ping" => pure (Json.mkObj [("pong", true)])
  | "hash" => opHash j
  | "memo" => opMemo j
  | "merge" => opMerge j
  | "mergetree" => opMergeTree j
  | "parse" => opParse j
  | "equiv" => opEquiv j
  | "cmp" => opCmp j
  | "track" => opTrack j
  | "update" => opUpdate j
  | "onteq" => opOntEq j
  | "xmed" => opXmed j
  | "gate" => opGate j
  | "b64" => opB64 j
  | "norm" => opNorm j
  | "compat" => opCompat j
  | "evops" => opEvOps j
  | "xmlcycle" => opXmlCycle j
  | "xmltree" => opXmlTree j
  | "xmlesc" => opXmlEsc j
  | "wstream" => opWStream j
  | "miner" => opMiner j
  | "search" => opSearch j
  | "pick" => opPick j
  | "construct" => opConstruct j
  | "extract" => opExtract j
  | "mediator" => opMediator j
  | "lookup" => opLookup j
  | "template" => opTemplate j
  | x => throw s!"unknown op {x}"

partial def loop (inp out : IO.FS.Stream) : IO Unit := do
  let line ← inp.getLine
  if line.isEmpty then return ()
  let reply := match Json.parse line with
    | .error e => Json.mkObj [("bad-op", s!"json: {e}")]
    | .ok j => match dispatch j with
      | .ok r => r
      | .error e => Json.mkObj [("bad-op", e)]
  out.putStrLn reply.compress
  out.flush
  loop inp out

def main : IO Unit := do loop (← IO.getStdin) (← IO.getStdout)
