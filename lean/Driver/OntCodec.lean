/-
JSON decoding of ontology definitions for the driver.
-/
import Driver.Codec
open Lean
namespace Driver
open Edxml.Ont

def optStr (j : Json) (k : String) : R (Option String) :=
  match j.getObjVal? k with
  | .ok Json.null => pure none
  | .ok v => do pure (some (← str v))
  | .error _ => throw s!"missing field {k}"

def freeOf (j : Json) : R Free := do
  (← fldArr j "free").mapM fun kv => do
    match ← arr kv with
    | [k, Json.null] => pure (← str k, none)
    | [k, v] => pure (← str k, some (← str v))
    | _ => throw "free attribute pair expected"

def conceptOf (j : Json) : R ConceptDef := do
  pure { name := ← fldStr j "name", version := ← fldNat j "version", free := ← freeOf j }

def objectTypeOf (j : Json) : R ObjectTypeDef := do
  pure { name := ← fldStr j "name", version := ← fldNat j "version", free := ← freeOf j,
         regexHard := ← optStr j "regexHard", dataType := ← fldStr j "dataType" }

def assocOf (j : Json) : R AssocDef := do
  pure { concept := ← fldStr j "concept", property := ← fldStr j "property", ext := ← fldStr j "ext", free := ← freeOf j }

def relationOf (j : Json) : R RelationDef := do
  pure { id := ← fldStr j "id", source := ← fldStr j "source", target := ← fldStr j "target",
         sourceConcept := ← optStr j "sourceConcept", targetConcept := ← optStr j "targetConcept",
         type := ← fldStr j "type", free := ← freeOf j }

def parentOf (j : Json) : R ParentDef := do
  pure { parentType := ← fldStr j "parentType",
         propertyMap := ← (← fldArr j "propertyMap").mapM (pairOf str str), free := ← freeOf j }

def attachmentOf (j : Json) : R AttachmentDef := do
  pure { name := ← fldStr j "name", mediaType := ← fldStr j "mediaType", encoding := ← fldStr j "encoding",
         free := ← freeOf j }

def propOf (j : Json) : R PropDef := do
  pure { name := ← fldStr j "name", objectType := ← fldStr j "objectType", merge := ← fldStr j "merge",
         optional := ← fldBool j "optional", multivalued := ← fldBool j "multivalued",
         datetime := ← fldBool j "datetime", free := ← freeOf j,
         assocs := ← (← fldArr j "assocs").mapM assocOf }

def eventTypeOf (j : Json) : R EventTypeDef := do
  let parent ← match fldOpt j "parent" with
    | some p => do pure (some (← parentOf p))
    | none => pure none
  pure { name := ← fldStr j "name", version := ← fldNat j "version", free := ← freeOf j,
         versionProp := ← optStr j "versionProp", seqProp := ← optStr j "seqProp",
         tsStart := ← optStr j "tsStart", tsEnd := ← optStr j "tsEnd", parent,
         props := ← (← fldArr j "props").mapM propOf,
         relations := ← (← fldArr j "relations").mapM relationOf,
         attachments := ← (← fldArr j "attachments").mapM attachmentOf }

def cmpJson : Cmp → Json
  | .eq => "eq" | .lt => "lt" | .gt => "gt" | .incompat => "incompat"

def cmpSub {α : Type} (a b : Json) (f : Json → R α) (c : Nat → Nat → α → α → Cmp) : R Cmp := do
  pure (c (← fldNat a "etVersion") (← fldNat b "etVersion") (← f (← fld a "def")) (← f (← fld b "def")))

/-- compare two definitions of the given kind -/
def cmpKind (kind : String) (a b : Json) : R Cmp := do
  let sub {α : Type} (f : Json → R α) (c : Nat → Nat → α → α → Cmp) : R Cmp := cmpSub a b f c
  match kind with
  | "concept" | "source" => pure (cmpConcept (← conceptOf a) (← conceptOf b))
  | "objecttype" => pure (cmpObjectType (← objectTypeOf a) (← objectTypeOf b))
  | "eventtype" => pure (cmpEventType (← eventTypeOf a) (← eventTypeOf b))
  | "assoc" => sub assocOf cmpAssoc
  | "relation" => sub relationOf cmpRelation
  | "parent" => sub parentOf cmpParent
  | "attachment" => sub attachmentOf cmpAttachment
  | "property" => sub propOf cmpProp
  | k => throw s!"unknown element kind {k}"

end Driver
