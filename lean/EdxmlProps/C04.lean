/-
C04 — Merging follows each merge strategy and preserves event identity and validity.

All statements are about `Edxml.mergeEvents` (the model of `EventType.merge_events`), for every
list of property specifications with distinct names, every optional version property and every
list of events; the hypotheses spell out what "colliding" and "valid" mean where needed.
-/
import EdxmlModel
import EdxmlProps.Lemmas.Merge
import EdxmlProps.C01
namespace EdxmlProps.C04
open Edxml

theorem versionOrder_perm (vp : Option String) (es : List Event) : (versionOrder vp es).Perm es := by
  cases vp with
  | none => exact List.Perm.refl _
  | some v => exact stableSort_perm _ _

theorem mem_versionOrder (vp : Option String) (es : List Event) (e : Event) :
    e ∈ versionOrder vp es ↔ e ∈ es := (versionOrder_perm vp es).mem_iff

theorem versionOrder_sorted (v : String) (es : List Event) :
    KSorted (versionInt v) (versionOrder (some v) es) := stableSort_sorted _ _

/-- Shape of a successful merge. -/
theorem merge_ok_shape (specs : List PropSpec) (vp : Option String) (es : List Event) (r : Event)
    (h : mergeEvents specs vp es = .ok r) :
    ∃ first rest, versionOrder vp es = first :: rest ∧
      r = { first with
        props := specs.map fun s => (s.name, mergeProp s (versionOrder vp es))
        parents := canonS ((versionOrder vp es).flatMap (·.parents)) } := by
  unfold mergeEvents at h
  simp only at h
  split at h
  · cases h
  · cases hv : versionOrder vp es with
    | nil => rw [hv] at h; cases h
    | cons first rest =>
      rw [hv] at h
      simp only [Except.ok.injEq] at h
      exact ⟨first, rest, rfl, by rw [← h]⟩

theorem nodup_map_inj {α β} (f : α → β) : ∀ (l : List α), (l.map f).Nodup → ∀ a ∈ l, ∀ b ∈ l, f a = f b → a = b
  | [], _, a, ha, _, _, _ => by cases ha
  | x :: xs, hn, a, ha, b, hb, hab => by
    simp only [List.map_cons, List.nodup_cons, List.mem_map, not_exists, not_and] at hn
    rcases List.mem_cons.mp ha with h1 | h1 <;> rcases List.mem_cons.mp hb with h2 | h2
    · rw [h1, h2]
    · rw [h1] at hab; exact absurd hab.symm (hn.1 b h2)
    · rw [h2] at hab; exact absurd hab (hn.1 a h1)
    · exact nodup_map_inj f xs hn.2 a h1 b h2 hab

theorem mergeProp_canon (s : PropSpec) (es : List Event) : canonS (mergeProp s es) = mergeProp s es := by
  unfold mergeProp
  simp only
  cases s.merge with
  | min => cases pyMin (keyLe s.numeric) (es.flatMap (·.objects s.name)) <;> rfl
  | max => cases pyMax (keyLe s.numeric) (es.flatMap (·.objects s.name)) <;> rfl
  | add => exact canonS_idem _
  | replace =>
    simp only
    cases es.getLast? with
    | none => rfl
    | some e => exact objects_canon e _
  | set | any | match_ =>
    simp only
    rcases firstNonEmpty_spec s.name es with ⟨h, _⟩ | ⟨_, e, _, _, _, _, h⟩
    · rw [h]; rfl
    · rw [h]; exact objects_canon e _

/-- With distinct property names, the object set of a property of the merged event is what
`mergeProp` computed for it. -/
theorem merged_objects (specs : List PropSpec) (hn : (specs.map (·.name)).Nodup)
    (vp : Option String) (es : List Event) (r : Event) (h : mergeEvents specs vp es = .ok r)
    (s : PropSpec) (hs : s ∈ specs) :
    r.objects s.name = mergeProp s (versionOrder vp es) := by
  obtain ⟨first, rest, _, hr⟩ := merge_ok_shape specs vp es r h
  rw [← mergeProp_canon]
  subst hr
  unfold Event.objects
  apply (canonS_eq_iff _ _).mpr
  intro v
  simp only [Event.pairs, List.mem_map, List.mem_filter, List.mem_flatMap, beq_iff_eq]
  constructor
  · rintro ⟨⟨q, w⟩, ⟨⟨pv, ⟨t, ht, rfl⟩, hw⟩, hq⟩, rfl⟩
    simp only [List.mem_map] at hw
    obtain ⟨w', hw', he⟩ := hw
    simp only [Prod.mk.injEq] at he
    simp only at hq
    have : t = s := by
      have hname : t.name = s.name := by rw [he.1]; exact hq
      exact nodup_map_inj _ specs hn t ht s hs hname
    subst this
    rw [← he.2]; exact hw'
  · intro hv
    exact ⟨(s.name, v), ⟨⟨(s.name, _), ⟨s, hs, rfl⟩, by simpa using hv⟩, rfl⟩, rfl⟩

variable (specs : List PropSpec) (hn : (specs.map (·.name)).Nodup) (vp : Option String)
  (es : List Event) (r : Event) (h : mergeEvents specs vp es = .ok r)

include h in
/-- Type, source, attachments and foreign attributes are those of an instance; when all
instances share type and source (they collide) the merged event has them too. -/
theorem merge_type_source (t u : String) (hts : ∀ e ∈ es, e.type = t ∧ e.source = u) :
    r.type = t ∧ r.source = u := by
  obtain ⟨first, rest, hv, hr⟩ := merge_ok_shape specs vp es r h
  have hf : first ∈ es := (mem_versionOrder vp es first).mp (by rw [hv]; simp)
  subst hr
  exact hts first hf

include hn h in
/-- match: the (common) object set of the instances is unchanged. -/
theorem merge_match_unchanged (s : PropSpec) (hs : s ∈ specs) (hm : s.merge = .match_)
    (O : List String) (hO : ∀ e ∈ es, e.objects s.name = O) : r.objects s.name = O := by
  rw [merged_objects specs hn vp es r h s hs]
  unfold mergeProp; simp only [hm]
  rcases firstNonEmpty_spec s.name (versionOrder vp es) with ⟨h1, h2⟩ | ⟨pre, e, post, h1, _, _, h4⟩
  · rw [h1]
    obtain ⟨first, rest, hv, _⟩ := merge_ok_shape specs vp es r h
    have hf : first ∈ versionOrder vp es := by rw [hv]; simp
    rw [← hO first ((mem_versionOrder vp es first).mp hf), h2 first hf]
  · rw [h4]
    exact hO e ((mem_versionOrder vp es e).mp (by rw [h1]; simp))

include hn h in
/-- The merged event has the same hash input (hence the same sticky hash) as every instance. -/
theorem merge_hash_eq (t u : String) (hts : ∀ e ∈ es, e.type = t ∧ e.source = u)
    (hcoll : ∀ s ∈ specs, s.merge = .match_ → ∀ e ∈ es, ∀ e' ∈ es, e.objects s.name = e'.objects s.name)
    (e : Event) (he : e ∈ es) :
    hashInput (hashedNames specs) r = hashInput (hashedNames specs) e := by
  have hts' := merge_type_source specs vp es r h t u hts
  apply C01.hashInput_congr
  · rw [hts'.2, (hts e he).2]
  · rw [hts'.1, (hts e he).1]
  · intro p v hp
    have hp' : p ∈ hashedNames specs := by simpa using hp
    simp only [hashedNames, List.mem_map, List.mem_filter, beq_iff_eq] at hp'
    obtain ⟨s, ⟨hs, hm⟩, rfl⟩ := hp'
    rw [← mem_objects, ← mem_objects,
      merge_match_unchanged specs hn vp es r h s hs hm (e.objects s.name)
        (fun e' he' => hcoll s hs hm e' he' e he)]

include hn h in
/-- add: the union of the object sets of all instances. -/
theorem merge_add_union (s : PropSpec) (hs : s ∈ specs) (hm : s.merge = .add) (v : String) :
    v ∈ r.objects s.name ↔ ∃ e ∈ es, v ∈ e.objects s.name := by
  rw [merged_objects specs hn vp es r h s hs]
  unfold mergeProp; simp only [hm]
  rw [mem_canonS]
  simp only [List.mem_flatMap, mem_versionOrder]

include hn h in
/-- min: a single object, taken from an instance, least under the data type's ordering. -/
theorem merge_min_is_least (s : PropSpec) (hs : s ∈ specs) (hm : s.merge = .min)
    (hne : ∃ e ∈ es, e.objects s.name ≠ []) :
    ∃ m, r.objects s.name = [m] ∧ (∃ e ∈ es, m ∈ e.objects s.name) ∧
      ∀ e ∈ es, ∀ v ∈ e.objects s.name, keyLe s.numeric m v = true := by
  rw [merged_objects specs hn vp es r h s hs]
  unfold mergeProp; simp only [hm]
  have hacc : (versionOrder vp es).flatMap (·.objects s.name) ≠ [] := by
    obtain ⟨e, he, hne⟩ := hne
    intro hnil
    have : ∀ v, v ∉ e.objects s.name := by
      intro v hv
      have : v ∈ (versionOrder vp es).flatMap (·.objects s.name) :=
        List.mem_flatMap.mpr ⟨e, (mem_versionOrder vp es e).mpr he, hv⟩
      rw [hnil] at this; cases this
    exact hne (List.eq_nil_iff_forall_not_mem.mpr this)
  obtain ⟨m, hmin⟩ := pyMin_isSome (keyLe s.numeric) _ hacc
  have sp := pyMin_spec _ (keyLe_preorder s.numeric) _ m hmin
  refine ⟨m, by rw [hmin]; rfl, ?_, ?_⟩
  · obtain ⟨e, he, hv⟩ := List.mem_flatMap.mp sp.1
    exact ⟨e, (mem_versionOrder vp es e).mp he, hv⟩
  · intro e he v hv
    exact sp.2 v (List.mem_flatMap.mpr ⟨e, (mem_versionOrder vp es e).mpr he, hv⟩)

include hn h in
/-- max: a single object, taken from an instance, greatest under the data type's ordering. -/
theorem merge_max_is_greatest (s : PropSpec) (hs : s ∈ specs) (hm : s.merge = .max)
    (hne : ∃ e ∈ es, e.objects s.name ≠ []) :
    ∃ m, r.objects s.name = [m] ∧ (∃ e ∈ es, m ∈ e.objects s.name) ∧
      ∀ e ∈ es, ∀ v ∈ e.objects s.name, keyLe s.numeric v m = true := by
  rw [merged_objects specs hn vp es r h s hs]
  unfold mergeProp; simp only [hm]
  have hacc : (versionOrder vp es).flatMap (·.objects s.name) ≠ [] := by
    obtain ⟨e, he, hne⟩ := hne
    intro hnil
    have : ∀ v, v ∉ e.objects s.name := by
      intro v hv
      have : v ∈ (versionOrder vp es).flatMap (·.objects s.name) :=
        List.mem_flatMap.mpr ⟨e, (mem_versionOrder vp es e).mpr he, hv⟩
      rw [hnil] at this; cases this
    exact hne (List.eq_nil_iff_forall_not_mem.mpr this)
  have hsome : ∃ m, pyMax (keyLe s.numeric) ((versionOrder vp es).flatMap (·.objects s.name)) = some m := by
    rw [pyMax_eq_pyMin_flip]; exact pyMin_isSome _ _ hacc
  obtain ⟨m, hmax⟩ := hsome
  have sp := pyMax_spec _ (keyLe_preorder s.numeric) _ m hmax
  refine ⟨m, by rw [hmax]; rfl, ?_, ?_⟩
  · obtain ⟨e, he, hv⟩ := List.mem_flatMap.mp sp.1
    exact ⟨e, (mem_versionOrder vp es e).mp he, hv⟩
  · intro e he v hv
    exact sp.2 v (List.mem_flatMap.mpr ⟨e, (mem_versionOrder vp es e).mpr he, hv⟩)

include hn h in
/-- replace: the objects of an instance whose version is the highest. -/
theorem merge_replace_highest_version (v : String) (hvp : vp = some v)
    (s : PropSpec) (hs : s ∈ specs) (hm : s.merge = .replace) :
    ∃ e ∈ es, r.objects s.name = e.objects s.name ∧ ∀ e' ∈ es, versionInt v e' ≤ versionInt v e := by
  subst hvp
  rw [merged_objects specs hn _ es r h s hs]
  unfold mergeProp; simp only [hm]
  obtain ⟨first, rest, hv, _⟩ := merge_ok_shape specs _ es r h
  cases hl : (versionOrder (some v) es).getLast? with
  | none =>
    rw [hv] at hl
    simp [List.getLast?_cons] at hl
  | some e =>
    refine ⟨e, (mem_versionOrder _ es e).mp (List.mem_of_getLast? hl), rfl, ?_⟩
    intro e' he'
    exact getLast_max _ _ (versionOrder_sorted v es) e hl e' ((mem_versionOrder _ es e').mpr he')

include hn h in
/-- set: the first non-empty object set in version order. -/
theorem merge_set_first_nonempty (s : PropSpec) (hs : s ∈ specs) (hm : s.merge = .set) :
    (r.objects s.name = [] ∧ ∀ e ∈ es, e.objects s.name = []) ∨
    (∃ pre e post, versionOrder vp es = pre ++ e :: post ∧ (∀ x ∈ pre, x.objects s.name = []) ∧
      e.objects s.name ≠ [] ∧ r.objects s.name = e.objects s.name) := by
  rw [merged_objects specs hn vp es r h s hs]
  unfold mergeProp; simp only [hm]
  rcases firstNonEmpty_spec s.name (versionOrder vp es) with ⟨h1, h2⟩ | h'
  · left; exact ⟨h1, fun e he => h2 e ((mem_versionOrder vp es e).mpr he)⟩
  · right; exact h'

include hn h in
/-- any: the object set of one of the instances. -/
theorem merge_any_is_some_instance (s : PropSpec) (hs : s ∈ specs) (hm : s.merge = .any) :
    ∃ e ∈ es, r.objects s.name = e.objects s.name := by
  rw [merged_objects specs hn vp es r h s hs]
  unfold mergeProp; simp only [hm]
  rcases firstNonEmpty_spec s.name (versionOrder vp es) with ⟨h1, h2⟩ | ⟨pre, e, post, h1, _, _, h4⟩
  · obtain ⟨first, rest, hv, _⟩ := merge_ok_shape specs vp es r h
    have hf : first ∈ versionOrder vp es := by rw [hv]; simp
    exact ⟨first, (mem_versionOrder vp es first).mp hf, by rw [h1, h2 first hf]⟩
  · exact ⟨e, (mem_versionOrder vp es e).mp (by rw [h1]; simp), h4⟩

include h in
/-- The parents of the merged event are the union of all parents. -/
theorem merge_parents_union (x : String) : x ∈ r.parents ↔ ∃ e ∈ es, x ∈ e.parents := by
  obtain ⟨first, rest, _, hr⟩ := merge_ok_shape specs vp es r h
  subst hr
  simp only
  rw [mem_canonS]
  simp only [List.mem_flatMap, mem_versionOrder]

theorem mergeProp_subset (s : PropSpec) (l : List Event) (v : String) (hv : v ∈ mergeProp s l) :
    ∃ e ∈ l, v ∈ e.objects s.name := by
  unfold mergeProp at hv
  simp only at hv
  cases hm : s.merge <;> simp only [hm] at hv
  · -- match
    rcases firstNonEmpty_spec s.name l with ⟨h1, _⟩ | ⟨pre, e, post, h1, _, _, h4⟩
    · rw [h1] at hv; cases hv
    · rw [h4] at hv; exact ⟨e, by rw [h1]; simp, hv⟩
  · rcases firstNonEmpty_spec s.name l with ⟨h1, _⟩ | ⟨pre, e, post, h1, _, _, h4⟩
    · rw [h1] at hv; cases hv
    · rw [h4] at hv; exact ⟨e, by rw [h1]; simp, hv⟩
  · rw [mem_canonS] at hv
    exact List.mem_flatMap.mp hv
  · cases hl : l.getLast? with
    | none => rw [hl] at hv; cases hv
    | some e => rw [hl] at hv; exact ⟨e, List.mem_of_getLast? hl, hv⟩
  · rcases firstNonEmpty_spec s.name l with ⟨h1, _⟩ | ⟨pre, e, post, h1, _, _, h4⟩
    · rw [h1] at hv; cases hv
    · rw [h4] at hv; exact ⟨e, by rw [h1]; simp, hv⟩
  · cases hp : pyMin (keyLe s.numeric) (l.flatMap (·.objects s.name)) with
    | none => rw [hp] at hv; cases hv
    | some m =>
      rw [hp] at hv
      have hvm : v = m := by simpa using hv
      rw [hvm]
      exact List.mem_flatMap.mp (pyMin_spec _ (keyLe_preorder s.numeric) _ m hp).1
  · cases hp : pyMax (keyLe s.numeric) (l.flatMap (·.objects s.name)) with
    | none => rw [hp] at hv; cases hv
    | some m =>
      rw [hp] at hv
      have hvm : v = m := by simpa using hv
      rw [hvm]
      exact List.mem_flatMap.mp (pyMax_spec _ (keyLe_preorder s.numeric) _ m hp).1

include h in
/-- Every object of the merged event is an object of the same property of some instance (so it
is a valid value when the instances are valid), and only declared properties occur. -/
theorem merge_objects_from_instances (p v : String) (hpv : (p, v) ∈ r.pairs) :
    ∃ s ∈ specs, s.name = p ∧ ∃ e ∈ es, v ∈ e.objects p := by
  obtain ⟨first, rest, _, hr⟩ := merge_ok_shape specs vp es r h
  have hr' := hr
  subst hr
  simp only [Event.pairs, List.mem_flatMap, List.mem_map] at hpv
  obtain ⟨pv, ⟨s, hs, rfl⟩, w, hw, he⟩ := hpv
  simp only [Prod.mk.injEq] at he
  obtain ⟨rfl, rfl⟩ := he
  obtain ⟨e, he, hv⟩ := mergeProp_subset s _ w hw
  exact ⟨s, hs, rfl, e, (mem_versionOrder vp es e).mp he, hv⟩

include hn h in
/-- A property that is single-valued in every instance stays single-valued, for every strategy but
`add`; for `add` it does when the instances agree. -/
theorem merge_single_valued (s : PropSpec) (hs : s ∈ specs)
    (hone : ∀ e ∈ es, (e.objects s.name).length ≤ 1)
    (hadd : s.merge = .add → ∀ e ∈ es, ∀ e' ∈ es, e.objects s.name = e'.objects s.name) :
    (r.objects s.name).length ≤ 1 := by
  have hmo := merged_objects specs hn vp es r h s hs
  cases hm : s.merge with
  | add =>
    obtain ⟨first, rest, hv, _⟩ := merge_ok_shape specs vp es r h
    have hf : first ∈ es := (mem_versionOrder vp es first).mp (by rw [hv]; simp)
    have : r.objects s.name = first.objects s.name := by
      rw [← objects_canon first, hmo]
      unfold mergeProp; simp only [hm]
      apply (canonS_eq_iff _ _).mpr
      intro v
      simp only [List.mem_flatMap, mem_versionOrder]
      constructor
      · rintro ⟨e, he, hv⟩; rw [hadd hm first hf e he]; exact hv
      · intro hv; exact ⟨first, hf, hv⟩
    rw [this]; exact hone first hf
  | min =>
    rw [hmo]; unfold mergeProp; simp only [hm]
    cases pyMin (keyLe s.numeric) _ <;> simp
  | max =>
    rw [hmo]; unfold mergeProp; simp only [hm]
    cases pyMax (keyLe s.numeric) _ <;> simp
  | replace =>
    rw [hmo]; unfold mergeProp; simp only [hm]
    cases hl : (versionOrder vp es).getLast? with
    | none => simp
    | some e => exact hone e ((mem_versionOrder vp es e).mp (List.mem_of_getLast? hl))
  | set | any | match_ =>
    rw [hmo]; unfold mergeProp; simp only [hm]
    rcases firstNonEmpty_spec s.name (versionOrder vp es) with ⟨h1, _⟩ | ⟨pre, e, post, h1, _, _, h4⟩
    · rw [h1]; simp
    · rw [h4]; exact hone e ((mem_versionOrder vp es e).mp (by rw [h1]; simp))

include hn h in
/-- A property present in every instance is present in the merged event. -/
theorem merge_mandatory (s : PropSpec) (hs : s ∈ specs) (hall : ∀ e ∈ es, e.objects s.name ≠ []) :
    r.objects s.name ≠ [] := by
  rw [merged_objects specs hn vp es r h s hs]
  obtain ⟨first, rest, hv, _⟩ := merge_ok_shape specs vp es r h
  have hf : first ∈ versionOrder vp es := by rw [hv]; simp
  have hfe := hall first ((mem_versionOrder vp es first).mp hf)
  have hacc : (versionOrder vp es).flatMap (·.objects s.name) ≠ [] := by
    intro hnil
    apply hfe
    apply List.eq_nil_iff_forall_not_mem.mpr
    intro v hv'
    have : v ∈ (versionOrder vp es).flatMap (·.objects s.name) := List.mem_flatMap.mpr ⟨first, hf, hv'⟩
    rw [hnil] at this; cases this
  unfold mergeProp
  cases hm : s.merge <;> simp only
  · rcases firstNonEmpty_spec s.name (versionOrder vp es) with ⟨_, h2⟩ | ⟨pre, e, post, _, _, h3, h4⟩
    · exact absurd (h2 first hf) hfe
    · rw [h4]; exact h3
  · rcases firstNonEmpty_spec s.name (versionOrder vp es) with ⟨_, h2⟩ | ⟨pre, e, post, _, _, h3, h4⟩
    · exact absurd (h2 first hf) hfe
    · rw [h4]; exact h3
  · intro hc; exact hacc (canonS_eq_nil.mp hc)
  · cases hl : (versionOrder vp es).getLast? with
    | none => rw [hv] at hl; simp [List.getLast?_cons] at hl
    | some e => exact hall e ((mem_versionOrder vp es e).mp (List.mem_of_getLast? hl))
  · rcases firstNonEmpty_spec s.name (versionOrder vp es) with ⟨_, h2⟩ | ⟨pre, e, post, _, _, h3, h4⟩
    · exact absurd (h2 first hf) hfe
    · rw [h4]; exact h3
  · obtain ⟨m, hmin⟩ := pyMin_isSome (keyLe s.numeric) _ hacc
    rw [hmin]; simp
  · have : ∃ m, pyMax (keyLe s.numeric) ((versionOrder vp es).flatMap (·.objects s.name)) = some m := by
      rw [pyMax_eq_pyMin_flip]; exact pyMin_isSome _ _ hacc
    obtain ⟨m, hmax⟩ := this
    rw [hmax]; simp

omit h in
/-- A merge conflict is reported exactly when two instances share an event version and differ in
the objects of some property; without a version property never. -/
theorem conflict_iff :
    mergeEvents specs vp es = .error .conflict ↔
      ∃ v, vp = some v ∧ ∃ a ∈ es, ∃ b ∈ es, versionInt v a = versionInt v b ∧
        ∃ s ∈ specs, a.objects s.name ≠ b.objects s.name := by
  unfold mergeEvents conflictIn
  simp only
  cases vp with
  | none =>
    simp only [Bool.false_eq_true, if_false]
    constructor
    · intro h'
      split at h' <;> cases h'
    · rintro ⟨v, hv, _⟩; cases hv
  | some v =>
    simp only
    have hmem : ∀ e, e ∈ versionOrder (some v) es ↔ e ∈ es := fun e => mem_versionOrder _ es e
    have hc : hasConflict specs v (versionOrder (some v) es) = true ↔
        ∃ a ∈ es, ∃ b ∈ es, versionInt v a = versionInt v b ∧ ∃ s ∈ specs, a.objects s.name ≠ b.objects s.name := by
      unfold hasConflict conflictPair
      simp only [List.any_eq_true, Bool.and_eq_true, beq_iff_eq, bne_iff_ne, ne_eq, hmem]
    constructor
    · intro h'
      split at h'
      · rename_i hcf; exact ⟨v, rfl, hc.mp hcf⟩
      · split at h' <;> cases h'
    · rintro ⟨v', hv', hex⟩
      cases hv'
      rw [if_pos (hc.mpr hex)]

/-! ### Non-vacuity: a concrete colliding group that satisfies the hypotheses -/

def exSpecs : List PropSpec :=
  [⟨"h", .match_, false⟩, ⟨"v", .max, true⟩, ⟨"r", .replace, false⟩, ⟨"a", .add, false⟩]
def exE1 : Event := { type := "t", source := "/a/", props := [("h", ["x", "y"]), ("v", ["1"]), ("r", ["old"]), ("a", ["p"])] }
def exE2 : Event := { type := "t", source := "/a/", props := [("h", ["y", "x"]), ("v", ["10"]), ("r", ["new"]), ("a", ["q"])], parents := ["0a"] }

example : (exSpecs.map (·.name)).Nodup := by decide
example : ∃ r, mergeEvents exSpecs (some "v") [exE2, exE1] = .ok r ∧
    r.objects "h" = ["x", "y"] ∧ r.objects "v" = ["10"] ∧ r.objects "r" = ["new"] ∧
    r.objects "a" = ["p", "q"] ∧ r.parents = ["0a"] := by
  refine ⟨_, rfl, ?_⟩
  decide +kernel
example : (match mergeEvents exSpecs (some "v")
      [exE1, { exE1 with props := [("h", ["x", "y"]), ("v", ["1"]), ("r", ["other"])] }] with
    | .error .conflict => true
    | _ => false) = true := by decide +kernel

/-! ### event types that gain properties -/
theorem firstNonEmpty_unused (p : String) : ∀ (es : List Event), (∀ e ∈ es, e.objects p = []) → firstNonEmpty p es = []
  | [], _ => rfl
  | e :: es, h => by
    have he : e.objects p = [] := h e (by simp)
    simp only [firstNonEmpty, he, List.isEmpty_nil, if_true]
    exact firstNonEmpty_unused p es (fun x hx => h x (by simp [hx]))

/-- a property none of the events has objects for merges to nothing, whatever its strategy -/
theorem mergeProp_unused (s : PropSpec) (es : List Event) (h : ∀ e ∈ es, e.objects s.name = []) : mergeProp s es = [] := by
  have hacc : es.flatMap (·.objects s.name) = [] := by
    rw [List.flatMap_eq_nil_iff]; exact h
  unfold mergeProp
  simp only [hacc]
  cases s.merge with
  | min => rfl
  | max => rfl
  | add => rfl
  | replace =>
    simp only
    cases hl : es.getLast? with
    | none => rfl
    | some e => exact h e (List.mem_of_getLast? hl)
  | set => exact firstNonEmpty_unused _ _ h
  | any => exact firstNonEmpty_unused _ _ h
  | match_ => exact firstNonEmpty_unused _ _ h

theorem objects_absent (e : Event) (p : String) (h : ∀ pv ∈ e.props, pv.1 ≠ p) : e.objects p = [] := by
  unfold Event.objects Event.pairs
  have : (List.filter (fun x => x.1 == p) (e.props.flatMap fun pv => pv.2.map fun v => (pv.1, v))) = [] := by
    rw [List.filter_eq_nil_iff]
    intro x hx
    simp only [List.mem_flatMap, List.mem_map] at hx
    obtain ⟨pv, hpv, v, _, rfl⟩ := hx
    simpa using h pv hpv
  rw [this]; rfl


theorem conflictIn_extension (specs specs' : List PropSpec) (vp : Option String) (es : List Event)
    (hsub : ∀ s ∈ specs, s ∈ specs')
    (hnew : ∀ s' ∈ specs', s' ∈ specs ∨ ∀ e ∈ es, e.objects s'.name = []) :
    conflictIn specs' vp es = conflictIn specs vp es := by
  unfold conflictIn
  cases vp with
  | none => rfl
  | some v =>
    simp only [hasConflict]
    have key : ∀ a ∈ es, ∀ b ∈ es, conflictPair specs' v a b = conflictPair specs v a b := by
      intro a ha b hb
      unfold conflictPair
      congr 1
      rw [Bool.eq_iff_iff]
      simp only [List.any_eq_true]
      constructor
      · rintro ⟨s', hs', hne⟩
        rcases hnew s' hs' with h | h
        · exact ⟨s', h, hne⟩
        · rw [h a ha, h b hb] at hne; simp at hne
      · rintro ⟨s, hs, hne⟩; exact ⟨s, hsub s hs, hne⟩
    rw [Bool.eq_iff_iff]
    simp only [List.any_eq_true]
    constructor
    · rintro ⟨a, ha, b, hb, h⟩; exact ⟨a, ha, b, hb, by rw [← key a ha b hb]; exact h⟩
    · rintro ⟨a, ha, b, hb, h⟩; exact ⟨a, ha, b, hb, by rw [key a ha b hb]; exact h⟩

/-- C10/C04: adding properties that none of the events carries (what an accepted upgrade of the event
type may do) changes neither whether the events merge nor what they merge into -/
theorem merge_spec_extension (specs specs' : List PropSpec) (hn' : (specs'.map (·.name)).Nodup)
    (hsub : ∀ s ∈ specs, s ∈ specs') (vp : Option String) (es : List Event)
    (hnew : ∀ s' ∈ specs', s' ∈ specs ∨ ∀ e ∈ es, e.objects s'.name = []) (hn : (specs.map (·.name)).Nodup) :
    (∀ r, mergeEvents specs vp es = .ok r → ∃ r', mergeEvents specs' vp es = .ok r' ∧
        (∀ p, r'.objects p = r.objects p) ∧ r'.parents = r.parents ∧ r'.type = r.type ∧ r'.source = r.source ∧ r'.atts = r.atts) ∧
    (∀ err, mergeEvents specs vp es = .error err → mergeEvents specs' vp es = .error err) := by
  have hconf := conflictIn_extension specs specs' vp (versionOrder vp es) hsub (by
    intro s' hs'
    rcases hnew s' hs' with h | h
    · exact Or.inl h
    · exact Or.inr (fun e he => h e ((mem_versionOrder vp es e).mp he)))
  constructor
  · intro r hr
    obtain ⟨first, rest, hv, hshape⟩ := merge_ok_shape specs vp es r hr
    have hok' : ∃ r', mergeEvents specs' vp es = .ok r' := by
      unfold mergeEvents at hr ⊢
      simp only at hr ⊢
      rw [hconf]
      cases hc : conflictIn specs vp (versionOrder vp es) with
      | true => rw [hc] at hr; simp only [if_true] at hr; cases hr
      | false =>
        simp only [Bool.false_eq_true, if_false]
        rw [hv]
        exact ⟨_, rfl⟩
    obtain ⟨r', hr'⟩ := hok'
    obtain ⟨first', rest', hv', hshape'⟩ := merge_ok_shape specs' vp es r' hr'
    rw [hv] at hv'
    simp only [List.cons.injEq] at hv'
    obtain ⟨rfl, rfl⟩ := hv'
    refine ⟨r', hr', ?_, by rw [hshape, hshape'], by rw [hshape, hshape'], by rw [hshape, hshape'], by rw [hshape, hshape']⟩
    intro p
    by_cases hp' : ∃ s' ∈ specs', s'.name = p
    · obtain ⟨s', hs', rfl⟩ := hp'
      rw [merged_objects specs' hn' vp es r' hr' s' hs']
      rcases hnew s' hs' with h | h
      · rw [merged_objects specs hn vp es r hr s' h]
      · have hun := mergeProp_unused s' _ (fun e he => h e ((mem_versionOrder vp es e).mp he))
        rw [hun]
        by_cases hin : s' ∈ specs
        · rw [merged_objects specs hn vp es r hr s' hin, hun]
        · symm
          apply objects_absent
          intro pv hpv
          rw [hshape] at hpv
          simp only [List.mem_map] at hpv
          obtain ⟨t, ht, rfl⟩ := hpv
          intro hname
          have : t = s' := nodup_map_inj _ specs' hn' t (hsub t ht) s' hs' hname
          exact hin (this ▸ ht)
    · have hp : ¬ ∃ s ∈ specs, s.name = p := fun ⟨s, hs, hsn⟩ => hp' ⟨s, hsub s hs, hsn⟩
      rw [objects_absent r' p, objects_absent r p]
      · intro pv hpv; rw [hshape] at hpv
        simp only [List.mem_map] at hpv
        obtain ⟨t, ht, rfl⟩ := hpv
        exact fun h => hp ⟨t, ht, h⟩
      · intro pv hpv; rw [hshape'] at hpv
        simp only [List.mem_map] at hpv
        obtain ⟨t, ht, rfl⟩ := hpv
        exact fun h => hp' ⟨t, ht, h⟩
  · intro err herr
    unfold mergeEvents at herr ⊢
    simp only at herr ⊢
    rw [hconf]
    cases hc : conflictIn specs vp (versionOrder vp es) with
    | true => rw [hc] at herr; exact herr
    | false =>
      rw [hc] at herr
      simp only [Bool.false_eq_true, if_false] at herr ⊢
      cases hv : versionOrder vp es with
      | nil => rw [hv] at herr; exact herr
      | cons f r => rw [hv] at herr; cases herr

theorem objects_absent_pairs (e : Event) (p : String) (h : ∀ pv ∈ e.pairs, pv.1 ≠ p) : e.objects p = [] := by
  unfold Event.objects
  have : e.pairs.filter (fun x => x.1 == p) = [] := by
    rw [List.filter_eq_nil_iff]
    intro x hx
    simpa using h x hx
  rw [this]; rfl

end EdxmlProps.C04
