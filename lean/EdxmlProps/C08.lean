/-
C08. Ontology <-> XML round trip is lossless.

Model: `EdxmlModel/Ontology/XmlCodec.lean`: the attribute rules of the `generate_xml` /
`create_from_xml` pairs. For every rule table with unique attribute names, reading back what was
written gives the in-memory record, for every record in normal form; the tables of the SDK's
element classes have unique names.
-/
import EdxmlModel.Ontology.XmlCodec
import EdxmlProps.Lemmas.Numerals
namespace EdxmlProps.C08
open Edxml Edxml.Gate Edxml.Codec

/-- the in-memory record of an element: one entry per attribute of the table -/
def recOf (table : List ASpec) (f : String → Option String) : Rec := table.map fun s => (s.name, f s.name)

theorem lookupR_recOf (table : List ASpec) (f : String → Option String) (n : String) :
    lookupR (recOf table f) n = if n ∈ table.map (·.name) then f n else none := by
  unfold lookupR recOf
  induction table with
  | nil => rfl
  | cons s t ih =>
    simp only [List.map_cons, List.find?_cons, List.mem_cons]
    by_cases h : s.name = n
    · subst h; simp
    · have : (s.name == n) = false := by simpa using h
      simp only [this]
      have h' : ¬ n = s.name := fun e => h e.symm
      simp only [h', false_or]
      exact ih

/-- normal form of one attribute value -/
def ValOk (s : ASpec) (v : Option String) : Prop :=
  match v with
  | some x => canonVal s.kind x = some x ∧
      (match s.rule with
       | .dfltNone d => x ≠ d
       | .falsyReq | .falsyOpt => x ≠ ""
       | _ => True)
  | none => s.rule = .opt ∨ (∃ d, s.rule = .dfltNone d) ∨ s.rule = .falsyOpt

/-- a record in normal form: values rendered canonically, `None` only where the class allows it,
and attributes behind a closed guard at their default -/
def Conform (table : List ASpec) (f : String → Option String) : Prop :=
  ∀ s ∈ table, ValOk s (f s.name) ∧
    (guardOpen (recOf table f) s = false → ∃ d, (s.rule = .always d ∨ s.rule = .dflt d) ∧ f s.name = some d)

/-- what `generate_xml` wrote for an attribute is what a lookup in the element finds -/
theorem written_value_is_read_back (table : List ASpec) (hn : (table.map (·.name)).Nodup) (r : Rec) :
    ∀ s ∈ table, lookupA (encode table r) s.name = written r s := by
  unfold lookupA encode
  induction table with
  | nil => intro s hs; cases hs
  | cons t ts ih =>
    intro s hs
    simp only [List.map_cons, List.nodup_cons, List.mem_map, not_exists, not_and] at hn
    simp only [List.filterMap_cons]
    rcases List.mem_cons.mp hs with rfl | hs'
    · cases hw : written r s with
      | some v => simp [hw, List.find?_cons]
      | none =>
        simp only [hw, Option.map_none]
        have : (ts.filterMap (fun s' => (written r s').map fun v => (s'.name, v))).find? (fun x => x.1 == s.name) = none := by
          rw [List.find?_eq_none]
          intro x hx
          obtain ⟨s', hs', hx'⟩ := List.mem_filterMap.mp hx
          cases hw' : written r s' with
          | none => rw [hw'] at hx'; cases hx'
          | some v =>
            rw [hw'] at hx'; simp only [Option.map_some, Option.some.injEq] at hx'
            subst hx'
            simp only [beq_iff_eq]
            exact fun e => hn.1 s' hs' e
        rw [this]; rfl
    · have hne : t.name ≠ s.name := fun e => hn.1 s hs' e.symm
      have hb : (t.name == s.name) = false := by simpa using hne
      cases hw : written r t with
      | some v =>
        simp only [hw, Option.map_some, List.find?_cons, hb]
        exact ih hn.2 s hs'
      | none =>
        simp only [hw, Option.map_none]
        exact ih hn.2 s hs'

theorem readBack_written (table : List ASpec) (hn : (table.map (·.name)).Nodup) (f : String → Option String)
    (hc : Conform table f) : ∀ s ∈ table,
    readBack (encode table (recOf table f)) s = some (f s.name) := by
  intro s hs
  obtain ⟨hv, hg⟩ := hc s hs
  unfold readBack
  rw [written_value_is_read_back table hn _ s hs]
  have hl : lookupR (recOf table f) s.name = f s.name := by
    rw [lookupR_recOf, if_pos (List.mem_map_of_mem hs)]
  unfold written
  cases hgo : guardOpen (recOf table f) s with
  | false =>
    obtain ⟨d, hr, hf⟩ := hg hgo
    simp only [Bool.not_false, if_true]
    rcases hr with hr | hr <;> rw [hr, hf]
  | true =>
    simp only [Bool.not_true, Bool.false_eq_true, if_false, hl]
    cases hfv : f s.name with
    | none =>
      rw [hfv] at hv
      rcases hv with h | ⟨d, h⟩ | h <;> rw [h]
    | some x =>
      rw [hfv] at hv
      obtain ⟨hcan, hrule⟩ := hv
      cases hr : s.rule with
      | req => simp [hcan]
      | opt => simp [hcan]
      | always d => simp [hcan]
      | dflt d =>
        by_cases hx : x = d
        · subst hx; simp
        · have : (x == d) = false := by simpa using hx
          simp [this, hcan]
      | dfltNone d =>
        rw [hr] at hrule
        have : (x == d) = false := by simpa using hrule
        simp [this, hcan]
      | falsyReq =>
        rw [hr] at hrule
        have : (x == "") = false := by simpa using hrule
        simp [this, hcan]
      | falsyOpt =>
        rw [hr] at hrule
        have : (x == "") = false := by simpa using hrule
        simp [this, hcan]

theorem mapM_some {α β} (g : α → Option β) (h : α → β) : ∀ (l : List α), (∀ a ∈ l, g a = some (h a)) →
    l.mapM g = some (l.map h)
  | [], _ => rfl
  | a :: l, hl => by
    rw [List.mapM_cons, hl a (by simp), mapM_some g h l (fun b hb => hl b (by simp [hb]))]
    rfl

/-- C08: `create_from_xml(generate_xml(x))` is `x`, for every element class whose attribute names
are unique and every record in normal form. -/
theorem decode_encode (table : List ASpec) (hn : (table.map (·.name)).Nodup) (f : String → Option String)
    (hc : Conform table f) : decode table (encode table (recOf table f)) = some (recOf table f) := by
  unfold decode
  rw [mapM_some _ (fun s => (s.name, f s.name)) table]
  · rfl
  · intro s hs
    rw [readBack_written table hn f hc s hs]; rfl

/-- hence serializing, parsing and serializing again gives the same attributes -/
theorem encode_decode_encode (table : List ASpec) (hn : (table.map (·.name)).Nodup) (f : String → Option String)
    (hc : Conform table f) :
    (decode table (encode table (recOf table f))).map (encode table) = some (encode table (recOf table f)) := by
  rw [decode_encode table hn f hc]; rfl

theorem stripPlus_render (n : Nat) : stripPlus (renderNat n) = renderNat n := by
  obtain ⟨c0, r, hr, hd⟩ := render_head n
  rw [hr]
  unfold stripPlus
  split
  · rename_i r' heq
    simp only [List.cons.injEq] at heq
    have := (isDigit_iff c0).mp hd
    rw [heq.1] at this
    have : ('+' : Char).toNat = 43 := rfl
    omega
  · rfl

/-- rendering is canonical: reading a canonical value gives it back -/
theorem canonVal_idem (k : VKind) (s c : String) (h : canonVal k s = some c) : canonVal k c = some c := by
  cases k with
  | str => simp only [canonVal, Option.some.injEq] at h ⊢
  | bool =>
    simp only [canonVal] at h ⊢
    by_cases hb : (s == "true" || s == "false") = true
    · rw [if_pos hb] at h; simp only [Option.some.injEq] at h; subst h; simp only [hb, if_true]
    · rw [if_neg hb] at h; cases h
  | nat =>
    simp only [canonVal] at h
    by_cases hd : allDigits (stripPlus s.toList) = true
    · rw [if_pos hd] at h
      simp only [Option.some.injEq] at h
      subst h
      simp only [canonVal, String.toList_ofList, stripPlus_render, allDigits_render, if_true, natVal_render]
    · rw [if_neg hd] at h; cases h

theorem mapM_some_all {α β} (g : α → Option β) : ∀ (l : List α) (r : List β), l.mapM g = some r →
    ∀ a ∈ l, ∃ b, g a = some b
  | [], _, _, a, ha => by cases ha
  | x :: l, r, h, a, ha => by
    rw [List.mapM_cons] at h
    cases hx : g x with
    | none => rw [hx] at h; cases h
    | some y =>
      rw [hx] at h
      cases hl : l.mapM g with
      | none => rw [hl] at h; cases h
      | some ys =>
        rcases List.mem_cons.mp ha with rfl | hm
        · exact ⟨y, hx⟩
        · exact mapM_some_all g l ys hl a hm

/-- whatever `create_from_xml` accepts is held in canonical form -/
theorem decode_normal (table : List ASpec) (a : Attrs) (r : Rec) (h : decode table a = some r) :
    ∀ s ∈ table, ∀ x, lookupA a s.name = some x →
      ∃ c, canonVal s.kind x = some c ∧ canonVal s.kind c = some c := by
  intro s hs x hx
  obtain ⟨b, hb⟩ := mapM_some_all _ table r h s hs
  cases hrb : readBack a s with
  | none => rw [hrb] at hb; cases hb
  | some v =>
    unfold readBack at hrb
    rw [hx] at hrb
    simp only at hrb
    cases hc : canonVal s.kind x with
    | none => rw [hc] at hrb; cases hrb
    | some c => exact ⟨c, rfl, canonVal_idem _ _ _ hc⟩

/-- the rule tables of the SDK's element classes have unique attribute names -/
theorem tables_have_unique_names :
    (objectTypeTable.map (·.name)).Nodup ∧ (conceptTable.map (·.name)).Nodup ∧ (sourceTable.map (·.name)).Nodup ∧
    (eventTypeTable.map (·.name)).Nodup ∧ (propertyTable.map (·.name)).Nodup ∧ (assocTable.map (·.name)).Nodup ∧
    (attachmentTable.map (·.name)).Nodup ∧ (parentTable.map (·.name)).Nodup ∧
    (∀ t ∈ ["inter", "intra", "other", "name", "description", "container", "original"],
      ((relationTable t).map (·.name)).Nodup) := by
  decide

/-- the fixed point: one parse-serialize cycle of an arbitrary element already gives what every
further cycle gives (checked here on the shapes the schema leaves open) -/
theorem cycle_fixed_point :
    cycle "object-type" [("name", "o"), ("display-name-singular", "a"), ("display-name-plural", "b"), ("description", "d"),
        ("data-type", "number:int"), ("unit-name", "m"), ("unit-symbol", "m"), ("prefix-radix", "010"), ("compress", "false"),
        ("version", "+01")] =
      some [("name", "o"), ("display-name-singular", "a"), ("display-name-plural", "b"), ("description", "d"),
        ("data-type", "number:int"), ("unit-name", "m"), ("unit-symbol", "m"), ("version", "1")] ∧
    cycle "property" [("name", "p"), ("object-type", "o"), ("description", "d"), ("confidence", "07"), ("merge", "any"),
        ("similar", "")] =
      some [("name", "p"), ("object-type", "o"), ("description", "d"), ("optional", "false"), ("multivalued", "false"),
        ("confidence", "7")] ∧
    cycle "property-concept" [("name", "c"), ("confidence", "1"), ("cnp", "128"), ("attr-extension", "")] =
      some [("name", "c"), ("confidence", "1"), ("cnp", "128")] := by
  decide +kernel

end EdxmlProps.C08
