/-
C08. Ontology <-> XML round trip is lossless.

Model: `EdxmlModel/Ontology/XmlCodec.lean`: the attribute rules of the `generate_xml` /
`create_from_xml` pairs. For every rule table with unique attribute names, reading back what was
written gives the in-memory record, for every record in normal form; the tables of the SDK's
element classes have unique names.
-/
import EdxmlModel.Ontology.XmlCodec
import EdxmlModel.Ontology.XmlTree
import EdxmlProps.Lemmas.Numerals
import EdxmlProps.Lemmas.XmlTree
namespace EdxmlProps.C08
open Edxml Edxml.Gate Edxml.Codec

/-- the in-memory record of an element: one entry per attribute of the table -/
def recOf (table : List ASpec) (f : String → Option String) : Rec := table.map fun s => (s.name, f s.name)

theorem lookupR_recOf (table : List ASpec) (f : String → Option String) (n : String) :
    lookupR (recOf table f) n = if n ∈ table.map (·.name) then f n else none := by
  unfold lookupR recOf
  induction table with
  | nil => rfl
  | cons s t ih =>
    simp only [List.map_cons, List.find?_cons, List.mem_cons]
    by_cases h : s.name = n
    · subst h; simp
    · have : (s.name == n) = false := by simpa using h
      simp only [this]
      have h' : ¬ n = s.name := fun e => h e.symm
      simp only [h', false_or]
      exact ih

/-- normal form of one attribute value -/
def ValOk (s : ASpec) (v : Option String) : Prop :=
  match v with
  | some x => canonVal s.kind x = some x ∧
      (match s.rule with
       | .dfltNone d => x ≠ d
       | .falsyReq | .falsyOpt => x ≠ ""
       | _ => True)
  | none => s.rule = .opt ∨ (∃ d, s.rule = .dfltNone d) ∨ s.rule = .falsyOpt

/-- a record in normal form: values rendered canonically, `None` only where the class allows it,
and attributes behind a closed guard at their default -/
def Conform (table : List ASpec) (f : String → Option String) : Prop :=
  ∀ s ∈ table, ValOk s (f s.name) ∧
    (guardOpen (recOf table f) s = false → ∃ d, (s.rule = .always d ∨ s.rule = .dflt d) ∧ f s.name = some d)

/-- what `generate_xml` wrote for an attribute is what a lookup in the element finds -/
theorem written_value_is_read_back (table : List ASpec) (hn : (table.map (·.name)).Nodup) (r : Rec) :
    ∀ s ∈ table, lookupA (encode table r) s.name = written r s := by
  unfold lookupA encode
  induction table with
  | nil => intro s hs; cases hs
  | cons t ts ih =>
    intro s hs
    simp only [List.map_cons, List.nodup_cons, List.mem_map, not_exists, not_and] at hn
    simp only [List.filterMap_cons]
    rcases List.mem_cons.mp hs with rfl | hs'
    · cases hw : written r s with
      | some v => simp [hw, List.find?_cons]
      | none =>
        simp only [hw, Option.map_none]
        have : (ts.filterMap (fun s' => (written r s').map fun v => (s'.name, v))).find? (fun x => x.1 == s.name) = none := by
          rw [List.find?_eq_none]
          intro x hx
          obtain ⟨s', hs', hx'⟩ := List.mem_filterMap.mp hx
          cases hw' : written r s' with
          | none => rw [hw'] at hx'; cases hx'
          | some v =>
            rw [hw'] at hx'; simp only [Option.map_some, Option.some.injEq] at hx'
            subst hx'
            simp only [beq_iff_eq]
            exact fun e => hn.1 s' hs' e
        rw [this]; rfl
    · have hne : t.name ≠ s.name := fun e => hn.1 s hs' e.symm
      have hb : (t.name == s.name) = false := by simpa using hne
      cases hw : written r t with
      | some v =>
        simp only [hw, Option.map_some, List.find?_cons, hb]
        exact ih hn.2 s hs'
      | none =>
        simp only [hw, Option.map_none]
        exact ih hn.2 s hs'

theorem readBack_written (table : List ASpec) (hn : (table.map (·.name)).Nodup) (f : String → Option String)
    (hc : Conform table f) : ∀ s ∈ table,
    readBack (encode table (recOf table f)) s = some (f s.name) := by
  intro s hs
  obtain ⟨hv, hg⟩ := hc s hs
  unfold readBack
  rw [written_value_is_read_back table hn _ s hs]
  have hl : lookupR (recOf table f) s.name = f s.name := by
    rw [lookupR_recOf, if_pos (List.mem_map_of_mem hs)]
  unfold written
  cases hgo : guardOpen (recOf table f) s with
  | false =>
    obtain ⟨d, hr, hf⟩ := hg hgo
    simp only [Bool.not_false, if_true]
    rcases hr with hr | hr <;> rw [hr, hf]
  | true =>
    simp only [Bool.not_true, Bool.false_eq_true, if_false, hl]
    cases hfv : f s.name with
    | none =>
      rw [hfv] at hv
      rcases hv with h | ⟨d, h⟩ | h <;> rw [h]
    | some x =>
      rw [hfv] at hv
      obtain ⟨hcan, hrule⟩ := hv
      cases hr : s.rule with
      | req => simp [hcan]
      | opt => simp [hcan]
      | always d => simp [hcan]
      | dflt d =>
        by_cases hx : x = d
        · subst hx; simp
        · have : (x == d) = false := by simpa using hx
          simp [this, hcan]
      | dfltNone d =>
        rw [hr] at hrule
        have : (x == d) = false := by simpa using hrule
        simp [this, hcan]
      | falsyReq =>
        rw [hr] at hrule
        have : (x == "") = false := by simpa using hrule
        simp [this, hcan]
      | falsyOpt =>
        rw [hr] at hrule
        have : (x == "") = false := by simpa using hrule
        simp [this, hcan]
      | noneDflt d => simp [hcan]

theorem mapM_some {α β} (g : α → Option β) (h : α → β) : ∀ (l : List α), (∀ a ∈ l, g a = some (h a)) →
    l.mapM g = some (l.map h)
  | [], _ => rfl
  | a :: l, hl => by
    rw [List.mapM_cons, hl a (by simp), mapM_some g h l (fun b hb => hl b (by simp [hb]))]
    rfl

/-- C08: `create_from_xml(generate_xml(x))` is `x`, for every element class whose attribute names
are unique and every record in normal form. -/
theorem decode_encode (table : List ASpec) (hn : (table.map (·.name)).Nodup) (f : String → Option String)
    (hc : Conform table f) : decode table (encode table (recOf table f)) = some (recOf table f) := by
  unfold decode
  rw [mapM_some _ (fun s => (s.name, f s.name)) table]
  · rfl
  · intro s hs
    rw [readBack_written table hn f hc s hs]; rfl

/-- hence serializing, parsing and serializing again gives the same attributes -/
theorem encode_decode_encode (table : List ASpec) (hn : (table.map (·.name)).Nodup) (f : String → Option String)
    (hc : Conform table f) :
    (decode table (encode table (recOf table f))).map (encode table) = some (encode table (recOf table f)) := by
  rw [decode_encode table hn f hc]; rfl

theorem stripPlus_render (n : Nat) : stripPlus (renderNat n) = renderNat n := by
  obtain ⟨c0, r, hr, hd⟩ := render_head n
  rw [hr]
  unfold stripPlus
  split
  · rename_i r' heq
    simp only [List.cons.injEq] at heq
    have := (isDigit_iff c0).mp hd
    rw [heq.1] at this
    have : ('+' : Char).toNat = 43 := rfl
    omega
  · rfl

/-- rendering is canonical: reading a canonical value gives it back -/
theorem canonVal_idem (k : VKind) (s c : String) (h : canonVal k s = some c) : canonVal k c = some c := by
  cases k with
  | str => simp only [canonVal, Option.some.injEq] at h ⊢
  | bool =>
    simp only [canonVal] at h ⊢
    by_cases hb : (s == "true" || s == "false") = true
    · rw [if_pos hb] at h; simp only [Option.some.injEq] at h; subst h; simp only [hb, if_true]
    · rw [if_neg hb] at h; cases h
  | nat =>
    simp only [canonVal] at h
    by_cases hd : allDigits (stripPlus s.toList) = true
    · rw [if_pos hd] at h
      simp only [Option.some.injEq] at h
      subst h
      simp only [canonVal, String.toList_ofList, stripPlus_render, allDigits_render, if_true, natVal_render]
    · rw [if_neg hd] at h; cases h

theorem mapM_some_all {α β} (g : α → Option β) : ∀ (l : List α) (r : List β), l.mapM g = some r →
    ∀ a ∈ l, ∃ b, g a = some b
  | [], _, _, a, ha => by cases ha
  | x :: l, r, h, a, ha => by
    rw [List.mapM_cons] at h
    cases hx : g x with
    | none => rw [hx] at h; cases h
    | some y =>
      rw [hx] at h
      cases hl : l.mapM g with
      | none => rw [hl] at h; cases h
      | some ys =>
        rcases List.mem_cons.mp ha with rfl | hm
        · exact ⟨y, hx⟩
        · exact mapM_some_all g l ys hl a hm

/-- whatever `create_from_xml` accepts is held in canonical form -/
theorem decode_normal (table : List ASpec) (a : Attrs) (r : Rec) (h : decode table a = some r) :
    ∀ s ∈ table, ∀ x, lookupA a s.name = some x →
      ∃ c, canonVal s.kind x = some c ∧ canonVal s.kind c = some c := by
  intro s hs x hx
  obtain ⟨b, hb⟩ := mapM_some_all _ table r h s hs
  cases hrb : readBack a s with
  | none => rw [hrb] at hb; cases hb
  | some v =>
    unfold readBack at hrb
    rw [hx] at hrb
    simp only at hrb
    cases hc : canonVal s.kind x with
    | none => rw [hc] at hrb; cases hrb
    | some c => exact ⟨c, rfl, canonVal_idem _ _ _ hc⟩


/-! ### the second cycle is the identity, for every element the parser accepts -/

/-- what `create_from_xml` holds for each attribute after reading `a` -/
theorem decode_lookup : ∀ (table : List ASpec), (table.map (·.name)).Nodup → ∀ (a : Attrs) (r : Rec),
    decode table a = some r → ∀ s ∈ table, readBack a s = some (lookupR r s.name)
  | [], _, _, _, _, s, hs => by cases hs
  | t :: ts, hn, a, r, h, s, hs => by
    simp only [List.map_cons, List.nodup_cons, List.mem_map, not_exists, not_and] at hn
    unfold decode at h
    rw [List.mapM_cons] at h
    cases ht : readBack a t with
    | none => rw [ht] at h; cases h
    | some v =>
      rw [ht] at h
      cases hrest : ts.mapM (fun s => (readBack a s).map fun v => (s.name, v)) with
      | none => rw [hrest] at h; cases h
      | some rs =>
        rw [hrest] at h
        have h' : r = (t.name, v) :: rs := by
          have : some ((t.name, v) :: rs) = some r := h
          exact (Option.some.inj this).symm
        subst h'
        rcases List.mem_cons.mp hs with rfl | hs'
        · rw [ht]; unfold lookupR; simp
        · have hne : (t.name == s.name) = false := by
            have := hn.1 s hs'
            simpa using fun e => this e.symm
          have ih := decode_lookup ts hn.2 a rs (by unfold decode; exact hrest) s hs'
          rw [ih]
          unfold lookupR
          simp [List.find?_cons, hne]

theorem decode_of_all_some (table : List ASpec) (a : Attrs)
    (h : ∀ s ∈ table, ∃ v, readBack a s = some v) : ∃ r, decode table a = some r := by
  unfold decode
  induction table with
  | nil => exact ⟨[], rfl⟩
  | cons t ts ih =>
    obtain ⟨v, hv⟩ := h t (by simp)
    obtain ⟨rs, hrs⟩ := ih (fun s hs => h s (by simp [hs]))
    refine ⟨(t.name, v) :: rs, ?_⟩
    rw [List.mapM_cons, hv, hrs]
    rfl

/-- what the parser requires of the element beyond the attribute kinds: the attributes that
`generate_xml` leaves out when they are empty, although a parser insists on them, are not empty
(the EDXML schema demands a name, display names, a description, a summary, a story and a version of
every event type) -/
def NonEmptyRequired (table : List ASpec) (a : Attrs) : Prop :=
  ∀ s ∈ table, s.rule = .falsyReq → ∀ x, lookupA a s.name = some x → canonVal s.kind x ≠ some ""

/-- attributes that are written only together with another one are of the "always written" kind and
depend on an unguarded plain string attribute of the same table whose default is the empty string
(the attribute extension of a concept association) -/
def GuardsOk (table : List ASpec) : Prop :=
  ∀ s ∈ table, ∀ g, s.onlyIf = some g → (∃ d, s.rule = .always d) ∧
    ∃ sg ∈ table, sg.name = g ∧ sg.onlyIf = none ∧ sg.rule = .dflt "" ∧ sg.kind = .str

/-- defaults are values of their kind, canonically written -/
def DefaultsCanon (table : List ASpec) : Prop :=
  ∀ s ∈ table, ∀ d, (s.rule = .dflt d ∨ s.rule = .always d ∨ s.rule = .noneDflt d) → canonVal s.kind d = some d

theorem held_canonical (table : List ASpec) (hn : (table.map (·.name)).Nodup) (hd : DefaultsCanon table)
    (a : Attrs) (r : Rec) (h : decode table a = some r) :
    ∀ s ∈ table, ∀ x, lookupR r s.name = some x → canonVal s.kind x = some x := by
  intro s hs x hx
  have h1 := decode_lookup table hn a r h s hs
  rw [hx] at h1
  unfold readBack at h1
  cases hla : lookupA a s.name with
  | some y =>
    rw [hla] at h1
    simp only at h1
    cases hcv : canonVal s.kind y with
    | none => rw [hcv] at h1; cases h1
    | some c =>
      rw [hcv] at h1
      simp only [Option.map_some, Option.some.injEq] at h1
      subst h1
      exact canonVal_idem _ _ _ hcv
  | none =>
    rw [hla] at h1
    simp only at h1
    cases hr : s.rule with
    | req => rw [hr] at h1; cases h1
    | falsyReq => rw [hr] at h1; cases h1
    | opt => rw [hr] at h1; simp at h1
    | dfltNone d => rw [hr] at h1; simp at h1
    | falsyOpt => rw [hr] at h1; simp at h1
    | noneDflt d => rw [hr] at h1; simp at h1
    | dflt d =>
      rw [hr] at h1
      simp only [Option.some.injEq] at h1
      subst h1
      exact hd s hs _ (Or.inl hr)
    | always d =>
      rw [hr] at h1
      simp only [Option.some.injEq] at h1
      subst h1
      exact hd s hs _ (Or.inr (Or.inl hr))


/-- what is held for an attribute whose class always has a value for it -/
theorem held_some (table : List ASpec) (hn : (table.map (·.name)).Nodup) (a : Attrs) (r : Rec)
    (h : decode table a = some r) (s : ASpec) (hs : s ∈ table)
    (hr : s.rule = .req ∨ s.rule = .falsyReq ∨ (∃ d, s.rule = .dflt d) ∨ (∃ d, s.rule = .always d)) :
    ∃ x, lookupR r s.name = some x := by
  have h1 := decode_lookup table hn a r h s hs
  unfold readBack at h1
  cases hla : lookupA a s.name with
  | some y =>
    rw [hla] at h1
    simp only at h1
    cases hcv : canonVal s.kind y with
    | none => rw [hcv] at h1; cases h1
    | some c =>
      rw [hcv] at h1
      simp only [Option.map_some, Option.some.injEq] at h1
      exact ⟨c, h1.symm⟩
  | none =>
    rw [hla] at h1
    simp only at h1
    rcases hr with hr | hr | ⟨d, hr⟩ | ⟨d, hr⟩ <;> rw [hr] at h1 <;> simp at h1
    · exact ⟨d, h1.symm⟩
    · exact ⟨d, h1.symm⟩

/-- reading back one attribute of what was serialized: it succeeds, a record that holds the value
read and agrees on the guard writes the attribute as before, and an unguarded attribute with a
default is read as it was held -/
theorem reread (table : List ASpec) (hn : (table.map (·.name)).Nodup) (hg : GuardsOk table) (hd : DefaultsCanon table)
    (a : Attrs) (hne : NonEmptyRequired table a) (r : Rec) (h : decode table a = some r) (s : ASpec) (hs : s ∈ table) :
    ∃ v', readBack (encode table r) s = some v' ∧
      (∀ r' : Rec, lookupR r' s.name = v' → guardOpen r' s = guardOpen r s → written r' s = written r s) ∧
      ((∃ d, s.rule = .dflt d) → guardOpen r s = true → v' = lookupR r s.name) := by
  have hw := written_value_is_read_back table hn r s hs
  have hcan := held_canonical table hn hd a r h s hs
  unfold readBack
  rw [hw]
  cases hgo : guardOpen r s with
  | false =>
    -- a closed guard: the attribute is of the always-written kind and is left out
    have hoi : ∃ g, s.onlyIf = some g := by
      unfold guardOpen at hgo
      cases ho : s.onlyIf with
      | none => rw [ho] at hgo; cases hgo
      | some g => exact ⟨g, rfl⟩
    obtain ⟨g, hgq⟩ := hoi
    obtain ⟨⟨d, hrd⟩, _⟩ := hg s hs g hgq
    have hwn : written r s = none := by unfold written; simp [hgo]
    rw [hwn]
    refine ⟨some d, by simp [hrd], ?_, ?_⟩
    · intro r' _ hgo'
      unfold written
      rw [hgo']
      simp
    · rintro ⟨d', hd'⟩ _
      rw [hrd] at hd'
      cases hd'
  | true =>
    cases hr : s.rule with
    | req =>
      obtain ⟨x, hx⟩ := held_some table hn a r h s hs (Or.inl hr)
      have hwx : written r s = some x := by unfold written; simp [hgo, hr, hx]
      rw [hwx]
      refine ⟨some x, by simp [hcan x hx], ?_, ?_⟩
      · intro r' hv' hgo'
        unfold written
        rw [hgo']
        simp_all
      · rintro ⟨d', hd'⟩ _; cases hd'
    | opt =>
      cases hv : lookupR r s.name with
      | none =>
        have hwx : written r s = none := by unfold written; simp [hgo, hr, hv]
        rw [hwx]
        refine ⟨none, by simp, ?_, ?_⟩
        · intro r' hv' hgo'
          unfold written
          rw [hgo']
          simp_all
        · rintro ⟨d', hd'⟩ _; cases hd'
      | some x =>
        have hwx : written r s = some x := by unfold written; simp [hgo, hr, hv]
        rw [hwx]
        refine ⟨some x, by simp [hcan x hv], ?_, ?_⟩
        · intro r' hv' hgo'
          unfold written
          rw [hgo']
          simp_all
        · rintro ⟨d', hd'⟩ _; cases hd'
    | dflt d =>
      obtain ⟨x, hx⟩ := held_some table hn a r h s hs (Or.inr (Or.inr (Or.inl ⟨d, hr⟩)))
      by_cases hxd : x = d
      · subst hxd
        have hwx : written r s = none := by unfold written; simp [hgo, hr, hx]
        rw [hwx]
        refine ⟨some x, by simp, ?_, ?_⟩
        · intro r' hv' hgo'
          unfold written
          rw [hgo']
          simp_all
        · intro _ _; exact hx.symm
      · have hb : (x == d) = false := by simpa using hxd
        have hwx : written r s = some x := by unfold written; simp [hgo, hr, hx, hb]
        rw [hwx]
        refine ⟨some x, by simp [hcan x hx], ?_, ?_⟩
        · intro r' hv' hgo'
          unfold written
          rw [hgo']
          simp_all
        · intro _ _; exact hx.symm
    | always d =>
      obtain ⟨x, hx⟩ := held_some table hn a r h s hs (Or.inr (Or.inr (Or.inr ⟨d, hr⟩)))
      have hwx : written r s = some x := by unfold written; simp [hgo, hr, hx]
      rw [hwx]
      refine ⟨some x, by simp [hcan x hx], ?_, ?_⟩
      · intro r' hv' hgo'
        unfold written
        rw [hgo']
        simp_all
      · rintro ⟨d', hd'⟩ _; cases hd'
    | noneDflt d =>
      have hdc : canonVal s.kind d = some d := hd s hs d (Or.inr (Or.inr hr))
      cases hv : lookupR r s.name with
      | none =>
        have hwx : written r s = some d := by unfold written; simp [hgo, hr, hv]
        rw [hwx]
        refine ⟨some d, by simp [hdc], ?_, ?_⟩
        · intro r' hv' hgo'
          unfold written
          rw [hgo']
          simp_all
        · rintro ⟨d', hd'⟩ _; cases hd'
      | some x =>
        have hwx : written r s = some x := by unfold written; simp [hgo, hr, hv]
        rw [hwx]
        refine ⟨some x, by simp [hcan x hv], ?_, ?_⟩
        · intro r' hv' hgo'
          unfold written
          rw [hgo']
          simp_all
        · rintro ⟨d', hd'⟩ _; cases hd'
    | dfltNone d =>
      cases hv : lookupR r s.name with
      | none =>
        have hwx : written r s = none := by unfold written; simp [hgo, hr, hv]
        rw [hwx]
        refine ⟨none, by simp, ?_, ?_⟩
        · intro r' hv' hgo'
          unfold written
          rw [hgo']
          simp_all
        · rintro ⟨d', hd'⟩ _; cases hd'
      | some x =>
        by_cases hxd : x = d
        · subst hxd
          have hwx : written r s = none := by unfold written; simp [hgo, hr, hv]
          rw [hwx]
          refine ⟨none, by simp, ?_, ?_⟩
          · intro r' hv' hgo'
            unfold written
            rw [hgo']
            simp_all
          · rintro ⟨d', hd'⟩ _; cases hd'
        · have hb : (x == d) = false := by simpa using hxd
          have hwx : written r s = some x := by unfold written; simp [hgo, hr, hv, hb]
          rw [hwx]
          refine ⟨some x, by simp [hcan x hv], ?_, ?_⟩
          · intro r' hv' hgo'
            unfold written
            rw [hgo']
            simp_all
          · rintro ⟨d', hd'⟩ _; cases hd'
    | falsyReq =>
      obtain ⟨x, hx⟩ := held_some table hn a r h s hs (Or.inr (Or.inl hr))
      -- the value held came from the element (a missing attribute is an error) and is not empty
      have hxne : x ≠ "" := by
        intro hxe
        have h1 := decode_lookup table hn a r h s hs
        rw [hx] at h1
        unfold readBack at h1
        cases hla : lookupA a s.name with
        | none => rw [hla, hr] at h1; cases h1
        | some y =>
          rw [hla] at h1
          simp only at h1
          cases hcv : canonVal s.kind y with
          | none => rw [hcv] at h1; cases h1
          | some c =>
            rw [hcv] at h1
            simp only [Option.map_some, Option.some.injEq] at h1
            subst h1
            exact hne s hs hr y hla (by rw [hcv, hxe])
      have hb : (x == "") = false := by simpa using hxne
      have hwx : written r s = some x := by unfold written; simp [hgo, hr, hx, hb]
      rw [hwx]
      refine ⟨some x, by simp [hcan x hx], ?_, ?_⟩
      · intro r' hv' hgo'
        unfold written
        rw [hgo']
        simp_all
      · rintro ⟨d', hd'⟩ _; cases hd'
    | falsyOpt =>
      cases hv : lookupR r s.name with
      | none =>
        have hwx : written r s = none := by unfold written; simp [hgo, hr, hv]
        rw [hwx]
        refine ⟨none, by simp, ?_, ?_⟩
        · intro r' hv' hgo'
          unfold written
          rw [hgo']
          simp_all
        · rintro ⟨d', hd'⟩ _; cases hd'
      | some x =>
        by_cases hxe : x = ""
        · subst hxe
          have hwx : written r s = none := by unfold written; simp [hgo, hr, hv]
          rw [hwx]
          refine ⟨none, by simp, ?_, ?_⟩
          · intro r' hv' hgo'
            unfold written
            rw [hgo']
            simp_all
          · rintro ⟨d', hd'⟩ _; cases hd'
        · have hb : (x == "") = false := by simpa using hxe
          have hwx : written r s = some x := by unfold written; simp [hgo, hr, hv, hb]
          rw [hwx]
          refine ⟨some x, by simp [hcan x hv], ?_, ?_⟩
          · intro r' hv' hgo'
            unfold written
            rw [hgo']
            simp_all
          · rintro ⟨d', hd'⟩ _; cases hd'


/-- **C08, repeating the cycle is byte-identical (attribute level).** For every rule table with
unique names, well-formed guards and canonical defaults, and every element the parser accepts:
parsing what was serialized succeeds and serializes to the very same attributes. -/
theorem cycle_idempotent (table : List ASpec) (hn : (table.map (·.name)).Nodup) (hg : GuardsOk table)
    (hd : DefaultsCanon table) (a : Attrs) (hne : NonEmptyRequired table a) (r : Rec) (h : decode table a = some r) :
    ∃ r', decode table (encode table r) = some r' ∧ encode table r' = encode table r := by
  have hre := reread table hn hg hd a hne r h
  obtain ⟨r', hr'⟩ := decode_of_all_some table (encode table r) (fun s hs => by
    obtain ⟨v', hv', _⟩ := hre s hs
    exact ⟨v', hv'⟩)
  refine ⟨r', hr', ?_⟩
  have hlk' := decode_lookup table hn (encode table r) r' hr'
  -- r' holds what was read
  have hval : ∀ s ∈ table, ∀ v', readBack (encode table r) s = some v' → lookupR r' s.name = v' := by
    intro s hs v' hv'
    have := hlk' s hs
    rw [hv'] at this
    exact (Option.some.inj this).symm
  -- the guards are open in r' exactly when they are in r
  have hguard : ∀ s ∈ table, guardOpen r' s = guardOpen r s := by
    intro s hs
    unfold guardOpen
    cases ho : s.onlyIf with
    | none => rfl
    | some g =>
      obtain ⟨_, sg, hsg, hname, hoi, hrule, _⟩ := hg s hs g ho
      obtain ⟨v', hv', _, hC⟩ := hre sg hsg
      have hopen : guardOpen r sg = true := by unfold guardOpen; rw [hoi]
      have h1 := hC ⟨"", hrule⟩ hopen
      have h2 := hval sg hsg v' hv'
      simp only
      rw [← hname, h2, h1]
  have hwr : ∀ s ∈ table, written r' s = written r s := by
    intro s hs
    obtain ⟨v', hv', hB, _⟩ := hre s hs
    exact hB r' (hval s hs v' hv') (hguard s hs)
  unfold encode
  clear hre hr' hlk' hval hguard h hne hn hg hd
  induction table with
  | nil => rfl
  | cons t ts ih =>
    simp only [List.filterMap_cons]
    rw [hwr t (by simp), ih (fun s hs => hwr s (by simp [hs]))]

theorem tables_guards_ok :
    GuardsOk objectTypeTable ∧ GuardsOk conceptTable ∧ GuardsOk sourceTable ∧ GuardsOk eventTypeTable ∧
    GuardsOk propertyTable ∧ GuardsOk assocTable ∧ GuardsOk attachmentTable ∧ GuardsOk parentTable ∧
    ∀ t ∈ ["inter", "intra", "other", "name", "description", "container", "original"], GuardsOk (relationTable t) := by
  have noGuard : ∀ (tb : List ASpec), (tb.all fun s => s.onlyIf.isNone) = true → GuardsOk tb := by
    intro tb h s hs g hg
    have := List.all_eq_true.mp h s hs
    rw [hg] at this
    cases this
  refine ⟨noGuard _ (by decide), noGuard _ (by decide), noGuard _ (by decide), noGuard _ (by decide),
    noGuard _ (by decide), ?_, noGuard _ (by decide), noGuard _ (by decide), ?_⟩
  · intro s hs g hg
    have hext : (⟨"attr-extension", .str, .dflt "", none⟩ : ASpec) ∈ assocTable := by simp [assocTable]
    simp only [assocTable, List.mem_cons, List.mem_nil_iff, or_false] at hs
    rcases hs with rfl | rfl | rfl | rfl | rfl | rfl <;> simp at hg
    · subst hg
      exact ⟨⟨"", rfl⟩, _, hext, rfl, rfl, rfl, rfl⟩
    · subst hg
      exact ⟨⟨"", rfl⟩, _, hext, rfl, rfl, rfl, rfl⟩
  · intro t ht
    apply noGuard
    simp only [List.mem_cons, List.mem_nil_iff, or_false] at ht
    rcases ht with rfl | rfl | rfl | rfl | rfl | rfl | rfl <;> decide

theorem defaultsCanon_of_check (tb : List ASpec)
    (h : (tb.all fun s => match s.rule with
      | .dflt d => canonVal s.kind d == some d
      | .always d => canonVal s.kind d == some d
      | .noneDflt d => canonVal s.kind d == some d
      | _ => true) = true) : DefaultsCanon tb := by
  intro s hs d hr
  have := List.all_eq_true.mp h s hs
  rcases hr with hr | hr | hr <;> rw [hr] at this <;> simpa using this

theorem tables_defaults_canon :
    DefaultsCanon objectTypeTable ∧ DefaultsCanon conceptTable ∧ DefaultsCanon sourceTable ∧ DefaultsCanon eventTypeTable ∧
    DefaultsCanon propertyTable ∧ DefaultsCanon assocTable ∧ DefaultsCanon attachmentTable ∧ DefaultsCanon parentTable ∧
    ∀ t ∈ ["inter", "intra", "other", "name", "description", "container", "original"], DefaultsCanon (relationTable t) := by
  refine ⟨defaultsCanon_of_check _ (by decide), defaultsCanon_of_check _ (by decide), defaultsCanon_of_check _ (by decide),
    defaultsCanon_of_check _ (by decide), defaultsCanon_of_check _ (by decide), defaultsCanon_of_check _ (by decide),
    defaultsCanon_of_check _ (by decide), defaultsCanon_of_check _ (by decide), ?_⟩
  intro t ht
  apply defaultsCanon_of_check
  simp only [List.mem_cons, List.mem_nil_iff, or_false] at ht
  rcases ht with rfl | rfl | rfl | rfl | rfl | rfl | rfl <;> decide +kernel

/-- the rule tables of the SDK's element classes have unique attribute names -/
theorem tables_have_unique_names :
    (objectTypeTable.map (·.name)).Nodup ∧ (conceptTable.map (·.name)).Nodup ∧ (sourceTable.map (·.name)).Nodup ∧
    (eventTypeTable.map (·.name)).Nodup ∧ (propertyTable.map (·.name)).Nodup ∧ (assocTable.map (·.name)).Nodup ∧
    (attachmentTable.map (·.name)).Nodup ∧ (parentTable.map (·.name)).Nodup ∧
    (∀ t ∈ ["inter", "intra", "other", "name", "description", "container", "original"],
      ((relationTable t).map (·.name)).Nodup) := by
  decide


/-- a relation created without a confidence (`None` in memory, the default of `EventType.create_relation`)
is written with the default confidence 10, and reading that back holds 10: the two in-memory forms
stand for one definition (which is why relations are compared by their effective confidence, /repo ccfb93c) -/
theorem relation_confidence_default (t : String) (ht : t ∈ ["inter", "intra", "other"]) (r : Rec)
    (h : lookupR r "confidence" = none) :
    lookupA (encode (relationTable t) r) "confidence" = some "10" ∧
    readBack (encode (relationTable t) r) ⟨"confidence", .nat, .noneDflt "10", none⟩ = some (some "10") := by
  have hn : ((relationTable t).map (·.name)).Nodup :=
    tables_have_unique_names.2.2.2.2.2.2.2.2 t (by
      simp only [List.mem_cons, List.mem_nil_iff, or_false] at ht ⊢
      rcases ht with rfl | rfl | rfl <;> simp)
  have hs : (⟨"confidence", .nat, .noneDflt "10", none⟩ : ASpec) ∈ relationTable t := by
    simp only [List.mem_cons, List.mem_nil_iff, or_false] at ht
    rcases ht with rfl | rfl | rfl <;> simp [relationTable]
  have hw := written_value_is_read_back (relationTable t) hn r _ hs
  have hwr : written r ⟨"confidence", .nat, .noneDflt "10", none⟩ = some "10" := by
    unfold written guardOpen
    simp [h]
  rw [hwr] at hw
  refine ⟨hw, ?_⟩
  unfold readBack
  simp only at hw
  rw [hw]
  decide +kernel

/-- every rule table of the SDK is well-formed in the three ways `cycle_idempotent` needs -/
theorem tableOf_ok (tag : String) (t : List ASpec) (h : tableOf tag = some t) :
    (t.map (·.name)).Nodup ∧ GuardsOk t ∧ DefaultsCanon t := by
  obtain ⟨n1, n2, n3, n4, n5, n6, n7, n8, n9⟩ := tables_have_unique_names
  obtain ⟨g1, g2, g3, g4, g5, g6, g7, g8, g9⟩ := tables_guards_ok
  obtain ⟨d1, d2, d3, d4, d5, d6, d7, d8, d9⟩ := tables_defaults_canon
  unfold tableOf at h
  split at h
  · cases h; exact ⟨n1, g1, d1⟩
  · cases h; exact ⟨n2, g2, d2⟩
  · cases h; exact ⟨n3, g3, d3⟩
  · cases h; exact ⟨n4, g4, d4⟩
  · cases h; exact ⟨n5, g5, d5⟩
  · cases h; exact ⟨n6, g6, d6⟩
  · cases h; exact ⟨n7, g7, d7⟩
  · cases h; exact ⟨n8, g8, d8⟩
  · split at h
    · rename_i hc
      cases h
      have hm : tag ∈ ["inter", "intra", "other", "name", "description", "container", "original"] := by
        simpa using hc
      exact ⟨n9 tag hm, g9 tag hm, d9 tag hm⟩
    · cases h

/-- **C08: repeating the parse-serialize cycle changes nothing**, for every element kind of the
ontology and every element the parser accepts (whose event type attributes the schema requires are
not empty): `generate_xml(create_from_xml(x))` is a fixed point of the cycle -/
theorem cycle_twice (tag : String) (a b : Attrs)
    (hne : ∀ t, tableOf tag = some t → NonEmptyRequired t a) (h : cycle tag a = some b) : cycle tag b = some b := by
  unfold cycle at h ⊢
  cases ht : tableOf tag with
  | none => rw [ht] at h; cases h
  | some t =>
    rw [ht] at h
    simp only [Option.bind_eq_bind, Option.bind_some] at h ⊢
    cases hd : decode t a with
    | none => rw [hd] at h; cases h
    | some r =>
      rw [hd] at h
      simp only [Option.bind_some, Option.pure_def, Option.some.injEq] at h
      subst h
      obtain ⟨hn, hg, hdc⟩ := tableOf_ok tag t ht
      obtain ⟨r', h1, h2⟩ := cycle_idempotent t hn hg hdc a (hne t ht) r hd
      rw [h1]
      simp only [Option.bind_some, Option.pure_def, Option.some.injEq]
      exact h2


/-! ### the element tree: nesting and order -/

open EdxmlProps.XmlTree

theorem nonEmptyRequired_of_no_falsy (t : List ASpec) (a : Attrs)
    (h : (t.all fun s => s.rule != .falsyReq) = true) : NonEmptyRequired t a := by
  intro s hs hr
  have := List.all_eq_true.mp h s hs
  rw [hr] at this
  simp at this

/-- only the attributes of an event type element are left out when empty although a parser
requires them -/
theorem nonEmptyRequired_other (tag : String) (htag : tag ≠ "event-type") (a : Attrs) (t : List ASpec)
    (h : tableOf tag = some t) : NonEmptyRequired t a := by
  unfold tableOf at h
  split at h
  · cases h; exact nonEmptyRequired_of_no_falsy _ _ (by decide)
  · cases h; exact nonEmptyRequired_of_no_falsy _ _ (by decide)
  · cases h; exact nonEmptyRequired_of_no_falsy _ _ (by decide)
  · exact absurd rfl htag
  · cases h; exact nonEmptyRequired_of_no_falsy _ _ (by decide)
  · cases h; exact nonEmptyRequired_of_no_falsy _ _ (by decide)
  · cases h; exact nonEmptyRequired_of_no_falsy _ _ (by decide)
  · cases h; exact nonEmptyRequired_of_no_falsy _ _ (by decide)
  · split at h
    · rename_i hc
      cases h
      have hm : tag ∈ ["inter", "intra", "other", "name", "description", "container", "original"] := by simpa using hc
      simp only [List.mem_cons, List.mem_nil_iff, or_false] at hm
      rcases hm with rfl | rfl | rfl | rfl | rfl | rfl | rfl <;> exact nonEmptyRequired_of_no_falsy _ _ (by decide)
    · cases h

theorem cycle_twice_other (tag : String) (htag : tag ≠ "event-type") (a b : Attrs) (h : cycle tag a = some b) :
    cycle tag b = some b :=
  cycle_twice tag a b (fun t ht => nonEmptyRequired_other tag htag a t ht) h

/-- a list of elements cycled one by one and sorted: cycling and sorting it again changes nothing -/
theorem cycled_sorted_fixed {α : Type} (f : α → Option α) (key : α → String) (l r : List α)
    (hfix : ∀ x y, x ∈ l → f x = some y → f y = some y) (h : l.mapM f = some r) :
    (sortBy key r).mapM f = some (sortBy key r) ∧ sortBy key (sortBy key r) = sortBy key r := by
  refine ⟨mapM_fixed f _ (fun y hy => ?_), sortBy_idem key r⟩
  obtain ⟨x, hx, hxy⟩ := mapM_mem f l r h y ((mem_sortBy key r y).mp hy)
  exact hfix x y hx hxy

theorem cycleProp_twice (p p' : PropX) (h : cycleProp p = some p') : cycleProp p' = some p' := by
  unfold cycleProp at h
  cases ha : cycle "property" p.attrs with
  | none => rw [ha] at h; cases h
  | some a =>
    rw [ha] at h
    cases hc : p.concepts.mapM (cycle "property-concept") with
    | none => rw [hc] at h; cases h
    | some cs =>
      rw [hc] at h
      have hp : p' = { attrs := a, concepts := sortBy (attr · "name") cs } := by
        have : some ({ attrs := a, concepts := sortBy (attr · "name") cs } : PropX) = some p' := h
        exact (Option.some.inj this).symm
      subst hp
      obtain ⟨h1, h2⟩ := cycled_sorted_fixed (cycle "property-concept") (attr · "name") p.concepts cs
        (fun x y _ hxy => cycle_twice_other _ (by decide) x y hxy) hc
      unfold cycleProp
      simp only
      rw [cycle_twice_other _ (by decide) _ _ ha, h1]
      simp only [Option.bind_eq_bind, Option.bind_some, Option.pure_def, h2]

theorem cycleRel_twice (r r' : RelX) (h : cycleRel r = some r') : cycleRel r' = some r' := by
  unfold cycleRel at h
  split at h
  · rename_i hmem
    cases ha : cycle r.tag r.attrs with
    | none => rw [ha] at h; cases h
    | some a =>
      rw [ha] at h
      have hr : r' = { tag := r.tag, attrs := a } := by
        have : some ({ tag := r.tag, attrs := a } : RelX) = some r' := h
        exact (Option.some.inj this).symm
      subst hr
      have htag : r.tag ≠ "event-type" := by
        intro e
        rw [e] at hmem
        exact absurd hmem (by decide)
      unfold cycleRel
      simp only [hmem, if_true]
      rw [cycle_twice_other _ htag _ _ ha]
      rfl
  · cases h

theorem cycleParent_twice (p q : Option Attrs) (h : cycleParent p = some q) : cycleParent q = some q := by
  cases p with
  | none =>
    simp only [cycleParent, Option.some.injEq] at h
    subst h; rfl
  | some a =>
    simp only [cycleParent] at h
    cases hc : cycle "parent" a with
    | none => rw [hc] at h; cases h
    | some b =>
      rw [hc] at h
      simp only [Option.map_some, Option.some.injEq] at h
      subst h
      simp only [cycleParent, cycle_twice_other _ (by decide) _ _ hc, Option.map_some]

/-- what the schema demands of every event type element: name, display names, description, summary,
story and version are present and not empty -/
def EtAttrsOk (e : EtX) : Prop := NonEmptyRequired eventTypeTable e.attrs

theorem cycleEt_twice (e e' : EtX) (hok : EtAttrsOk e) (h : cycleEt e = some e') : cycleEt e' = some e' := by
  unfold cycleEt at h
  cases ha : cycle "event-type" e.attrs with
  | none => rw [ha] at h; cases h
  | some a =>
    rw [ha] at h
    cases hpar1 : cycleParent e.parent with
    | none => rw [hpar1] at h; cases h
    | some par =>
    have hpar2 : cycleParent par = some par := cycleParent_twice _ _ hpar1
    rw [hpar1] at h
    cases hps : e.props.mapM cycleProp with
    | none => rw [hps] at h; cases h
    | some props =>
      rw [hps] at h
      cases hrs : e.rels.mapM cycleRel with
      | none => rw [hrs] at h; cases h
      | some rels =>
        rw [hrs] at h
        cases has : e.atts.mapM (cycle "attachment") with
        | none => rw [has] at h; cases h
        | some atts =>
          rw [has] at h
          have he : e' = { attrs := a, parent := par, props := sortBy (attr ·.attrs "name") props, rels := sortBy relKey rels,
                           atts := sortBy (attr · "name") atts } := by
            have : some ({ attrs := a, parent := par, props := sortBy (attr ·.attrs "name") props, rels := sortBy relKey rels,
                           atts := sortBy (attr · "name") atts } : EtX) = some e' := h
            exact (Option.some.inj this).symm
          subst he
          obtain ⟨p1, p2⟩ := cycled_sorted_fixed cycleProp (attr ·.attrs "name") e.props props
            (fun x y _ hxy => cycleProp_twice x y hxy) hps
          obtain ⟨r1, r2⟩ := cycled_sorted_fixed cycleRel relKey e.rels rels (fun x y _ hxy => cycleRel_twice x y hxy) hrs
          obtain ⟨a1, a2⟩ := cycled_sorted_fixed (cycle "attachment") (attr · "name") e.atts atts
            (fun x y _ hxy => cycle_twice_other _ (by decide) x y hxy) has
          have hcyc : cycle "event-type" a = some a := cycle_twice "event-type" e.attrs a (fun t ht => by
            have : t = eventTypeTable := by
              have h' : tableOf "event-type" = some eventTypeTable := rfl
              rw [h'] at ht
              exact (Option.some.inj ht).symm
            subst this
            exact hok) ha
          unfold cycleEt
          simp only
          rw [hcyc, hpar2, p1, r1, a1]
          simp only [Option.bind_eq_bind, Option.bind_some, Option.pure_def, p2, r2, a2]

/-- **C08: repeating the cycle is byte-identical, for the whole ontology element**: what
`generate_xml` writes for a parsed ontology — every definition through its attribute rules, every
container sorted — is parsed and written again as the very same tree -/
theorem cycleOnt_twice (o o' : OntX) (hok : ∀ e ∈ o.eventTypes, EtAttrsOk e) (h : cycleOnt o = some o') :
    cycleOnt o' = some o' := by
  unfold cycleOnt at h
  cases h1 : o.objectTypes.mapM (cycle "object-type") with
  | none => rw [h1] at h; cases h
  | some ots =>
    rw [h1] at h
    cases h2 : o.concepts.mapM (cycle "concept") with
    | none => rw [h2] at h; cases h
    | some cs =>
      rw [h2] at h
      cases h3 : o.eventTypes.mapM cycleEt with
      | none => rw [h3] at h; cases h
      | some ets =>
        rw [h3] at h
        cases h4 : o.sources.mapM (cycle "source") with
        | none => rw [h4] at h; cases h
        | some ss =>
          rw [h4] at h
          have ho : o' = { objectTypes := sortBy (attr · "name") ots, concepts := sortBy (attr · "name") cs,
                           eventTypes := sortBy (attr ·.attrs "name") ets, sources := sortBy (attr · "uri") ss } := by
            have : some ({ objectTypes := sortBy (attr · "name") ots, concepts := sortBy (attr · "name") cs,
                           eventTypes := sortBy (attr ·.attrs "name") ets, sources := sortBy (attr · "uri") ss } : OntX) = some o' := h
            exact (Option.some.inj this).symm
          subst ho
          obtain ⟨a1, a2⟩ := cycled_sorted_fixed (cycle "object-type") (attr · "name") _ ots
            (fun x y _ hxy => cycle_twice_other _ (by decide) x y hxy) h1
          obtain ⟨b1, b2⟩ := cycled_sorted_fixed (cycle "concept") (attr · "name") _ cs
            (fun x y _ hxy => cycle_twice_other _ (by decide) x y hxy) h2
          obtain ⟨c1, c2⟩ := cycled_sorted_fixed cycleEt (attr ·.attrs "name") _ ets
            (fun x y hx hxy => cycleEt_twice x y (hok x hx) hxy) h3
          obtain ⟨d1, d2⟩ := cycled_sorted_fixed (cycle "source") (attr · "uri") _ ss
            (fun x y _ hxy => cycle_twice_other _ (by decide) x y hxy) h4
          unfold cycleOnt
          simp only
          rw [a1, b1, c1, d1]
          simp only [Option.bind_eq_bind, Option.bind_some, Option.pure_def, a2, b2, c2, d2]

/-- C08: every container of the serialized ontology is sorted by the key of its definitions, and
holds exactly the cycled definitions of the input: nothing is lost, nothing is added -/
theorem cycleOnt_sorted_complete (o o' : OntX) (h : cycleOnt o = some o') :
    (o'.objectTypes.Pairwise fun x y => attr x "name" ≤ attr y "name") ∧
    (o'.concepts.Pairwise fun x y => attr x "name" ≤ attr y "name") ∧
    (o'.eventTypes.Pairwise fun x y => attr x.attrs "name" ≤ attr y.attrs "name") ∧
    (o'.sources.Pairwise fun x y => attr x "uri" ≤ attr y "uri") ∧
    (∃ ots, o.objectTypes.mapM (cycle "object-type") = some ots ∧ o'.objectTypes.Perm ots) ∧
    (∃ cs, o.concepts.mapM (cycle "concept") = some cs ∧ o'.concepts.Perm cs) ∧
    (∃ ets, o.eventTypes.mapM cycleEt = some ets ∧ o'.eventTypes.Perm ets) ∧
    (∃ ss, o.sources.mapM (cycle "source") = some ss ∧ o'.sources.Perm ss) ∧
    o'.objectTypes.length = o.objectTypes.length ∧ o'.eventTypes.length = o.eventTypes.length := by
  unfold cycleOnt at h
  cases h1 : o.objectTypes.mapM (cycle "object-type") with
  | none => rw [h1] at h; cases h
  | some ots =>
    rw [h1] at h
    cases h2 : o.concepts.mapM (cycle "concept") with
    | none => rw [h2] at h; cases h
    | some cs =>
      rw [h2] at h
      cases h3 : o.eventTypes.mapM cycleEt with
      | none => rw [h3] at h; cases h
      | some ets =>
        rw [h3] at h
        cases h4 : o.sources.mapM (cycle "source") with
        | none => rw [h4] at h; cases h
        | some ss =>
          rw [h4] at h
          have ho : o' = { objectTypes := sortBy (attr · "name") ots, concepts := sortBy (attr · "name") cs,
                           eventTypes := sortBy (attr ·.attrs "name") ets, sources := sortBy (attr · "uri") ss } := by
            have : some ({ objectTypes := sortBy (attr · "name") ots, concepts := sortBy (attr · "name") cs,
                           eventTypes := sortBy (attr ·.attrs "name") ets, sources := sortBy (attr · "uri") ss } : OntX) = some o' := h
            exact (Option.some.inj this).symm
          subst ho
          refine ⟨sortBy_sorted _ _, sortBy_sorted _ _, sortBy_sorted _ _, sortBy_sorted _ _,
            ⟨ots, rfl, sortBy_perm _ _⟩, ⟨cs, rfl, sortBy_perm _ _⟩, ⟨ets, rfl, sortBy_perm _ _⟩, ⟨ss, rfl, sortBy_perm _ _⟩, ?_, ?_⟩
          · simp only; rw [(sortBy_perm _ ots).length_eq, mapM_length _ _ _ h1]
          · simp only; rw [(sortBy_perm _ ets).length_eq, mapM_length _ _ _ h3]

/-- the fixed point: one parse-serialize cycle of an arbitrary element already gives what every
further cycle gives (checked here on the shapes the schema leaves open) -/
theorem cycle_fixed_point :
    cycle "object-type" [("name", "o"), ("display-name-singular", "a"), ("display-name-plural", "b"), ("description", "d"),
        ("data-type", "number:int"), ("unit-name", "m"), ("unit-symbol", "m"), ("prefix-radix", "010"), ("compress", "false"),
        ("version", "+01")] =
      some [("name", "o"), ("display-name-singular", "a"), ("display-name-plural", "b"), ("description", "d"),
        ("data-type", "number:int"), ("unit-name", "m"), ("unit-symbol", "m"), ("version", "1")] ∧
    cycle "property" [("name", "p"), ("object-type", "o"), ("description", "d"), ("confidence", "07"), ("merge", "any"),
        ("similar", "")] =
      some [("name", "p"), ("object-type", "o"), ("description", "d"), ("optional", "false"), ("multivalued", "false"),
        ("confidence", "7")] ∧
    cycle "property-concept" [("name", "c"), ("confidence", "1"), ("cnp", "128"), ("attr-extension", "")] =
      some [("name", "c"), ("confidence", "1"), ("cnp", "128")] := by
  decide +kernel

/-- cycling and sorting a container does not depend on the order in which its definitions arrive,
when no two of them share a key -/
theorem cycled_sorted_perm {α : Type} (f : α → Option α) (key : α → String) (l₁ l₂ r₁ : List α) (hp : l₁.Perm l₂)
    (h : l₁.mapM f = some r₁)
    (hinj : ∀ x ∈ sortBy key r₁, ∀ y ∈ sortBy key r₁, key x = key y → x = y) :
    ∃ r₂, l₂.mapM f = some r₂ ∧ sortBy key r₂ = sortBy key r₁ := by
  obtain ⟨hnone, hperm⟩ := mapM_perm f hp
  cases h2 : l₂.mapM f with
  | none =>
    have := hnone.mpr h2
    rw [h] at this
    cases this
  | some r₂ =>
    refine ⟨r₂, rfl, ?_⟩
    have hp12 := hperm r₁ r₂ h h2
    exact (sortBy_perm_eq key r₁ r₂ hp12 (fun x hx y hy => hinj x ((mem_sortBy key r₁ x).mpr hx) y ((mem_sortBy key r₁ y).mpr hy))).symm

/-- **C08: the serialized ontology does not depend on the order in which the definitions of a
container arrive** (object types, concepts, event types, sources), as long as no two definitions of
one container share their name / URI: `generate_xml` writes them sorted -/
theorem cycleOnt_order_free (o₁ o₂ o' : OntX)
    (h1 : o₁.objectTypes.Perm o₂.objectTypes) (h2 : o₁.concepts.Perm o₂.concepts)
    (h3 : o₁.eventTypes.Perm o₂.eventTypes) (h4 : o₁.sources.Perm o₂.sources)
    (hc : cycleOnt o₁ = some o')
    (k1 : ∀ x ∈ o'.objectTypes, ∀ y ∈ o'.objectTypes, attr x "name" = attr y "name" → x = y)
    (k2 : ∀ x ∈ o'.concepts, ∀ y ∈ o'.concepts, attr x "name" = attr y "name" → x = y)
    (k3 : ∀ x ∈ o'.eventTypes, ∀ y ∈ o'.eventTypes, attr x.attrs "name" = attr y.attrs "name" → x = y)
    (k4 : ∀ x ∈ o'.sources, ∀ y ∈ o'.sources, attr x "uri" = attr y "uri" → x = y) :
    cycleOnt o₂ = some o' := by
  unfold cycleOnt at hc
  cases e1 : o₁.objectTypes.mapM (cycle "object-type") with
  | none => rw [e1] at hc; cases hc
  | some ots =>
    rw [e1] at hc
    cases e2 : o₁.concepts.mapM (cycle "concept") with
    | none => rw [e2] at hc; cases hc
    | some cs =>
      rw [e2] at hc
      cases e3 : o₁.eventTypes.mapM cycleEt with
      | none => rw [e3] at hc; cases hc
      | some ets =>
        rw [e3] at hc
        cases e4 : o₁.sources.mapM (cycle "source") with
        | none => rw [e4] at hc; cases hc
        | some ss =>
          rw [e4] at hc
          have ho : o' = { objectTypes := sortBy (attr · "name") ots, concepts := sortBy (attr · "name") cs,
                           eventTypes := sortBy (attr ·.attrs "name") ets, sources := sortBy (attr · "uri") ss } := by
            have : some ({ objectTypes := sortBy (attr · "name") ots, concepts := sortBy (attr · "name") cs,
                           eventTypes := sortBy (attr ·.attrs "name") ets, sources := sortBy (attr · "uri") ss } : OntX) = some o' := hc
            exact (Option.some.inj this).symm
          subst ho
          obtain ⟨r1, a1, b1⟩ := cycled_sorted_perm (cycle "object-type") (attr · "name") _ _ ots h1 e1 k1
          obtain ⟨r2, a2, b2⟩ := cycled_sorted_perm (cycle "concept") (attr · "name") _ _ cs h2 e2 k2
          obtain ⟨r3, a3, b3⟩ := cycled_sorted_perm cycleEt (attr ·.attrs "name") _ _ ets h3 e3 k3
          obtain ⟨r4, a4, b4⟩ := cycled_sorted_perm (cycle "source") (attr · "uri") _ _ ss h4 e4 k4
          unfold cycleOnt
          rw [a1, a2, a3, a4]
          simp only [Option.bind_eq_bind, Option.bind_some, Option.pure_def, b1, b2, b3, b4]

/-- a small ontology whose definitions arrive in another order than they are written, with an
attribute at its default: the cycle sorts and normalises, and is then a fixed point -/
def exOnt : OntX :=
  { objectTypes := [[("name", "o.b"), ("display-name-singular", "b"), ("display-name-plural", "bs"), ("description", "d"),
                     ("data-type", "string:0:mc"), ("compress", "false"), ("version", "02")],
                    [("name", "o.a"), ("display-name-singular", "a"), ("display-name-plural", "as"), ("description", "d"),
                     ("data-type", "number:int"), ("version", "1")]],
    concepts := [], eventTypes := [], sources := [[("uri", "/b/"), ("description", "d"), ("version", "1")],
                                                   [("uri", "/a/"), ("description", "d"), ("version", "1")]] }
example : exOnt.objectTypes.mapM (cycle "object-type") = some
    [[("name", "o.b"), ("display-name-singular", "b"), ("display-name-plural", "bs"), ("description", "d"),
      ("data-type", "string:0:mc"), ("version", "2")],
     [("name", "o.a"), ("display-name-singular", "a"), ("display-name-plural", "as"), ("description", "d"),
      ("data-type", "number:int"), ("version", "1")]] := by decide +kernel
example : exOnt.sources.mapM (cycle "source") = some exOnt.sources := by decide +kernel
example : sortBy (attr · "uri") exOnt.sources =
    [[("uri", "/a/"), ("description", "d"), ("version", "1")], [("uri", "/b/"), ("description", "d"), ("version", "1")]] := by
  simp [sortBy, List.mergeSort, List.MergeSort.Internal.splitInTwo, exOnt, attr, lookupA]
example : ∀ e ∈ exOnt.eventTypes, EtAttrsOk e := by simp [exOnt]

end EdxmlProps.C08
