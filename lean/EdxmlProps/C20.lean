/-
C20. Concept mining yields well-formed results: the confidence arithmetic stays inside [0,1], an
attribute is at least as confident as each node that confirms it, the seed selection loop ends, the
mined universals are exactly the pairs present in the events.

Model: `EdxmlModel/Miner/Confidence.lean`, over exact rationals (the SDK computes in binary
floating point; the correspondence compares the two within rounding).
-/
import EdxmlModel.Miner.Confidence
import EdxmlModel.Miner.Search
import EdxmlProps.Lemmas.Search
import EdxmlModel.Miner.Construct
import EdxmlProps.Lemmas.Construct
import EdxmlModel.Miner.Extract
import EdxmlProps.Lemmas.Extract
import EdxmlProps.Lemmas.Merge
import Mathlib.Tactic.Linarith
import Mathlib.Tactic.Positivity
namespace EdxmlProps.C20
open Edxml Edxml.Miner

def Unit01 (x : Rat) : Prop := 0 ≤ x ∧ x ≤ 1

theorem mul_unit {a b : Rat} (ha : Unit01 a) (hb : Unit01 b) : Unit01 (a * b) := by
  obtain ⟨a0, a1⟩ := ha
  obtain ⟨b0, b1⟩ := hb
  exact ⟨mul_nonneg a0 b0, by nlinarith⟩

theorem compl_unit {a : Rat} (ha : Unit01 a) : Unit01 (1 - a) := ⟨by linarith [ha.2], by linarith [ha.1]⟩

theorem foldl_mul_unit : ∀ (xs : List Rat) (acc : Rat), Unit01 acc → (∀ x ∈ xs, Unit01 x) →
    Unit01 (xs.foldl (· * ·) acc)
  | [], acc, h, _ => h
  | x :: xs, acc, h, hx => by
    simp only [List.foldl_cons]
    exact foldl_mul_unit xs (acc * x) (mul_unit h (hx x (by simp))) (fun y hy => hx y (by simp [hy]))

/-- C20: every noisy-or combination (attribute confidence, concept name confidence, related
concept confidence) of confidences in [0,1] lies in [0,1] -/
theorem noisyOr_unit (cs : List Rat) (h : ∀ c ∈ cs, Unit01 c) : Unit01 (noisyOr cs) := by
  unfold noisyOr
  apply compl_unit
  apply foldl_mul_unit _ 1 ⟨by norm_num, by norm_num⟩
  intro x hx
  obtain ⟨c, hc, rfl⟩ := List.mem_map.mp hx
  exact compl_unit (h c hc)

theorem foldl_mul_le : ∀ (xs : List Rat) (acc : Rat), 0 ≤ acc → (∀ x ∈ xs, Unit01 x) →
    xs.foldl (· * ·) acc ≤ acc
  | [], acc, _, _ => le_refl _
  | x :: xs, acc, h, hx => by
    simp only [List.foldl_cons]
    have hx0 := hx x (by simp)
    have h1 : acc * x ≤ acc := by nlinarith [hx0.1, hx0.2]
    have h2 : 0 ≤ acc * x := mul_nonneg h hx0.1
    exact le_trans (foldl_mul_le xs (acc * x) h2 (fun y hy => hx y (by simp [hy]))) h1

theorem foldl_mul_le_of_mem : ∀ (xs : List Rat) (acc : Rat) (x : Rat), Unit01 acc → (∀ y ∈ xs, Unit01 y) → x ∈ xs →
    xs.foldl (· * ·) acc ≤ x
  | y :: ys, acc, x, hacc, hy, hx => by
    simp only [List.foldl_cons]
    have hy0 := hy y (by simp)
    rcases List.mem_cons.mp hx with rfl | hx'
    · have h1 : acc * x ≤ x := by nlinarith [hacc.1, hacc.2, hy0.1]
      exact le_trans (foldl_mul_le ys (acc * x) (mul_nonneg hacc.1 hy0.1) (fun z hz => hy z (by simp [hz]))) h1
    · exact foldl_mul_le_of_mem ys (acc * y) x (mul_unit hacc hy0) (fun z hz => hy z (by simp [hz])) hx'

/-- C20: an attribute is at least as confident as every node confirming it — so an attribute
built from nodes that meet the requested minimum confidence meets it too -/
theorem noisyOr_ge_each (cs : List Rat) (h : ∀ c ∈ cs, Unit01 c) (c : Rat) (hc : c ∈ cs) : c ≤ noisyOr cs := by
  unfold noisyOr
  have := foldl_mul_le_of_mem (cs.map (1 - ·)) 1 (1 - c) ⟨by norm_num, by norm_num⟩
    (by intro y hy; obtain ⟨d, hd, rfl⟩ := List.mem_map.mp hy; exact compl_unit (h d hd))
    (List.mem_map_of_mem hc)
  linarith

theorem attribute_meets_minimum (cs : List Rat) (h : ∀ c ∈ cs, Unit01 c) (m : Rat) (hne : cs ≠ [])
    (hm : ∀ c ∈ cs, m ≤ c) : m ≤ noisyOr cs := by
  match cs, hne with
  | c :: rest, _ =>
    exact le_trans (hm c (by simp)) (noisyOr_ge_each _ h c (by simp))

theorem foldl_taint_unit : ∀ (xs : List Rat) (acc : Rat), Unit01 acc → (∀ x ∈ xs, Unit01 x) →
    Unit01 (xs.foldl (fun x y => (1 - x) * (1 - y)) acc)
  | [], acc, h, _ => h
  | x :: xs, acc, h, hx => by
    simp only [List.foldl_cons]
    exact foldl_taint_unit xs _ (mul_unit (compl_unit h) (compl_unit (hx x (by simp)))) (fun y hy => hx y (by simp [hy]))

/-- C20: node taints stay in [0,1] (for the formula the SDK uses, whatever the number of seeds) -/
theorem taintOf_unit (cs : List Rat) (h : ∀ c ∈ cs, Unit01 c) : Unit01 (taintOf cs) := by
  match cs, h with
  | [], _ => exact ⟨le_refl _, by simp [taintOf]⟩
  | [c], h => exact h c (by simp)
  | a :: b :: rest, h =>
    simp only [taintOf, reduce1]
    apply compl_unit
    exact foldl_taint_unit (b :: rest) a (h a (by simp)) (fun y hy => h y (by simp [hy]))

/-- C20: node taints stay in [0,1] over any sequence of mining rounds (the running maximum the SDK keeps) -/
theorem taintHistory_unit (isSeed : Bool) (cs : List Rat) (h : ∀ c ∈ cs, Unit01 c) : Unit01 (taintHistory isSeed cs) := by
  unfold taintHistory
  split
  · exact ⟨by decide, le_refl _⟩
  · have key : ∀ (ks : List Nat) (t : Rat), Unit01 t →
        Unit01 (ks.foldl (fun t k => max t (taintOf (cs.take k))) t) := by
      intro ks
      induction ks with
      | nil => intro t ht; exact ht
      | cons k ks ih =>
        intro t ht
        simp only [List.foldl_cons]
        apply ih
        have hk := taintOf_unit (cs.take k) (fun c hc => h c (List.mem_of_mem_take hc))
        constructor
        · exact le_trans ht.1 (le_max_left _ _)
        · exact max_le ht.2 hk.2
    exact key _ 0 ⟨le_refl _, by decide⟩

/-- ... and never decrease from one round to the next -/
theorem taintHistory_mono (cs : List Rat) (c : Rat) : taintHistory false cs ≤ taintHistory false (cs ++ [c]) := by
  unfold taintHistory
  simp only [Bool.false_eq_true, if_false, List.length_append, List.length_singleton]
  conv => rhs; rw [List.range_succ, List.foldl_append]
  simp only [List.foldl_cons, List.foldl_nil]
  have : (List.range (cs.length + 1)).foldl (fun t k => max t (taintOf ((cs ++ [c]).take k))) 0 =
      (List.range (cs.length + 1)).foldl (fun t k => max t (taintOf (cs.take k))) 0 := by
    apply List.foldl_ext
    intro t k hk
    have : k ≤ cs.length := by simpa [List.mem_range] using Nat.lt_succ_iff.mp (List.mem_range.mp hk)
    rw [List.take_append_of_le_length this]
  rw [this]
  exact le_max_left _ _

/-- C20: a reasoning step never raises the confidence: the confidence of a node reached from the
seed is a product of factors in [0,1] -/
theorem dijkstra_unit (s e t c : Rat) (hs : Unit01 s) (he : Unit01 e) (ht : Unit01 t) (hc : Unit01 c) :
    Unit01 (dijkstra s e t c) ∧ dijkstra s e t c ≤ s := by
  unfold dijkstra
  have h1 := mul_unit hs he
  have h2 := mul_unit h1 (compl_unit ht)
  have h3 := mul_unit h2 hc
  refine ⟨h3, ?_⟩
  have a : s * e ≤ s := by nlinarith [hs.1, he.2]
  have b : s * e * (1 - t) ≤ s * e := by nlinarith [h1.1, ht.1]
  have c' : s * e * (1 - t) * c ≤ s * e * (1 - t) := by nlinarith [h2.1, hc.2]
  linarith

theorem relatedStep_unit (a b c : Rat) (ha : Unit01 a) (hb : Unit01 b) (hc : Unit01 c) : Unit01 (relatedStep a b c) :=
  mul_unit (mul_unit ha hb) hc

/-- property confidences 0..10 of the ontology, scaled: in [0,1] -/
theorem tenth_unit (k : Nat) (h : k ≤ 10) : Unit01 ((k : Rat) / 10) := by
  constructor
  · positivity
  · rw [div_le_one (by norm_num)]; exact_mod_cast h

/-! ### termination of `_auto_mine` -/

/-- what one round of `_auto_mine` does to the taints: the chosen seed was untainted and ends up
with taint 1; no taint decreases; the nodes stay the same -/
structure Round (ns ns' : List ANode) (seed : Nat) : Prop where
  ids : ns'.map (·.id) = ns.map (·.id)
  mono : ∀ i (h : i < ns.length) (h' : i < ns'.length), ns[i].taint ≤ ns'[i].taint
  seedWas : ∃ i, ∃ (h : i < ns.length) (h' : i < ns'.length), ns[i].id = seed ∧ ns[i].taint ≤ 0 ∧ ns'[i].taint = 1

theorem count_untainted_le : ∀ (ns ns' : List ANode), ns.length = ns'.length →
    (∀ i (h : i < ns.length) (h' : i < ns'.length), ns[i].taint ≤ ns'[i].taint) →
    (untainted ns').length ≤ (untainted ns).length
  | [], [], _, _ => le_refl _
  | a :: as, b :: bs, hl, hm => by
    have hl' : as.length = bs.length := by simpa using hl
    have ih := count_untainted_le as bs hl' (fun i h h' => by
      have := hm (i + 1) (by simp; omega) (by simp; omega)
      simpa using this)
    have h0 : a.taint ≤ b.taint := hm 0 (by simp) (by simp)
    unfold untainted at ih ⊢
    simp only [List.filter_cons]
    by_cases hb : b.taint ≤ 0
    · have ha : a.taint ≤ 0 := le_trans h0 hb
      simp only [hb, ha, decide_true, if_true, List.length_cons]; omega
    · simp only [hb, decide_false, Bool.false_eq_true, if_false]
      by_cases ha : a.taint ≤ 0
      · simp only [ha, decide_true, if_true, List.length_cons]; omega
      · simp only [ha, decide_false, Bool.false_eq_true, if_false]; exact ih

theorem count_untainted_lt : ∀ (ns ns' : List ANode), ns.length = ns'.length →
    (∀ i (h : i < ns.length) (h' : i < ns'.length), ns[i].taint ≤ ns'[i].taint) →
    (∃ i, ∃ (h : i < ns.length) (h' : i < ns'.length), ns[i].taint ≤ 0 ∧ ns'[i].taint = 1) →
    (untainted ns').length < (untainted ns).length
  | a :: as, b :: bs, hl, hm, ⟨i, h, h', hi⟩ => by
    have hl' : as.length = bs.length := by simpa using hl
    have hm' : ∀ i (h : i < as.length) (h' : i < bs.length), as[i].taint ≤ bs[i].taint := fun i h h' => by
      have := hm (i + 1) (by simp; omega) (by simp; omega)
      simpa using this
    have h0 : a.taint ≤ b.taint := hm 0 (by simp) (by simp)
    unfold untainted
    simp only [List.filter_cons]
    cases i with
    | zero =>
      simp only [List.getElem_cons_zero] at hi
      have hb : ¬ b.taint ≤ 0 := by rw [hi.2]; norm_num
      have := count_untainted_le as bs hl' hm'
      unfold untainted at this
      simp only [hi.1, hb, decide_true, decide_false, if_true, Bool.false_eq_true, if_false, List.length_cons]
      omega
    | succ j =>
      simp only [List.getElem_cons_succ] at hi
      have ih := count_untainted_lt as bs hl' hm' ⟨j, by simpa using h, by simpa using h', hi⟩
      unfold untainted at ih
      by_cases hb : b.taint ≤ 0
      · have ha : a.taint ≤ 0 := le_trans h0 hb
        simp only [hb, ha, decide_true, if_true, List.length_cons]; omega
      · simp only [hb, decide_false, Bool.false_eq_true, if_false]
        by_cases ha : a.taint ≤ 0
        · simp only [ha, decide_true, if_true, List.length_cons]; omega
        · simp only [ha, decide_false, Bool.false_eq_true, if_false]; exact ih

/-- C20: every round of `_auto_mine` leaves strictly fewer candidate seeds, so mining without a
seed ends after at most as many rounds as there are nodes -/
theorem round_decreases (ns ns' : List ANode) (seed : Nat) (r : Round ns ns' seed) :
    (untainted ns').length < (untainted ns).length := by
  have hl : ns.length = ns'.length := by
    have := congrArg List.length r.ids
    simpa using this.symm
  obtain ⟨i, h, h', _, h1, h2⟩ := r.seedWas
  exact count_untainted_lt ns ns' hl r.mono ⟨i, h, h', h1, h2⟩

theorem rounds_bounded : ∀ (trace : List (List ANode)) (ns : List ANode),
    List.IsChain (fun a b => ∃ s, Round a b s) (ns :: trace) → trace.length ≤ (untainted ns).length
  | [], _, _ => Nat.zero_le _
  | n1 :: rest, ns, h => by
    rw [List.isChain_cons_cons] at h
    obtain ⟨⟨s, hr⟩, hrest⟩ := h
    have := rounds_bounded rest n1 hrest
    have := round_decreases ns n1 s hr
    simp only [List.length_cons]; omega

/-! ### universals -/

/-- C20: the mined universals are exactly the pairs present in the events -/
theorem universals_exact (rels : List URel) (k : String) (e : Event) (tt t st s : String) :
    (tt, t, st, s) ∈ universalsOf rels k e ↔
      ∃ r ∈ rels, r.kind = k ∧ tt = r.targetType ∧ st = r.sourceType ∧ t ∈ e.objects r.target ∧ s ∈ e.objects r.source := by
  unfold universalsOf
  simp only [List.mem_flatMap, List.mem_filter, beq_iff_eq, List.mem_map, Prod.mk.injEq]
  constructor
  · rintro ⟨r, ⟨hr, hk⟩, t', ht', s', hs', e1, e2, e3, e4⟩
    exact ⟨r, hr, hk, e1.symm, e3.symm, e2 ▸ ht', e4 ▸ hs'⟩
  · rintro ⟨r, hr, hk, e1, e3, ht, hs⟩
    exact ⟨r, ⟨hr, hk⟩, t, ht, s, hs, e1.symm, rfl, e3.symm, rfl⟩


/-! ### the reasoning pass (`_reason_from`): every execution the checker `run` accepts -/

open EdxmlProps.Search in
/-- C20: whatever the graph, the cut-offs, the order in which equally confident nodes are taken and
the edges that are admitted on the way: after the reasoning pass the seed has confidence 1, every
confidence lies in [0,1], and every node other than the seed that got a confidence got one above
the requested minimum (so every reported attribute meets it) -/
theorem search_wellformed (g : SGraph) (hg : GraphOk g) (min : Rat) (md seed : Nat) (tr : Trace) (ht : TraceOk tr)
    (s : SState) (cs : List Rat) (h : run g min md seed tr = some (s, cs)) :
    s.sc seed = some 1 ∧ (∀ k c, s.sc k = some c → Unit01 c) ∧ (∀ k c, k ≠ seed → s.sc k = some c → min < c) := by
  have fin : ∀ s, Inv min seed s →
      s.sc seed = some 1 ∧ (∀ k c, s.sc k = some c → Unit01 c) ∧ (∀ k c, k ≠ seed → s.sc k = some c → min < c) :=
    fun s i => ⟨i.seedOne, i.unit, i.aboveMin⟩
  cases tr with
  | nil =>
    simp only [run] at h
    split at h
    · cases h
    · cases h; exact fin _ (inv_init min seed)
  | cons p rest =>
    obtain ⟨n, es⟩ := p
    simp only [run] at h
    split at h
    · cases hrec : steps g min md (visit g min (SState.init seed) seed es) rest with
      | none => rw [hrec] at h; cases h
      | some r =>
        obtain ⟨s2, cs2⟩ := r
        rw [hrec] at h
        cases h
        have hv := visit_inv (n := seed) hg (ht (n, es) (by simp)) (inv_init min seed)
        exact fin _ (steps_spec hg rest _ _ _ (fun p hp => ht p (by simp [hp])) hv hrec).1
    · cases h

open EdxmlProps.Search in
/-- C20: the reasoning pass ends: no node is processed twice, so the loop runs at most once per
node of the graph -/
theorem search_terminates (g : SGraph) (hg : GraphOk g) (min : Rat) (md seed : Nat) (tr : Trace) (ht : TraceOk tr)
    (s : SState) (cs : List Rat) (h : run g min md seed tr = some (s, cs)) :
    (tr.map Prod.fst).Nodup ∧ ∀ N, (∀ n ∈ tr.map Prod.fst, n < N) → tr.length ≤ N := by
  have hnd : (tr.map Prod.fst).Nodup := by
    cases tr with
    | nil => simp
    | cons p rest =>
      obtain ⟨n, es⟩ := p
      simp only [run] at h
      split at h
      · rename_i hc
        cases hrec : steps g min md (visit g min (SState.init seed) seed es) rest with
        | none => rw [hrec] at h; cases h
        | some r =>
          obtain ⟨s2, cs2⟩ := r
          rw [hrec] at h
          cases h
          have hv := visit_inv (n := seed) hg (ht (n, es) (by simp)) (inv_init min seed)
          obtain ⟨_, _, _, i4, i5, _, _⟩ := steps_spec hg rest _ _ _ (fun p hp => ht p (by simp [hp])) hv hrec
          simp only [List.map_cons, List.nodup_cons]
          refine ⟨fun hmem => i5 n hmem ?_, i4⟩
          rw [hc.1]
          exact visit_visited_mem g min _ seed es
      · cases h
  refine ⟨hnd, fun N hN => ?_⟩
  have hsub : tr.map Prod.fst ⊆ List.range N := fun n hn => List.mem_range.mpr (hN n hn)
  have := (List.Nodup.subperm hnd hsub).length_le
  simpa using this

open EdxmlProps.Search in
/-- C20: nodes are processed in order of decreasing confidence (the Dijkstra property: a node's
confidence is final when it is processed, no later path can beat it); `cs` are the confidences the
processed nodes had when it was their turn -/
theorem search_sorted (g : SGraph) (hg : GraphOk g) (min : Rat) (md seed : Nat) (tr : Trace) (ht : TraceOk tr)
    (s : SState) (cs : List Rat) (h : run g min md seed tr = some (s, cs)) :
    cs.Pairwise (· ≥ ·) ∧ cs.length = tr.length := by
  cases tr with
  | nil =>
    simp only [run] at h
    split at h
    · cases h
    · cases h; simp
  | cons p rest =>
    obtain ⟨n, es⟩ := p
    simp only [run] at h
    split at h
    · cases hrec : steps g min md (visit g min (SState.init seed) seed es) rest with
      | none => rw [hrec] at h; cases h
      | some r =>
        obtain ⟨s2, cs2⟩ := r
        rw [hrec] at h
        cases h
        have he := ht (n, es) (by simp)
        have hv := visit_inv (n := seed) hg he (inv_init min seed)
        have hb : ∀ m ∈ (visit g min (SState.init seed) seed es).touched,
            (visit g min (SState.init seed) seed es).scD m ≤ 1 := fun m _ => (scD_unit hv m).2
        have hs := steps_sorted hg rest _ _ _ 1 (fun p hp => ht p (by simp [hp])) hv hb hrec
        have hl := (steps_spec hg rest _ _ _ (fun p hp => ht p (by simp [hp])) hv hrec).2.2.2.2.2.2
        exact ⟨List.pairwise_cons.mpr ⟨fun c hc => hs.2 c hc, hs.1⟩, by simp [hl]⟩
    · cases h

open EdxmlProps.Search in
/-- C20: the confidence of a node is final once the node has been processed: later iterations
never change it -/
theorem search_visited_final (g : SGraph) (hg : GraphOk g) (min : Rat) (md seed : Nat) (tr : Trace) (ht : TraceOk tr)
    (s0 s : SState) (cs : List Rat) (hi : Inv min seed s0) (h : steps g min md s0 tr = some (s, cs)) :
    ∀ k ∈ s0.visited, s.sc k = s0.sc k :=
  (steps_spec hg tr _ _ _ ht hi h).2.1

/-- C20: the checker the correspondence runs on the traces of real mining runs (`runC`, which grants
the SDK's floating point products a slack `eps`) is, without slack, the exact algorithm: every
annotated trace it accepts is an execution of `run` with the same resulting state, to which the
theorems above apply -/
theorem checker_exact (g : SGraph) (min : Rat) (md seed : Nat) (tr : ATrace) (s : SState)
    (h : runC g min 0 md seed tr = some s) : ∃ cs, run g min md seed tr.erase = some (s, cs) :=
  EdxmlProps.Search.runC_zero g min md seed tr s h

/-- C20: the checker that also decides which edges a pass may use (`runC2`) accepts only what the
checker of the relaxations (`runC`) accepts, with the same resulting confidences: every theorem above
applies to the traces it accepts -/
theorem scoped_checker_refines (g : SGraph) (min eps : Rat) (md seed : Nat) (sc : String) (tr : FTrace) (s : SState) (q : Equivs)
    (h : runC2 g min eps md seed sc tr = some (s, q)) : runC g min eps md seed tr.proj = some s :=
  EdxmlProps.Search.runC2_sound g min eps md seed sc tr s q h

/-- C20: within one iteration an accepted pass never uses an edge of an inter-concept relation (a
concept instance does not leak into a related instance), always uses the edges to hubs and those of
intra-concept relations, and assigns confidences through considered edges only -/
theorem never_crosses_inter (q : Equivs) (min eps scSelf : Rat) (es : List FEdge) (h : scopeOk q min eps scSelf es = true) :
    ∀ f ∈ es, (f.edge.kind = .inter → f.considered = false) ∧
      (f.edge.kind = .toHub ∨ f.edge.kind = .intra → f.considered = true) ∧
      (f.considered = false → f.assigned = none) :=
  EdxmlProps.Search.scopeOk_kinds q min eps scSelf es h

/-- C20: the confidence of a node's concept being in scope lies in [0,1] -/
theorem inScope_unit (q : Equivs) (concept : String) (hq : ∀ e ∈ q, Unit01 e.2.2) : Unit01 (inScope q concept) := by
  unfold inScope
  simp only
  split
  · exact ⟨le_refl _, by norm_num⟩
  · apply noisyOr_unit
    intro c hc
    obtain ⟨e, he, rfl⟩ := List.mem_map.mp hc
    exact hq e (List.mem_filter.mp he).1

/-- C20: seed selection ends mining only when every event object node is tainted, and otherwise
picks an untainted node (which the round then taints: `round_decreases`) that no other candidate
beats -/
theorem pickOk_sound (cands : List Cand) (choice : Option Nat) (hnn : ∀ c ∈ cands, 0 ≤ c.taint)
    (h : pickOk cands choice = true) :
    (choice = none → ∀ c ∈ cands, 0 < c.taint) ∧
    (∀ k, choice = some k → ∃ c ∈ cands, c.id = k ∧ c.taint ≤ 0 ∧
      ∀ d ∈ cands, d.taint ≤ 0 → d.conf ≤ c.conf) := by
  unfold pickOk at h
  constructor
  · intro hc c hcm
    subst hc
    simp only [List.isEmpty_iff, List.filter_eq_nil_iff, decide_eq_true_eq] at h
    exact not_le.mp (h c hcm)
  · intro k hc
    subst hc
    simp only [List.any_eq_true, List.mem_filter, decide_eq_true_eq, Bool.and_eq_true, beq_iff_eq, List.all_eq_true] at h
    obtain ⟨c, ⟨hcm, hct⟩, hid, hall⟩ := h
    refine ⟨c, hcm, hid, hct, fun d hd hdt => ?_⟩
    have := hall d ⟨hd, hdt⟩
    unfold seedKeyLe at this
    simp only [Bool.or_eq_true, decide_eq_true_eq, Bool.and_eq_true] at this
    rcases this with h1 | ⟨_, h2⟩
    · -- a strictly smaller key means a strictly larger taint: impossible between two untainted candidates
      have := hnn c hcm
      linarith
    · exact h2

/-- C20 (coverage): mining without a seed goes on until no node has taint 0. A node whose taint is
positive has a confidence with respect to some seed, and that confidence is above the minimum
(`search_wellformed`) or 1 (the node is that seed): it is at least the minimum, so the node is part
of that seed's instance (`extract_result_set` keeps what is not below the minimum) -/
theorem coverage (isSeed : Bool) (cs : List Rat) (min : Rat) (hmin : min ≤ 1)
    (hentries : ∀ c ∈ cs, min < c ∨ c = 1) (hseed : isSeed = true → (1 : Rat) ∈ cs)
    (ht : 0 < taintHistory isSeed cs) : ∃ c ∈ cs, min ≤ c := by
  have hne : cs ≠ [] := by
    intro hnil
    subst hnil
    cases isSeed with
    | true => simpa using hseed rfl
    | false =>
      have : taintHistory false [] = 0 := by decide +kernel
      rw [this] at ht
      exact absurd ht (lt_irrefl _)
  obtain ⟨c, rest, rfl⟩ := List.exists_cons_of_ne_nil hne
  refine ⟨c, by simp, ?_⟩
  rcases hentries c (by simp) with h | h
  · exact le_of_lt h
  · rw [h]; exact hmin

/-! ### Graph construction from events (`GraphConstructor.add`) -/

section Construct
open Edxml.Miner.Construct

/-- C20 (coverage, first half): every object that an event has for a property associated with a
concept gets a node of that event, property and value -- whether or not the property takes part in
concept relations, and whatever the other properties of the event hold. Together with `coverage`
(every node ends up in an instance): every concept-associated event object belongs to an instance. -/
theorem construct_covers (k : Nat) (et : EtDef) (ev : Ev) (p : PropDef) (v : String)
    (hp : p ∈ et.props) (ha : p.assocs ≠ []) (hv : v ∈ objects ev p.name) :
    ∃ n ∈ eventNodes k et ev, n.event = k ∧ n.prop = p.name ∧ n.value = v := by
  by_cases hrel : p.name ∈ relationProps et
  · obtain ⟨r, hr, hc, hx⟩ := mem_relationProps.mp hrel
    rcases hx with hx | hx
    · refine ⟨⟨k, r.source, r.sc, v⟩, ?_, rfl, hx.symm, rfl⟩
      exact mem_eventNodes.mpr (Or.inl ⟨r, hr, hc, Or.inl (mem_sourceNodes.mpr ⟨v, hx ▸ hv, rfl⟩)⟩)
    · refine ⟨⟨k, r.target, r.tc, v⟩, ?_, rfl, hx.symm, rfl⟩
      exact mem_eventNodes.mpr (Or.inl ⟨r, hr, hc, Or.inr (mem_targetNodes.mpr ⟨v, hx ▸ hv, rfl⟩)⟩)
  · obtain ⟨c, cs, hcs⟩ := List.exists_cons_of_ne_nil ha
    refine ⟨⟨k, p.name, c, v⟩, ?_, rfl, rfl, rfl⟩
    exact mem_eventNodes.mpr (Or.inr (mem_plainNodes.mpr ⟨p, hp, hrel, c, by simp [hcs], v, hv, rfl⟩))

/-- nothing is invented: a node stands for an object the event holds for that property -/
theorem nodes_sound (k : Nat) (et : EtDef) (ev : Ev) (n : NodeId) (hn : n ∈ eventNodes k et ev) :
    n.event = k ∧ n.value ∈ objects ev n.prop := by
  rcases mem_eventNodes.mp hn with ⟨r, _, _, h | h⟩ | h
  · obtain ⟨v, hv, rfl⟩ := mem_sourceNodes.mp h; exact ⟨rfl, hv⟩
  · obtain ⟨v, hv, rfl⟩ := mem_targetNodes.mp h; exact ⟨rfl, hv⟩
  · obtain ⟨p, _, _, c, _, v, hv, rfl⟩ := mem_plainNodes.mp h; exact ⟨rfl, hv⟩

/-- what `Ontology.validate()` demands of concept relations: the concepts they name are concepts
their properties are associated with -/
def RelsOk (et : EtDef) : Prop :=
  ∀ r ∈ et.rels, r.isConcept = true →
    (∃ p ∈ et.props, p.name = r.source ∧ r.sc ∈ p.assocs) ∧ (∃ p ∈ et.props, p.name = r.target ∧ r.tc ∈ p.assocs)

/-- a node carries a concept its property is associated with -/
theorem nodes_concept (k : Nat) (et : EtDef) (ev : Ev) (hok : RelsOk et) (n : NodeId) (hn : n ∈ eventNodes k et ev) :
    ∃ p ∈ et.props, p.name = n.prop ∧ n.concept ∈ p.assocs := by
  rcases mem_eventNodes.mp hn with ⟨r, hr, hc, h | h⟩ | h
  · obtain ⟨v, _, rfl⟩ := mem_sourceNodes.mp h; exact (hok r hr hc).1
  · obtain ⟨v, _, rfl⟩ := mem_targetNodes.mp h; exact (hok r hr hc).2
  · obtain ⟨p, hp, _, c, hc, v, _, rfl⟩ := mem_plainNodes.mp h; exact ⟨p, hp, rfl, hc⟩

/-- links join two different nodes of the graph, of one and the same event -/
theorem links_closed (k : Nat) (et : EtDef) (ev : Ev) (l : Link) (hl : l ∈ eventLinks k et ev) :
    l.src ∈ eventNodes k et ev ∧ l.dst ∈ eventNodes k et ev ∧ l.src ≠ l.dst ∧ l.src.event = l.dst.event := by
  unfold eventLinks at hl
  simp only [List.mem_flatMap, List.mem_filter] at hl
  obtain ⟨r, ⟨hr, hc⟩, hl⟩ := hl
  obtain ⟨s, hs, t, ht, hst, h⟩ := mem_relLinks.mp hl
  have hsn : s ∈ eventNodes k et ev := mem_eventNodes.mpr (Or.inl ⟨r, hr, hc, Or.inl hs⟩)
  have htn : t ∈ eventNodes k et ev := mem_eventNodes.mpr (Or.inl ⟨r, hr, hc, Or.inr ht⟩)
  have hev : s.event = t.event := by rw [(nodes_sound k et ev s hsn).1, (nodes_sound k et ev t htn).1]
  rcases h with rfl | rfl
  · exact ⟨hsn, htn, hst, hev⟩
  · exact ⟨htn, hsn, fun h => hst h.symm, hev.symm⟩

/-- inference can go either way: with every link the graph holds the reverse link -/
theorem links_symm (k : Nat) (et : EtDef) (ev : Ev) (l : Link) (hl : l ∈ eventLinks k et ev) :
    ⟨l.dst, l.src⟩ ∈ eventLinks k et ev := by
  unfold eventLinks at hl ⊢
  simp only [List.mem_flatMap, List.mem_filter] at hl ⊢
  obtain ⟨r, hrc, hl⟩ := hl
  refine ⟨r, hrc, ?_⟩
  obtain ⟨s, hs, t, ht, hst, h⟩ := mem_relLinks.mp hl
  refine mem_relLinks.mpr ⟨s, hs, t, ht, hst, ?_⟩
  rcases h with rfl | rfl
  · exact Or.inr rfl
  · exact Or.inl rfl

/-- every source object is linked with every target object of a concept relation -/
theorem links_complete (k : Nat) (et : EtDef) (ev : Ev) (r : RelDef) (hr : r ∈ et.rels) (hc : r.isConcept = true)
    (a b : String) (ha : a ∈ objects ev r.source) (hb : b ∈ objects ev r.target)
    (hne : (⟨k, r.source, r.sc, a⟩ : NodeId) ≠ ⟨k, r.target, r.tc, b⟩) :
    (⟨⟨k, r.source, r.sc, a⟩, ⟨k, r.target, r.tc, b⟩⟩ : Link) ∈ eventLinks k et ev := by
  unfold eventLinks
  simp only [List.mem_flatMap, List.mem_filter]
  exact ⟨r, ⟨hr, hc⟩, mem_relLinks.mpr ⟨_, mem_sourceNodes.mpr ⟨a, ha, rfl⟩, _, mem_targetNodes.mpr ⟨b, hb, rfl⟩, hne, Or.inl rfl⟩⟩

/-- the whole graph: the `i`-th event added (counting from the number `k` of the first) is covered -/
theorem graph_covers : ∀ (evs : List (EtDef × Ev)) (k i : Nat) (et : EtDef) (ev : Ev), evs[i]? = some (et, ev) →
    ∀ (p : PropDef) (v : String), p ∈ et.props → p.assocs ≠ [] → v ∈ objects ev p.name →
    ∃ n ∈ graphNodes k evs, n.event = k + i ∧ n.prop = p.name ∧ n.value = v
  | [], _, i, _, _, h => by simp at h
  | (et0, ev0) :: rest, k, 0, et, ev, h => by
    intro p v hp ha hv
    simp only [List.getElem?_cons_zero, Option.some.injEq, Prod.mk.injEq] at h
    obtain ⟨rfl, rfl⟩ := h
    obtain ⟨n, hn, h1, h2, h3⟩ := construct_covers k et0 ev0 p v hp ha hv
    exact ⟨n, by simp [graphNodes, hn], by simpa using h1, h2, h3⟩
  | (et0, ev0) :: rest, k, i + 1, et, ev, h => by
    intro p v hp ha hv
    simp only [List.getElem?_cons_succ] at h
    obtain ⟨n, hn, h1, h2, h3⟩ := graph_covers rest (k + 1) i et ev h p v hp ha hv
    exact ⟨n, by simp [graphNodes, hn], by omega, h2, h3⟩

/-- nodes of different events never coincide: event numbers are handed out once -/
theorem graph_nodes_event : ∀ (evs : List (EtDef × Ev)) (k : Nat) (n : NodeId), n ∈ graphNodes k evs →
    k ≤ n.event ∧ n.event < k + evs.length
  | [], _, _, h => by simp [graphNodes] at h
  | (et0, ev0) :: rest, k, n, h => by
    simp only [graphNodes, List.mem_append] at h
    rcases h with h | h
    · have := (nodes_sound k et0 ev0 n h).1
      simp only [List.length_cons]; omega
    · have := graph_nodes_event rest (k + 1) n h
      simp only [List.length_cons]; omega

/-- the constructor as it was before /repo commit 019d0ed does NOT cover: an event with an object for
the target property of a concept relation and none for the source property loses that object -/
def gapEt : EtDef :=
  { props := [⟨"pa", "oa", ["ca"]⟩, ⟨"pb", "ob", ["cb"]⟩], rels := [⟨.inter, "pa", "pb", "ca", "cb"⟩] }

theorem old_construction_misses :
    ∃ (et : EtDef) (ev : Ev) (p : PropDef) (v : String), p ∈ et.props ∧ p.assocs ≠ [] ∧ v ∈ objects ev p.name ∧
      ∀ n ∈ eventNodesOld 0 et ev, ¬ (n.prop = p.name ∧ n.value = v) :=
  ⟨gapEt, [("pb", ["only-target"])], ⟨"pb", "ob", ["cb"]⟩, "only-target", by decide, by decide, by decide, by decide⟩

/-- ... and it agrees with the repaired constructor on every event that has an object for the source
property of each of its concept relations (all the SDK's tests feed such events) -/
theorem old_agrees_when_sources_present (k : Nat) (et : EtDef) (ev : Ev)
    (h : ∀ r ∈ et.rels, r.isConcept = true → objects ev r.source ≠ []) :
    eventNodesOld k et ev = eventNodes k et ev := by
  unfold eventNodesOld eventNodes
  congr 1
  apply List.flatMap_congr
  intro r hr
  simp only [List.mem_filter] at hr
  have hne := h r hr.1 hr.2
  unfold relNodesOld relNodes
  have : (sourceNodes k r ev).isEmpty = false := by
    unfold sourceNodes
    cases hobj : objects ev r.source with
    | nil => exact absurd hobj hne
    | cons a as => simp
  simp [this]

example : eventNodes 0 gapEt [("pb", ["only-target"])] = [⟨0, "pb", "cb", "only-target"⟩] := by decide
example : eventNodes 3 gapEt [("pa", ["a"]), ("pb", ["b1", "b2"])] =
    [⟨3, "pa", "ca", "a"⟩, ⟨3, "pb", "cb", "b1"⟩, ⟨3, "pb", "cb", "b2"⟩] := by decide
example : (eventLinks 3 gapEt [("pa", ["a"]), ("pb", ["b1", "b2"])]).length = 4 := by decide
example : RelsOk gapEt := by
  intro r hr hc
  simp only [gapEt, List.mem_cons, List.not_mem_nil, or_false] at hr
  subst hr
  exact ⟨⟨⟨"pa", "oa", ["ca"]⟩, by simp [gapEt], rfl, by simp⟩, ⟨⟨"pb", "ob", ["cb"]⟩, by simp [gapEt], rfl, by simp⟩⟩

/-- C20 (coverage, end to end): from the events to the instances. When mining without a seed has
stopped (`find_optimal_seed` found no untainted node: `pickOk … none`), every object that any event
holds for a concept-associated property has a node (`graph_covers`), that node is tainted
(`pickOk_sound`), and so it has a confidence of at least the requested minimum with respect to one
of the mined seeds (`coverage`): `extract_result_set` puts it into that seed's instance.
`num` numbers the nodes for the search, `hist k` is what node `k` went through (was it a seed; its
seed confidences in the order the seeds were mined). -/
theorem objects_covered (evs : List (EtDef × Ev)) (num : NodeId → Nat) (cands : List Cand)
    (hist : Nat → Bool × List Rat) (min : Rat) (hmin : min ≤ 1)
    (hcand : ∀ n ∈ graphNodes 0 evs, ∃ c ∈ cands, c.id = num n)
    (htaint : ∀ c ∈ cands, c.taint = taintHistory (hist c.id).1 (hist c.id).2)
    (hentries : ∀ c ∈ cands, ∀ x ∈ (hist c.id).2, min < x ∨ x = 1)
    (hseed : ∀ c ∈ cands, (hist c.id).1 = true → (1 : Rat) ∈ (hist c.id).2)
    (hnn : ∀ c ∈ cands, 0 ≤ c.taint)
    (hstop : pickOk cands none = true)
    (i : Nat) (et : EtDef) (ev : Ev) (hi : evs[i]? = some (et, ev))
    (p : PropDef) (v : String) (hp : p ∈ et.props) (ha : p.assocs ≠ []) (hv : v ∈ objects ev p.name) :
    ∃ n ∈ graphNodes 0 evs, n.event = i ∧ n.prop = p.name ∧ n.value = v ∧ ∃ x ∈ (hist (num n)).2, min ≤ x := by
  obtain ⟨n, hn, h1, h2, h3⟩ := graph_covers evs 0 i et ev hi p v hp ha hv
  obtain ⟨c, hc, hid⟩ := hcand n hn
  have hpos : 0 < c.taint := (pickOk_sound cands none hnn hstop).1 rfl c hc
  rw [htaint c hc] at hpos
  obtain ⟨x, hx, hle⟩ := coverage (hist c.id).1 (hist c.id).2 min hmin (hentries c hc) (hseed c hc) hpos
  exact ⟨n, hn, by omega, h2, h3, x, hid ▸ hx, hle⟩

/-- the hypotheses of `objects_covered` can be met: one event, its only node mined as a seed -/
example : ∃ n ∈ graphNodes 0 [(gapEt, [("pb", ["only-target"])])], n.event = 0 ∧ n.prop = "pb" ∧ n.value = "only-target" ∧
    ∃ x ∈ [(1 : Rat)], (1 / 10 : Rat) ≤ x :=
  objects_covered [(gapEt, [("pb", ["only-target"])])] (fun _ => 0) [⟨0, 1, 1⟩] (fun _ => (true, [1])) (1 / 10) (by norm_num)
    (fun _ _ => ⟨⟨0, 1, 1⟩, by simp, rfl⟩)
    (fun c hc => by
      simp only [List.mem_cons, List.not_mem_nil, or_false] at hc
      subst hc
      show (1 : Rat) = taintHistory true [1]
      simp [taintHistory])
    (fun _ _ x hx => by simp only [List.mem_cons, List.not_mem_nil, or_false] at hx; exact Or.inr hx)
    (fun _ _ _ => by simp)
    (fun c hc => by simp only [List.mem_cons, List.not_mem_nil, or_false] at hc; subst hc; norm_num)
    (by decide +kernel) 0 gapEt [("pb", ["only-target"])] rfl ⟨"pb", "ob", ["cb"]⟩ "only-target" (by simp [gapEt]) (by simp) (by decide)

end Construct

/-! ### `extract_result_set`: from seed confidences to instances -/

section Extract
open Edxml.Miner.Extract

/-- C20: the result set holds node `k` under attribute (`a`, `v`) of the instance of seed `s` exactly
when an event object node with that id, attribute name and value has a confidence of at least the
requested minimum with respect to `s` -/
theorem extract_mem (nodes : List ONode) (min : Rat) (s : Nat) (a v : String) (k : Nat) :
    (∃ i ∈ extract nodes min, i.seed = s ∧ ∃ x ∈ i.attrs, x.name = a ∧ x.value = v ∧ k ∈ x.nodes) ↔
      ∃ n ∈ nodes, n.id = k ∧ n.attr = a ∧ n.value = v ∧ ∃ c, n.sc.lookup s = some c ∧ min ≤ c := by
  unfold extract
  constructor
  · rintro ⟨i, hi, hs, x, hx, ha, hv, hk⟩
    obtain ⟨s', _, rfl⟩ := List.mem_map.mp hi
    simp only at hs hx
    subst hs
    obtain ⟨av, _, rfl⟩ := List.mem_map.mp hx
    simp only at ha hv hk
    subst ha hv
    obtain ⟨n, hn, hid, hq, hna, hnv⟩ := mem_attrNodes.mp hk
    exact ⟨n, hn, hid, hna, hnv, qualifies_iff.mp hq⟩
  · rintro ⟨n, hn, hid, ha, hv, hc⟩
    have hq := qualifies_iff.mpr hc
    refine ⟨_, List.mem_map.mpr ⟨s, mem_seedsOf.mpr ⟨n, hn, hq⟩, rfl⟩, rfl, ?_⟩
    refine ⟨⟨a, v, attrNodes nodes min s a v⟩, List.mem_map.mpr ⟨(a, v), mem_attrsOf.mpr ⟨n, hn, hq, ha, hv⟩, rfl⟩, rfl, rfl, ?_⟩
    exact mem_attrNodes.mpr ⟨n, hn, hid, hq, ha, hv⟩

/-- every reported node meets the requested minimum (so the attribute does: `attribute_meets_minimum`) -/
theorem extract_meets_minimum (nodes : List ONode) (min : Rat) (i : Instance) (hi : i ∈ extract nodes min)
    (x : Attribute) (hx : x ∈ i.attrs) (k : Nat) (hk : k ∈ x.nodes) :
    ∃ n ∈ nodes, n.id = k ∧ ∃ c, n.sc.lookup i.seed = some c ∧ min ≤ c := by
  obtain ⟨n, hn, hid, _, _, hc⟩ := (extract_mem nodes min i.seed x.name x.value k).mp ⟨i, hi, rfl, x, hx, rfl, rfl, hk⟩
  exact ⟨n, hn, hid, hc⟩

/-- one instance per seed, one attribute per (name, value); no instance without attributes, no attribute without nodes -/
theorem extract_shape (nodes : List ONode) (min : Rat) :
    ((extract nodes min).map (·.seed)).Nodup ∧
    ∀ i ∈ extract nodes min, (i.attrs.map fun x => (x.name, x.value)).Nodup ∧ i.attrs ≠ [] ∧ ∀ x ∈ i.attrs, x.nodes ≠ [] := by
  unfold extract
  constructor
  · simp only [List.map_map]
    have : ((fun i : Instance => i.seed) ∘ fun s => ({ seed := s, attrs := (attrsOf nodes min s).map fun av => ⟨av.1, av.2, attrNodes nodes min s av.1 av.2⟩ } : Instance)) = id := by
      funext s; rfl
    rw [this, List.map_id]
    exact nodup_dedup _
  · intro i hi
    obtain ⟨s, hs, rfl⟩ := List.mem_map.mp hi
    refine ⟨?_, ?_, ?_⟩
    · simp only [List.map_map]
      have : ((fun x : Attribute => (x.name, x.value)) ∘ fun av : String × String => (⟨av.1, av.2, attrNodes nodes min s av.1 av.2⟩ : Attribute)) = id := by
        funext av; rfl
      rw [this, List.map_id]
      exact nodup_dedup _
    · obtain ⟨n, hn, hq⟩ := mem_seedsOf.mp hs
      have : (n.attr, n.value) ∈ attrsOf nodes min s := mem_attrsOf.mpr ⟨n, hn, hq, rfl, rfl⟩
      intro hnil
      simp only [List.map_eq_nil_iff] at hnil
      rw [hnil] at this
      exact absurd this (by simp)
    · intro x hx
      obtain ⟨av, hav, rfl⟩ := List.mem_map.mp hx
      obtain ⟨n, hn, hq, ha, hv⟩ := mem_attrsOf.mp (show (av.1, av.2) ∈ attrsOf nodes min s from hav)
      intro hnil
      have : n.id ∈ attrNodes nodes min s av.1 av.2 := mem_attrNodes.mpr ⟨n, hn, rfl, hq, ha, hv⟩
      simp only at hnil
      rw [hnil] at this
      exact absurd this (by simp)

/-- C20 (coverage, last step): a node that has a confidence of at least the minimum with respect to
some seed (what `coverage` concludes for every tainted node) is reported in an instance -/
theorem covered_in_instance (nodes : List ONode) (min : Rat) (n : ONode) (hn : n ∈ nodes)
    (hkeys : (n.sc.map (·.1)).Nodup) (h : ∃ c ∈ n.sc.map (·.2), min ≤ c) :
    ∃ i ∈ extract nodes min, ∃ x ∈ i.attrs, x.name = n.attr ∧ x.value = n.value ∧ n.id ∈ x.nodes := by
  obtain ⟨c, hc, hle⟩ := h
  obtain ⟨⟨s, c'⟩, hp, rfl⟩ := List.mem_map.mp hc
  have hl := lookup_of_mem_nodup hkeys hp
  obtain ⟨i, hi, _, x, hx, h1, h2, h3⟩ :=
    (extract_mem nodes min s n.attr n.value n.id).mpr ⟨n, hn, rfl, rfl, rfl, c', hl, hle⟩
  exact ⟨i, hi, x, hx, h1, h2, h3⟩

/-- asking for a higher minimum never adds anything: what is reported under the minimum `min'` is
reported under every lower minimum `min` (mining another seed with a higher minimum on the same
graph can only prune the instances mined before) -/
theorem extract_antitone (nodes : List ONode) (min min' : Rat) (h : min ≤ min') (s : Nat) (a v : String) (k : Nat)
    (hr : ∃ i ∈ extract nodes min', i.seed = s ∧ ∃ x ∈ i.attrs, x.name = a ∧ x.value = v ∧ k ∈ x.nodes) :
    ∃ i ∈ extract nodes min, i.seed = s ∧ ∃ x ∈ i.attrs, x.name = a ∧ x.value = v ∧ k ∈ x.nodes := by
  obtain ⟨n, hn, hid, ha, hv, c, hc, hle⟩ := (extract_mem nodes min' s a v k).mp hr
  exact (extract_mem nodes min s a v k).mpr ⟨n, hn, hid, ha, hv, c, hc, le_trans h hle⟩

def exNodes : List ONode :=
  [⟨0, "oa:", "v1", [(0, 1), (2, 1/20)]⟩, ⟨1, "ob:", "v2", [(0, 9/10)]⟩, ⟨2, "oa:", "v1", [(2, 1), (0, 1/2)]⟩]

example : (extract exNodes (1/10)).map (fun i => (i.seed, i.attrs.map fun x => (x.name, x.value, x.nodes))) =
    [(2, [("oa:", "v1", [2])]), (0, [("ob:", "v2", [1]), ("oa:", "v1", [0, 2])])] := by decide +kernel

end Extract

/-! ### Non-vacuity -/

example : noisyOr [1/2, 1/2] = 3/4 := by decide +kernel
example : taintOf [1/2, 1/2, 1/2] = 5/8 := by decide +kernel   -- not the noisy-or 7/8: the SDK's reduce formula
example : dijkstra 1 (1/5) 0 (4/5) = 4/25 := by decide +kernel

/-- a three node graph: the seed 0 reaches node 1 (confidence 9/10 · 1/2) and node 2 through node 1 -/
def exGraph : SGraph := { conf := fun _ => 1, taint := fun k => if k = 2 then 1/2 else 0 }
def exTrace : Trace := [(0, [⟨1, 9/10⟩, ⟨2, 1/10⟩]), (1, [⟨2, 1/2⟩, ⟨0, 1⟩]), (2, [])]
example : (run exGraph (1/100) 10 0 exTrace).map (·.2) = some [1, 9/10, 9/40] := by decide +kernel
example : ((run exGraph (1/100) 10 0 exTrace).map fun r => [r.1.sc 0, r.1.sc 1, r.1.sc 2]) =
    some [some 1, some (9/10), some (9/40)] := by decide +kernel
-- processing the less confident node first is not an execution of the algorithm
example : run exGraph (1/100) 10 0 [(0, [⟨1, 9/10⟩, ⟨2, 1/10⟩]), (2, []), (1, [⟨2, 1/2⟩])] = none := by decide +kernel
-- nor is stopping while a candidate that passes the guard is left
example : (run exGraph (1/100) 10 0 [(0, [⟨1, 9/10⟩, ⟨2, 1/10⟩])]).isNone = true := by decide +kernel
example : shareBranch "ca.x" "ca" = true ∧ shareBranch "ca" "cb" = false := by decide +kernel
example : inScope [("ca", 0, 1), ("cb", 3, 1/2)] "ca.x" = 1 := by decide +kernel
example : EdxmlProps.Search.GraphOk exGraph :=
  ⟨fun _ => ⟨by simp [exGraph], by simp [exGraph]⟩, fun k => by
    simp only [exGraph]; split <;> exact ⟨by norm_num, by norm_num⟩⟩

end EdxmlProps.C20
